import UtlsVerif.Prng
/-!
# C30 — the seeded PRNG is deterministic and its helpers stay in range

Determinism is functionality of the model: every helper is a function of (arguments, stream).
The theorems below hold for **every** stream (including adversarial ones that make the rejection
loops spin until the supplied log ends, in which case the result is `none` and nothing is claimed).
-/
namespace C30
open Prng

private theorem rejectLoop_le (draw : Stream → Option (Nat × Stream)) (max fuel : Nat) (s r : Stream) (v : Nat)
    (h : rejectLoop draw max fuel s = some (v, r)) : v ≤ max := by
  induction fuel generalizing s with
  | zero => simp [rejectLoop] at h
  | succ f ih =>
    unfold rejectLoop at h
    cases hd : draw s with
    | none => simp [hd] at h
    | some p =>
      obtain ⟨v', r'⟩ := p
      simp only [hd] at h
      split at h
      · exact ih _ h
      · cases h; omega

/-- `rand.Int63n(n)`: result `< n` for every `n > 0` and every stream. -/
theorem int63n_range (n : Nat) (hn : 0 < n) (s r : Stream) (v : Nat)
    (h : int63n n s = some (v, r)) : v < n := by
  unfold int63n at h
  split at h
  · cases hi : int63 s with
    | none => simp [hi] at h
    | some p =>
      simp [hi] at h
      obtain ⟨rfl, _⟩ := h
      have := @Nat.and_le_right p.1 (n - 1)
      omega
  · cases hl : rejectLoop int63 (two63 - 1 - two63 % n) (s.length + 1) s with
    | none => simp [hl] at h
    | some p =>
      simp [hl] at h
      obtain ⟨rfl, _⟩ := h
      exact Nat.mod_lt _ hn

/-- `rand.Int31n(n)`: result `< n`. -/
theorem int31n_range (n : Nat) (hn : 0 < n) (s r : Stream) (v : Nat)
    (h : int31n n s = some (v, r)) : v < n := by
  unfold int31n at h
  split at h
  · cases hi : int31 s with
    | none => simp [hi] at h
    | some p =>
      simp [hi] at h
      obtain ⟨rfl, _⟩ := h
      have := @Nat.and_le_right p.1 (n - 1)
      omega
  · cases hl : rejectLoop int31 (two31 - 1 - two31 % n) (s.length + 1) s with
    | none => simp [hl] at h
    | some p =>
      simp [hl] at h
      obtain ⟨rfl, _⟩ := h
      exact Nat.mod_lt _ hn

/-- **`prng.Intn`**: in `[0,n)` for `n > 0`; exactly `0` — without consuming the stream — for `n ≤ 0`. -/
theorem intn_range (n : Int) (s r : Stream) (v : Nat) (h : intn n s = some (v, r)) :
    (0 < n → (v : Int) < n) ∧ (n ≤ 0 → v = 0 ∧ r = s) := by
  unfold intn at h
  constructor
  · intro hn
    rw [if_neg (by omega)] at h
    unfold randIntn at h
    have hpos : 0 < n.toNat := by omega
    have : v < n.toNat := by
      split at h
      · exact int31n_range _ hpos s r v h
      · exact int63n_range _ hpos s r v h
    omega
  · intro hn
    rw [if_pos hn] at h
    cases h; exact ⟨rfl, rfl⟩

/-- **`prng.Int63n`**: same contract. -/
theorem int63n_contract (n : Int) (s r : Stream) (v : Nat) (h : pInt63n n s = some (v, r)) :
    (0 < n → (v : Int) < n) ∧ (n ≤ 0 → v = 0 ∧ r = s) := by
  unfold pInt63n at h
  constructor
  · intro hn
    rw [if_neg (by omega)] at h
    have := int63n_range n.toNat (by omega) s r v h
    omega
  · intro hn
    rw [if_pos hn] at h
    cases h; exact ⟨rfl, rfl⟩

/-- **`prng.Range(min,max)`** for all `int64` arguments: the result lies in `[max(min,0), max]`, and is
the clamped minimum when `max` is below it — including the overflowing span `max-min+1 = 2^63`. -/
theorem range_clamp (min max : Int) (s r : Stream) (v : Int)
    (hmin : -9223372036854775808 ≤ min ∧ min ≤ 9223372036854775807)
    (hmax : -9223372036854775808 ≤ max ∧ max ≤ 9223372036854775807)
    (h : range min max s = some (v, r)) :
    let lo := if min < 0 then 0 else min
    (max < lo → v = lo ∧ r = s) ∧ (lo ≤ max → lo ≤ v ∧ v ≤ max) := by
  intro lo
  unfold range at h
  simp only at h
  have hlo : lo = if min < 0 then 0 else min := rfl
  rw [← hlo] at h
  constructor
  · intro hlt
    rw [if_pos hlt] at h
    simp only [Option.some.injEq, Prod.mk.injEq] at h
    exact ⟨h.1.symm, h.2.symm⟩
  · intro hle
    rw [if_neg (by omega)] at h
    cases hi : intn (wrap64 (max - lo + 1)) s with
    | none => simp [hi] at h
    | some p =>
      obtain ⟨n, r'⟩ := p
      simp [hi] at h
      obtain ⟨rfl, _⟩ := h
      obtain ⟨hpos, hnonpos⟩ := intn_range _ s r' n hi
      have hlo0 : 0 ≤ lo := by rw [hlo]; split <;> omega
      have hlo1 : lo ≤ 9223372036854775807 := by rw [hlo]; split <;> omega
      by_cases hw : max - lo + 1 = 9223372036854775808
      · -- the span overflows int64: wrap64 gives MinInt64, Intn returns 0
        have : wrap64 (max - lo + 1) ≤ 0 := by unfold wrap64; rw [hw]; decide
        obtain ⟨rfl, _⟩ := hnonpos this
        constructor <;> omega
      · have hsmall : 0 < max - lo + 1 ∧ max - lo + 1 < 9223372036854775808 := by omega
        have hwrap : wrap64 (max - lo + 1) = max - lo + 1 := by
          unfold wrap64; omega
        rw [hwrap] at hpos
        have := hpos hsmall.1
        constructor <;> omega

/-- `FlipWeightedCoin` corners over the abstract float layer: if the fraction never exceeds the
threshold's lower bound (weight ≤ 0 ⇒ `1-w ≥ 1 ≥ frac`) the coin is always false; if the threshold
is 0 (weight ≥ 1) the coin is true exactly when the fraction is positive, i.e. the draw is non-zero. -/
theorem coin_corners (frac : Nat → Nat) (one : Nat) (hfrac : ∀ v, frac v ≤ one)
    (hzero : ∀ v, frac v = 0 ↔ v = 0) :
    (∀ thr : Int, (one : Int) ≤ thr → ∀ v, coinAbs frac thr v = false) ∧
    (∀ v, coinAbs frac 0 v = true ↔ v ≠ 0) := by
  constructor
  · intro thr hthr v
    have := hfrac v
    simp [coinAbs]; omega
  · intro v
    have := hzero v
    simp [coinAbs]
    omega

private theorem permStep_length (m : List Nat) (j : Nat) : (permStep m j).length = m.length + 1 := by
  unfold permStep; simp only; split <;> simp

private theorem permStep_perm (m : List Nat) (j : Nat) (hj : j ≤ m.length) :
    (permStep m j).Perm (m.length :: m) := by
  unfold permStep
  simp only
  split
  · exact List.perm_append_singleton m.length m
  · rename_i hne
    have hlt : j < m.length := by omega
    -- (m.set j i) ++ [m[j]]  ~  i :: m
    rw [List.perm_iff_count]
    intro c
    simp only [List.count_append, List.count_cons, List.count_nil, List.getD_eq_getElem?_getD,
      List.getElem?_eq_getElem hlt, Option.getD_some]
    rw [List.count_set hlt]
    have hpos : 0 < List.count m[j] m := List.count_pos_iff.mpr (List.getElem_mem hlt)
    by_cases e1 : m[j] = c <;> by_cases e2 : m.length = c <;> simp [e1, e2, beq_iff_eq] <;>
      (try subst e1) <;> omega

private theorem permLoop_perm (k : Nat) (m : List Nat) (s r : Stream) (out : List Nat)
    (hm : m.Perm (List.range m.length)) (h : permLoop k m s = some (out, r)) :
    out.length = m.length + k ∧ out.Perm (List.range (m.length + k)) := by
  induction k generalizing m s with
  | zero => simp [permLoop] at h; obtain ⟨rfl, _⟩ := h; exact ⟨rfl, hm⟩
  | succ k ih =>
    unfold permLoop at h
    cases hj : randIntn (m.length + 1) s with
    | none => simp [hj] at h
    | some p =>
      obtain ⟨j, r'⟩ := p
      simp only [hj] at h
      have hjlt : j < m.length + 1 := by
        unfold randIntn at hj
        split at hj
        · exact int31n_range _ (by omega) s r' j hj
        · exact int63n_range _ (by omega) s r' j hj
      have hp := permStep_perm m j (by omega)
      have hlen := permStep_length m j
      have hm' : (permStep m j).Perm (List.range (permStep m j).length) := by
        rw [hlen, List.range_succ]
        exact hp.trans ((List.perm_append_singleton _ _).symm.trans (List.Perm.append_right _ hm)) |>.trans (List.Perm.refl _)
      obtain ⟨h1, h2⟩ := ih (permStep m j) r' hm' h
      rw [hlen] at h1 h2
      exact ⟨by omega, by rwa [show m.length + (k + 1) = m.length + 1 + k by omega]⟩

/-- **`prng.Perm(n)`** returns a permutation of `0 … n-1`, for every stream. -/
theorem perm_is_perm (n : Nat) (s r : Stream) (out : List Nat) (h : perm n s = some (out, r)) :
    out.Perm (List.range n) := by
  have := permLoop_perm n [] s r out (by simp) h
  simpa using this.2

private theorem swap_perm {α : Type} [DecidableEq α] (xs : List α) (i j : Nat) : (swap xs i j).Perm xs := by
  unfold swap
  split
  · rename_i a b ha hb
    obtain ⟨hi, rfl⟩ := List.getElem?_eq_some_iff.mp ha
    obtain ⟨hj, rfl⟩ := List.getElem?_eq_some_iff.mp hb
    rw [List.perm_iff_count]
    intro c
    by_cases hij : i = j
    · subst hij; simp
    · have hj' : j < (xs.set i xs[j]).length := by simpa using hj
      rw [List.count_set hj', List.count_set hi]
      simp only [List.getElem_set_ne hij]
      have h1 : 0 < List.count xs[i] xs := List.count_pos_iff.mpr (List.getElem_mem hi)
      have h2 : 0 < List.count xs[j] xs := List.count_pos_iff.mpr (List.getElem_mem hj)
      by_cases e1 : xs[i] = c <;> by_cases e2 : xs[j] = c <;> simp [e1, e2, beq_iff_eq] <;>
        (try subst e1) <;> (try subst e2) <;> omega
  · exact List.Perm.refl _

/-- `rand.Shuffle` (as used by the randomized fingerprints) permutes its list, for every stream. -/
theorem shuffle_is_perm {α : Type} [DecidableEq α] (xs out : List α) (s r : Stream)
    (h : shuffle xs s = some (out, r)) : out.Perm xs := by
  unfold shuffle at h
  generalize xs.length - 1 = n at h
  induction n generalizing xs s with
  | zero => simp [shuffleLoop] at h; obtain ⟨rfl, _⟩ := h; exact List.Perm.refl _
  | succ i ih =>
    unfold shuffleLoop at h
    cases hj : lemire31n (i + 2) s with
    | none => simp [hj] at h
    | some p =>
      obtain ⟨j, r'⟩ := p
      simp only [hj] at h
      exact (ih _ _ h).trans (swap_perm xs (i + 1) j)

/-! ## Draws only move forward -/

private theorem int63_step (s r : Stream) (v : Nat) (h : int63 s = some (v, r)) : ∃ u, s = u :: r := by
  cases s with
  | nil => simp [int63, uint64] at h
  | cons u t =>
    simp only [int63, uint64, Option.map_some, Option.some.injEq, Prod.mk.injEq] at h
    exact ⟨u, by rw [h.2]⟩

private theorem rejectLoop_forward (draw : Stream → Option (Nat × Stream))
    (hd : ∀ s v r, draw s = some (v, r) → ∃ u, s = u :: r) (max fuel : Nat) (s r : Stream) (v : Nat)
    (h : rejectLoop draw max fuel s = some (v, r)) : r <:+ s ∧ r.length < s.length := by
  induction fuel generalizing s with
  | zero => simp [rejectLoop] at h
  | succ f ih =>
    unfold rejectLoop at h
    cases hdraw : draw s with
    | none => simp [hdraw] at h
    | some p =>
      obtain ⟨v1, r1⟩ := p
      obtain ⟨u, hu⟩ := hd s v1 r1 hdraw
      simp only [hdraw] at h
      split at h
      · obtain ⟨h1, h2⟩ := ih r1 h
        subst hu
        exact ⟨List.IsSuffix.trans h1 (List.suffix_cons u r1), by simp; omega⟩
      · simp only [Option.some.injEq, Prod.mk.injEq] at h
        subst hu
        rw [← h.2]
        exact ⟨List.suffix_cons u r1, by simp⟩

/-- **No word of the stream is used twice**: a successful `Int63n(n)` (`n > 0`) returns as unread
rest a *proper suffix* of the stream it was given — the generator only moves forward, so successive
draws read disjoint stretches of the stream (what makes "same seed ⇒ same sequence" compositional). -/
theorem int63n_moves_forward (n : Nat) (s r : Stream) (v : Nat) (h : int63n n s = some (v, r)) :
    r <:+ s ∧ r.length < s.length := by
  unfold int63n at h
  split at h
  · cases hi : int63 s with
    | none => simp [hi] at h
    | some p =>
      obtain ⟨v1, r1⟩ := p
      simp only [hi, Option.map_some, Option.some.injEq, Prod.mk.injEq] at h
      obtain ⟨u, hu⟩ := int63_step s r1 v1 hi
      subst hu; rw [← h.2]
      exact ⟨List.suffix_cons u r1, by simp⟩
  · cases hl : rejectLoop int63 (two63 - 1 - two63 % n) (s.length + 1) s with
    | none => simp [hl] at h
    | some p =>
      obtain ⟨v1, r1⟩ := p
      simp only [hl, Option.map_some, Option.some.injEq, Prod.mk.injEq] at h
      rw [← h.2]
      exact rejectLoop_forward int63 (fun s v r h => int63_step s r v h) _ _ s r1 v1 hl

/-- `prng.Int63n(n)` with `n ≤ 0` reads nothing; with `n > 0` it moves forward. -/
theorem pInt63n_forward (n : Int) (s r : Stream) (v : Nat) (h : pInt63n n s = some (v, r)) :
    r <:+ s ∧ (0 < n → r.length < s.length) ∧ (n ≤ 0 → r = s) := by
  unfold pInt63n at h
  split at h
  · simp only [Option.some.injEq, Prod.mk.injEq] at h
    exact ⟨by rw [h.2]; exact List.suffix_refl _, fun hp => by omega, fun _ => h.2.symm⟩
  · obtain ⟨h1, h2⟩ := int63n_moves_forward _ s r v h
    exact ⟨h1, fun _ => h2, fun hn => by omega⟩

private theorem int31_step (s : Stream) (v : Nat) (r : Stream) (h : int31 s = some (v, r)) : ∃ u, s = u :: r := by
  unfold int31 at h
  cases hi : int63 s with
  | none => simp [hi] at h
  | some p =>
    obtain ⟨v1, r1⟩ := p
    simp only [hi, Option.map_some, Option.some.injEq, Prod.mk.injEq] at h
    obtain ⟨u, hu⟩ := int63_step s r1 v1 hi
    exact ⟨u, by rw [← h.2]; exact hu⟩

theorem int31n_moves_forward (n : Nat) (s r : Stream) (v : Nat) (h : int31n n s = some (v, r)) :
    r <:+ s ∧ r.length < s.length := by
  unfold int31n at h
  split at h
  · cases hi : int31 s with
    | none => simp [hi] at h
    | some p =>
      obtain ⟨v1, r1⟩ := p
      simp only [hi, Option.map_some, Option.some.injEq, Prod.mk.injEq] at h
      obtain ⟨u, hu⟩ := int31_step s v1 r1 hi
      subst hu; rw [← h.2]
      exact ⟨List.suffix_cons u r1, by simp⟩
  · cases hl : rejectLoop int31 (two31 - 1 - two31 % n) (s.length + 1) s with
    | none => simp [hl] at h
    | some p =>
      obtain ⟨v1, r1⟩ := p
      simp only [hl, Option.map_some, Option.some.injEq, Prod.mk.injEq] at h
      rw [← h.2]
      exact rejectLoop_forward int31 int31_step _ _ s r1 v1 hl

/-- `prng.Intn(n)`: nothing is read for `n ≤ 0`; otherwise the unread rest is a proper suffix —
on both the 31-bit and the 63-bit path of `rand.Intn`. -/
theorem intn_forward (n : Int) (s r : Stream) (v : Nat) (h : intn n s = some (v, r)) :
    r <:+ s ∧ (0 < n → r.length < s.length) ∧ (n ≤ 0 → r = s) := by
  unfold intn at h
  split at h
  · simp only [Option.some.injEq, Prod.mk.injEq] at h
    exact ⟨by rw [h.2]; exact List.suffix_refl _, fun hp => by omega, fun _ => h.2.symm⟩
  · unfold randIntn at h
    split at h
    · obtain ⟨h1, h2⟩ := int31n_moves_forward _ s r v h
      exact ⟨h1, fun _ => h2, fun hn => by omega⟩
    · obtain ⟨h1, h2⟩ := int63n_moves_forward _ s r v h
      exact ⟨h1, fun _ => h2, fun hn => by omega⟩

example : int63n 10 [9223372036854775807, 42] = some (2, []) := by decide

/-! ## Concurrent use -/

/-- **Safe for concurrent use, given atomic calls**: for every lock order the words handed out are,
in that order, exactly the next words of the stream — no word is handed out twice, none is skipped,
none is invented. (The `prng_conc` monitor checks the consequence on real goroutines: the draws of
all goroutines together are a partition of the stream prefix. A `Uint64` that decodes from memory
shared between calls is not of the atomic shape this statement assumes, and the monitor sees
duplicated and lost words.) -/
theorem conc_draws_are_the_stream_prefix (sched : List Nat) (s : Stream) (h : sched.length ≤ s.length) :
    (runSched sched s).map (·.2) = (s.take sched.length).map (· % 18446744073709551616) := by
  induction sched generalizing s with
  | nil => simp [runSched]
  | cons t ts ih =>
    cases s with
    | nil => simp at h
    | cons u r =>
      simp only [runSched, List.map_cons, List.length_cons, List.take_succ_cons]
      rw [ih r (by simpa using h)]

/-- each goroutine receives a subsequence of that prefix, and the sizes add up: together with the
statement above, the per-goroutine draws partition the prefix. -/
theorem conc_draws_count (sched : List Nat) (s : Stream) (h : sched.length ≤ s.length) :
    (runSched sched s).length = sched.length ∧
    ∀ t, (drawsOf t (runSched sched s)).length = sched.count t := by
  induction sched generalizing s with
  | nil => simp [runSched, drawsOf]
  | cons t' ts ih =>
    cases s with
    | nil => simp at h
    | cons u r =>
      obtain ⟨h1, h2⟩ := ih r (by simpa using h)
      refine ⟨by simp [runSched, h1], fun t => ?_⟩
      have := h2 t
      simp only [drawsOf, List.length_map] at this ⊢
      by_cases e : t' = t
      · subst e; simp [runSched, this]
      · have e' : (t' == t) = false := by simpa using e
        simp [runSched, this, e', List.count_cons]

/-! ## Salted seeds

Full statement of the property: *different salts give different seeds*. It is cryptographic (it
rests on HMAC/HKDF behaving like a random function of the key block, hypothesis `hF`) **and it is
false as stated** for the code as it is: HMAC pads its key with zero bytes, so salts that differ
only by trailing NUL bytes are the same key block (`salted_differs_fails`; replayed on the real code
by `corpus/C30/salt-trailing-nul.case`, known finding `salt-trailing-nul`). What holds is
`salted_differs_partial`. -/

private theorem dropWhile_replicate_zero (n : Nat) (t : List UInt8) :
    (List.replicate n (0 : UInt8) ++ t).dropWhile (· == 0) = t.dropWhile (· == 0) := by
  induction n with
  | zero => rfl
  | succ n ih => simp [List.replicate_succ, ih]

private theorem stripZ_pad (s : List UInt8) (n : Nat) : stripZ (s ++ List.replicate n 0) = stripZ s := by
  unfold stripZ
  rw [List.reverse_append, List.reverse_replicate, dropWhile_replicate_zero]

/-- salted seeds are a function of (seed, salt) — and of the **whole** salt up to trailing NULs:
two salts of at most one HMAC block that differ anywhere else give different key blocks, hence
(`hF`: the rest of HKDF is injective in the key block, the cryptographic idealisation) different seeds. -/
theorem salted_differs_partial (H : List UInt8 → List UInt8) (F : List UInt8 → List UInt8 → List UInt8)
    (hF : ∀ seed k k', F seed k = F seed k' → k = k')
    (seed a b : List UInt8) (ha : a.length ≤ hmacBlock) (hb : b.length ≤ hmacBlock)
    (h : stripZ a ≠ stripZ b) : saltedSeed H F seed a ≠ saltedSeed H F seed b := by
  intro he
  have hk := hF _ _ _ he
  unfold saltKey at hk
  simp only [ha, hb, if_true] at hk
  apply h
  have := congrArg stripZ hk
  rwa [stripZ_pad, stripZ_pad] at this

/-- the negation of the unguarded statement, with a concrete witness: `"ALPS"` and `"ALPS\x00"`
derive the same seed whatever the hash and the rest of HKDF are. -/
theorem salted_differs_fails :
    ∃ a b : List UInt8, a ≠ b ∧ ∀ H F seed, saltedSeed H F seed a = saltedSeed H F seed b := by
  refine ⟨[0x41, 0x4c, 0x50, 0x53], [0x41, 0x4c, 0x50, 0x53, 0], by decide, ?_⟩
  intro H F seed
  have : saltKey H [0x41, 0x4c, 0x50, 0x53] = saltKey H [0x41, 0x4c, 0x50, 0x53, 0] := by
    simp [saltKey, hmacBlock, List.replicate_succ]
  simp [saltedSeed, this]

/-! Non-vacuity: concrete draws. -/
example : intn 10 [0x1234567800000000] = some (6, []) := by decide
example : intn 10 [0x7fffffff00000000, 0x1234567800000000] = some (6, []) := by decide  -- first draw rejected
example : intn (-4) [5] = some (0, [5]) := by decide
example : range (-3) 5 [0x1234567900000000] = some (1, []) := by decide
example : perm 3 [0, 0x4000000000000000, 0x6000000000000000] = some ([2, 0, 1], []) := by decide
-- two goroutines, lock order 0,1,1,0: the draws are the stream prefix, split 2/2
example : runSched [0, 1, 1, 0] [10, 11, 12, 13, 14] = [(0, 10), (1, 11), (1, 12), (0, 13)] := by decide
example : drawsOf 1 (runSched [0, 1, 1, 0] [10, 11, 12, 13, 14]) = [11, 12] := by decide
-- salts sharing their first 32 bytes are different key blocks (nothing is cut at 32)
example : stripZ (List.replicate 32 7 ++ [1]) ≠ stripZ (List.replicate 32 7 ++ [2]) := by decide

end C30
