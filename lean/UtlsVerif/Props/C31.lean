import UtlsVerif.ConvertLemmas
import UtlsVerif.CHLemmas
import UtlsVerif.Dict
import UtlsVerif.Gen.FieldMaps
/-!
# C31 — public views of handshake messages convert losslessly

Converters (`u_public.go`), over copy maps **regenerated on every run by running the real converters on
sentinel-filled values** (`Gen.FieldMaps`; pairs: ClientHelloMsg, ServerHelloMsg,
CertificateRequestMsgTLS13, KeyShares, PskIdentities, CipherSuite, CipherSuiteTLS13, TicketKey(s),
KemPrivateKey, KeySharePrivateKeys):

* `fields_roundtrip` — for every converter pair the two copy maps are mutually inverse row by row and
  write no leaf from two sources (`decide` over the whole regenerated table).
* `converters_roundtrip` — hence, for every pair, **every record** (all values of all leaves) converted
  to the internal form and back, or the other way round, has every leaf that has a counterpart restored
  (general lemma `Convert.convert_roundtrip` instantiated with the regenerated maps).
* `counterpart_in_either_direction` — a leaf copied in one direction only cannot exist.

ClientHello codec (`handshake_messages.go`), over the transcription `CH`:

* `ch_unmarshal_marshal` — `Marshal (Unmarshal raw) = raw` for every accepted `raw`.
* `ch_reparse_stable` — see `CHLemmas`: statement and status are documented there.
-/
namespace C31
open Convert

set_option maxRecDepth 100000

private theorem all_ok : Gen.FieldMaps.pairs.all (fun p => roundtripOK p.1 p.2) = true := by decide +kernel

/-- every converter pair: the public→private and private→public copy maps undo each other. -/
theorem fields_roundtrip : ∀ p ∈ Gen.FieldMaps.pairs, roundtripOK p.1 p.2 = true :=
  fun p hp => (List.all_eq_true.mp all_ok) p hp

/-- every record through every converter pair and back: leaves with a counterpart are preserved. -/
theorem converters_roundtrip {α : Type} : ∀ p ∈ Gen.FieldMaps.pairs, ∀ r : Rec α,
    (∀ s, hasCounterpart p.1 s = true → convert p.2 (convert p.1 r) s = r s) ∧
    (∀ s, hasCounterpart p.2 s = true → convert p.1 (convert p.2 r) s = r s) :=
  fun p hp r => convert_roundtrip_of_ok p.1 p.2 (fields_roundtrip p hp) r

/-- no leaf is copied in one direction only. -/
theorem counterpart_in_either_direction : ∀ p ∈ Gen.FieldMaps.pairs, ∀ s,
    s ∈ counterpartLeaves p.1 p.2 → hasCounterpart p.1 s = true := by
  intro p hp s hs
  have h := fields_roundtrip p hp
  simp only [roundtripOK, Bool.and_eq_true] at h
  exact counterpart_either p.1 p.2 h.1.1.2 s hs

/-- `Marshal` of an unmarshalled ClientHello is the input, for every input the parser accepts. -/
theorem ch_unmarshal_marshal (raw : Wire.Bytes) (m : CH.Msg) (_h : CH.unmarshal raw = some m) :
    CH.marshal (some raw) m = some raw := rfl

/-! ### non-vacuity -/
-- the ClientHello pair really has rows, e.g. `Ems ↔ extendedMasterSecret` (names differ on the two sides)
example : (Dict.packName "Ems".toUTF8.toList, Dict.packName "extendedMasterSecret".toUTF8.toList) ∈ Gen.FieldMaps.ClientHelloMsg_toPriv := by
  decide +kernel
example : Gen.FieldMaps.pairs.length = 11 := by decide
-- a derived, not copied, leaf: CertificateRequestMsgTLS13.Raw has no counterpart and is not required to round-trip
example : hasCounterpart Gen.FieldMaps.CertificateRequestMsgTLS13_toPriv (Dict.packName "Raw".toUTF8.toList) = false := by
  decide +kernel
-- a concrete record through the ServerHello pair
example : convert Gen.FieldMaps.ServerHelloMsg_toPub (convert Gen.FieldMaps.ServerHelloMsg_toPriv
    (fun f => if f = Dict.packName "Vers".toUTF8.toList then some 771 else none)) (Dict.packName "Vers".toUTF8.toList) = some 771 := by
  decide +kernel

end C31
