import UtlsVerif.ConvertLemmas
import UtlsVerif.CHBig
import UtlsVerif.CHEditLemmas
import UtlsVerif.Dict
import UtlsVerif.Gen.FieldMaps
/-!
# C31 — public views of handshake messages convert losslessly

Converters (`u_public.go`), over copy maps **regenerated on every run by running the real converters on
sentinel-filled values** (`Gen.FieldMaps`; pairs: ClientHelloMsg, ServerHelloMsg,
CertificateRequestMsgTLS13, KeyShares, PskIdentities, CipherSuite, CipherSuiteTLS13, TicketKey(s),
KemPrivateKey, KeySharePrivateKeys):

* `fields_roundtrip` — for every converter pair the two copy maps are mutually inverse row by row and
  write no leaf from two sources (`decide` over the whole regenerated table).
* `converters_roundtrip` — hence, for every pair, **every record** (all values of all leaves) converted
  to the internal form and back, or the other way round, has every leaf that has a counterpart restored
  (general lemma `Convert.convert_roundtrip` instantiated with the regenerated maps).
* `counterpart_in_either_direction` — a leaf copied in one direction only cannot exist.

ClientHello codec (`handshake_messages.go`), over the transcription `CH`:

* `ch_unmarshal_marshal` — `Marshal (Unmarshal raw) = raw` for every accepted `raw`.
* `ch_parsed_invariants` — every accepted ClientHello yields a message satisfying `CH.Inv` (code points
  below 2^16, non-empty list elements, SCSV ⇒ renegotiation flag, absent ⇒ empty, …), by induction over
  the extension loop through all 19 `case`s and the `default`.
* `ch_reparse_stable_partial` — **parse → clear Raw → marshal → parse**: for every accepted `raw`, if the
  re-marshalling of the parsed message succeeds, the new bytes are accepted and every public field has
  the same value (no bound on sizes, number or order of extensions, unknown extensions included).
  The full statement (without "if the re-marshalling succeeds") is **false** of the unchanged code:
* `ch_reparse_stable_needs_guard` — a concrete valid ClientHello (SCSV among the cipher suites, no
  renegotiation_info, extension block of exactly 65 535 bytes) that the parser accepts and whose
  re-marshalling fails, because the parsed message carries `secureRenegotiationSupported` and
  `marshalMsg` then adds a renegotiation_info extension (open finding `scsv-reneg-overflow`, replayed on the
  real code by corpus/C31/scsv-overflow.case).
* `marshal_reads_public_fields`, `marshal_depends_on_public_fields_only` — what `Marshal` writes is the view's
  *current* public fields: after any well-formed edit of one field of a parsed view the re-parse shows
  exactly the edited view, and views with equal public fields marshal identically (no hidden state).
* `ch_remarshal_fails_only_by_size` — the guard is exactly "a length prefix overflows": the
  re-marshalling of a message (with `original` cleared) fails iff `CH.fits` is false.
-/
namespace C31
open Convert

set_option maxRecDepth 100000

private theorem all_ok : Gen.FieldMaps.pairs.all (fun p => roundtripOK p.1 p.2) = true := by decide +kernel

/-- every converter pair: the public→private and private→public copy maps undo each other. -/
theorem fields_roundtrip : ∀ p ∈ Gen.FieldMaps.pairs, roundtripOK p.1 p.2 = true :=
  fun p hp => (List.all_eq_true.mp all_ok) p hp

/-- every record through every converter pair and back: leaves with a counterpart are preserved. -/
theorem converters_roundtrip {α : Type} : ∀ p ∈ Gen.FieldMaps.pairs, ∀ r : Rec α,
    (∀ s, hasCounterpart p.1 s = true → convert p.2 (convert p.1 r) s = r s) ∧
    (∀ s, hasCounterpart p.2 s = true → convert p.1 (convert p.2 r) s = r s) :=
  fun p hp r => convert_roundtrip_of_ok p.1 p.2 (fields_roundtrip p hp) r

/-- no leaf is copied in one direction only. -/
theorem counterpart_in_either_direction : ∀ p ∈ Gen.FieldMaps.pairs, ∀ s,
    s ∈ counterpartLeaves p.1 p.2 → hasCounterpart p.1 s = true := by
  intro p hp s hs
  have h := fields_roundtrip p hp
  simp only [roundtripOK, Bool.and_eq_true] at h
  exact counterpart_either p.1 p.2 h.1.1.2 s hs

/-- `Marshal` of an unmarshalled ClientHello is the input, for every input the parser accepts. -/
theorem ch_unmarshal_marshal (raw : Wire.Bytes) (m : CH.Msg) (_h : CH.unmarshal raw = some m) :
    CH.marshal (some raw) m = some raw := rfl

/-- every accepted ClientHello satisfies the parser's invariants. -/
theorem ch_parsed_invariants (raw : Wire.Bytes) (m : CH.Msg) (h : CH.unmarshal raw = some m) : CH.Inv m :=
  CH.unmarshal_inv h

/-- **parse → clear Raw → marshal → parse yields the same field values**, whenever the re-marshalling
succeeds (the full statement is false: `ch_reparse_stable_needs_guard`). -/
theorem ch_reparse_stable_partial (raw : Wire.Bytes) (m : CH.Msg) (h : CH.unmarshal raw = some m)
    (raw' : Wire.Bytes) (h' : CH.marshal none m = some raw') :
    ∃ m', CH.unmarshal raw' = some m' ∧ CH.pubView m' = CH.pubView m :=
  CH.unmarshal_remarshal_unmarshal raw m h raw' h'

/-- negation of the unguarded statement, with a concrete witness: a valid ClientHello whose
re-marshalling (after clearing `Raw`) fails. -/
theorem ch_reparse_stable_needs_guard :
    ∃ (raw : Wire.Bytes) (m : CH.Msg), CH.unmarshal raw = some m ∧ CH.marshal none m = none :=
  ⟨CH.bigRaw, CH.rebuilt CH.bigMsg, CH.bigRaw_accepted, CH.bigRaw_remarshal_fails⟩

/-- the re-marshalling of a parsed message can only fail because a length prefix overflows. -/
theorem ch_remarshal_fails_only_by_size (m : CH.Msg) :
    CH.marshal none m = none ↔ CH.fits m = false := by
  simp only [CH.marshal, CH.marshalMsg]
  cases hf : CH.fits m with
  | false => simp
  | true =>
    have := CH.bodyOf_length_lt (CH.fits_spec hf)
    simp [this]

private def demoRaw : Wire.Bytes :=
  Wire.u8 1 ++ Wire.vec24 (Wire.u16 0x0303 ++ List.replicate 32 7 ++ Wire.vec8 [] ++
    Wire.vec16 (Wire.encU16s [0x1301, 0x00ff]) ++ Wire.vec8 [0] ++
    Wire.vec16 (CH.frameExts [(0x0a0a, [0]), (CH.xSNI, Wire.vec16 (Wire.u8 0 ++ Wire.vec16 [97, 46, 98])),
      (CH.xALPN, Wire.vec16 (Wire.vec8 [104, 50]))]))

/-- **`Marshal` writes the view's current public fields** (added after seeded change C31-3).
For every accepted ClientHello and every well-formed assignment to one public field of its view
(`CH.Edit`: ServerName, CipherSuites, SessionId, AlpnProtocols, KeyShares, Vers, SupportedVersions, Cookie —
arbitrary values), if `Marshal` of the edited view (Raw cleared) succeeds, its bytes are accepted and parse
to exactly the edited view: the assigned field shows the new value and every other public field is kept.
Nothing converted or marshalled earlier matters. -/
theorem marshal_reads_public_fields (raw : Wire.Bytes) (m : CH.Msg) (h : CH.unmarshal raw = some m)
    (e : CH.Edit) (hok : e.ok m = true) (raw' : Wire.Bytes) (h' : CH.marshal none (e.apply m) = some raw') :
    ∃ m', CH.unmarshal raw' = some m' ∧ CH.pubView m' = CH.pubView (e.apply m) :=
  CH.reparse (e.apply m) (CH.Edit.inv (CH.unmarshal_inv h) e hok) raw' h'

/-- … and it is a function of those fields alone: two views with the same public fields marshal to the
same bytes, whatever their history (the model has no cached conversion). -/
theorem marshal_depends_on_public_fields_only (a b : CH.Msg) (h : CH.pubView a = CH.pubView b) :
    CH.marshal none a = CH.marshal none b :=
  CH.marshal_of_pubView_eq h

/-! ### non-vacuity -/
-- an edit of the demo hello below: the re-parse of the marshalled edited view shows the new server name
example : ((CH.unmarshal demoRaw).bind fun m =>
      (CH.marshal none ((CH.Edit.serverName [120, 46, 121]).apply m)).bind CH.unmarshal).map (·.serverName) =
    some [120, 46, 121] := by decide

-- `ch_reparse_stable_partial` applies to a real hello: a TLS 1.2 hello with SNI, ALPN, an unknown
-- extension (GREASE 0x0a0a) and SCSV; the re-marshalled bytes differ from the input (the unknown
-- extension is gone, renegotiation_info appears) and still parse to the same public fields
example : (CH.unmarshal demoRaw).isSome = true := by decide
example : ((CH.unmarshal demoRaw).bind (CH.marshal none)).isSome = true := by decide
example : ((CH.unmarshal demoRaw).bind (CH.marshal none)) ≠ some demoRaw := by decide
example : (((CH.unmarshal demoRaw).bind (CH.marshal none)).bind CH.unmarshal).map CH.pubView =
    (CH.unmarshal demoRaw).map CH.pubView := by decide

-- the ClientHello pair really has rows, e.g. `Ems ↔ extendedMasterSecret` (names differ on the two sides)
example : (Dict.packName "Ems".toUTF8.toList, Dict.packName "extendedMasterSecret".toUTF8.toList) ∈ Gen.FieldMaps.ClientHelloMsg_toPriv := by
  decide +kernel
example : Gen.FieldMaps.pairs.length = 11 := by decide
-- a derived, not copied, leaf: CertificateRequestMsgTLS13.Raw has no counterpart and is not required to round-trip
example : hasCounterpart Gen.FieldMaps.CertificateRequestMsgTLS13_toPriv (Dict.packName "Raw".toUTF8.toList) = false := by
  decide +kernel
-- a concrete record through the ServerHello pair
example : convert Gen.FieldMaps.ServerHelloMsg_toPub (convert Gen.FieldMaps.ServerHelloMsg_toPriv
    (fun f => if f = Dict.packName "Vers".toUTF8.toList then some 771 else none)) (Dict.packName "Vers".toUTF8.toList) = some 771 := by
  decide +kernel

end C31
