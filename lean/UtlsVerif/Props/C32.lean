import UtlsVerif.DictLemmas
import UtlsVerif.JsonLemmas
import UtlsVerif.JsonTables
/-!
# C32 — JSON and dictionary imports map names to the intended code points

Over the tables **regenerated from the working tree on every run** (`Gen.Dict`: every
`dicttls.Dict…ValueIndexed` / `Dict…NameIndexed` map, dumped by ranging over the real maps):

* `dict_consistent` — for every table pair of the package, every `(value, name)` row of the
  value-indexed table resolves back to the same value through the name-indexed table.  The quantifier
  *is* the table, so kernel evaluation of the (linear, proved-sound) pass `Dict.certOk` over the whole
  regenerated table set is a proof; it is lifted to the row-by-row statement by `Dict.mergeOk_sound`.
* `dict_consistent_bool` — the same as the executable predicate `Dict.consistent` the driver evaluates
  row by row when a regenerated table breaks the theorem.
* `dict_lookup_is_map_lookup` — name-indexed keys are pairwise distinct (strictly sorted dump), so the
  model's first-match `lookup` is the Go map lookup whatever the iteration order was.
* `dict_no_grease_name` — no code point is spelled `"GREASE"` (so the JSON spelling of GREASE is unambiguous).
* `aliases_as_expected` — `dict_consistent` only speaks about names that occur in a value-indexed table;
  the remaining names (aliases such as `delegated_credential`) are pinned against the hand-written
  expectation table `Dict.expectedAliases` (registry names): every regenerated alias row is expected and
  has the expected code point.
* `packName_injective` — packing names into `Nat` loses nothing.
* `json_names_eq_raw` — one name list of the JSON format: decoding the names a list of code points is
  rendered to gives those code points back (GREASE values as `GREASE_PLACEHOLDER`, exactly
  `unGREASEUint16` of the raw import), for **any** consistent dictionary pair.
* `json_eq_raw` — the whole document over the working tree's dictionaries: for every hello shape that is
  representable in the JSON format, `specOfJson (renderJson h) = normShape h`, i.e. the cipher suites,
  the extension order and every name-carrying extension parameter the JSON import yields are those of
  the raw import of the same hello, modulo GREASE.
* `json_unrepresentable_iff` / `json_decode_total_on_rendered` are corollaries stating that the only
  way a rendered document can fail to decode is that it was not rendered (no spurious errors).
-/
namespace C32
open Dict Json

set_option maxRecDepth 100000

/-- kernel evaluation over the whole regenerated table set (one linear pass per pair). -/
private theorem all_certOk : Gen.Dict.pairs.all (fun p => certOk p.1 p.2) = true := by decide +kernel

private theorem all_sorted : Gen.Dict.pairs.all (fun p => strictSorted p.2) = true := by decide +kernel

private theorem all_noGrease : Gen.Dict.pairs.all (fun p => noGreaseName p.1) = true := by decide +kernel

/-- **dictionary consistency.** Every value listed in a value-indexed table resolves back to the same
value through the corresponding name-indexed table — all table pairs, all rows. -/
theorem dict_consistent :
    ∀ p ∈ Gen.Dict.pairs, ∀ r ∈ p.1, lookup p.2 r.2 = some r.1 := by
  intro p hp
  exact rows_of_certOk p.1 p.2 ((List.all_eq_true.mp all_certOk) p hp)

theorem dict_consistent_bool : ∀ p ∈ Gen.Dict.pairs, consistent p.1 p.2 = true := by
  intro p hp
  exact consistent_of_certOk p.1 p.2 ((List.all_eq_true.mp all_certOk) p hp)

/-- every dumped row of a name-indexed table is what `lookup` returns for its name: keys are distinct
and first-match lookup is the map lookup. -/
theorem dict_lookup_is_map_lookup :
    ∀ p ∈ Gen.Dict.pairs, ∀ r ∈ p.2, lookup p.2 r.1 = some r.2 := by
  intro p hp
  exact lookup_of_mem_strictSorted p.2 ((List.all_eq_true.mp all_sorted) p hp)

theorem dict_no_grease_name : ∀ p ∈ Gen.Dict.pairs, ∀ r ∈ p.1, r.2 ≠ greaseName := by
  intro p hp
  exact noGreaseName_rows p.1 ((List.all_eq_true.mp all_noGrease) p hp)

private theorem all_aliasesOk : aliasesOk Gen.Dict.aliases = true := by decide +kernel

/-- **alias names map to the intended code points.** Every name-indexed row whose name is not the
canonical name of its value (regenerated from the working tree) is an alias the hand-written
expectation table `Dict.expectedAliases` knows, with exactly the expected code point. -/
theorem aliases_as_expected :
    ∀ r ∈ Gen.Dict.aliases, expectedAlias expectedAliases r.1 r.2.1 = some r.2.2 := by
  intro r hr
  have := (List.all_eq_true.mp all_aliasesOk) r hr
  simpa using this

theorem packName_injective (a b : List UInt8) (h : packName a = packName b) : a = b :=
  Dict.packName_injective a b h

private theorem rowsOK_of_mem (v n : Table) (h : (v, n) ∈ Gen.Dict.pairs) : RowsOK v n :=
  ⟨dict_consistent (v, n) h, dict_no_grease_name (v, n) h⟩

/-- the dictionaries the JSON decoding uses satisfy the hypotheses of the general round-trip lemmas. -/
theorem gen_tables_ok : TablesOK genTables where
  suites := rowsOK_of_mem Gen.Dict.CipherSuite_v Gen.Dict.CipherSuite_n (by simp [Gen.Dict.pairs])
  comp := rowsOK_of_mem Gen.Dict.CompMeth_v Gen.Dict.CompMeth_n (by simp [Gen.Dict.pairs])
  ext := rowsOK_of_mem Gen.Dict.ExtType_v Gen.Dict.ExtType_n (by simp [Gen.Dict.pairs])
  groups := rowsOK_of_mem Gen.Dict.SupportedGroups_v Gen.Dict.SupportedGroups_n (by simp [Gen.Dict.pairs])
  points := rowsOK_of_mem Gen.Dict.ECPointFormat_v Gen.Dict.ECPointFormat_n (by simp [Gen.Dict.pairs])
  sigs := rowsOK_of_mem Gen.Dict.SignatureScheme_v Gen.Dict.SignatureScheme_n (by simp [Gen.Dict.pairs])
  cc := rowsOK_of_mem Gen.Dict.CertificateCompressionAlgorithm_v Gen.Dict.CertificateCompressionAlgorithm_n (by simp [Gen.Dict.pairs])
  pm := rowsOK_of_mem Gen.Dict.PSKKeyExchangeMode_v Gen.Dict.PSKKeyExchangeMode_n (by simp [Gen.Dict.pairs])

/-- **one JSON name list = the raw import's code points.** For any dictionary pair that is consistent
and spells no code point "GREASE": if a list of code points can be rendered as names, decoding those
names (as `UnmarshalJSON` does) returns the code points, GREASE values as the placeholder. -/
theorem json_names_eq_raw (g : Bool) (v n : Table)
    (hc : ∀ r ∈ v, lookup n r.2 = some r.1) (hg : ∀ r ∈ v, r.2 ≠ greaseName)
    (xs nms : List Nat) (hr : renderNames g v xs = some nms) :
    decodeNames g n nms = some (if g then xs.map unGrease else xs) :=
  names_roundtrip g v n ⟨hc, hg⟩ xs nms hr

/-- **JSON import = raw import** over the working tree's dictionaries, for every representable hello
(no bound on the number of suites, extensions or list lengths). -/
theorem json_eq_raw (s : Shape) (d : JDoc) (hr : renderJson genTables s = some d) :
    specOfJson genTables d = some (normShape genTables s) :=
  doc_roundtrip genTables gen_tables_ok s d hr

/-- cipher suites, extension order and extension code points of the JSON import are those of the
raw import (the part of `json_eq_raw` the property text names first). -/
theorem json_order_eq_raw (s : Shape) (d : JDoc) (hr : renderJson genTables s = some d) :
    ∃ s', specOfJson genTables d = some s' ∧ s'.suites = s.suites.map unGrease ∧
      s'.exts.map (·.id) = s.exts.map (fun e => unGrease e.id) := by
  refine ⟨_, json_eq_raw s d hr, rfl, ?_⟩
  simp only [normShape, List.map_map]
  apply List.map_congr_left
  intro e _
  simp only [Function.comp, normExt, unGrease]
  by_cases hg : isGrease e.id = true
  · simp [hg]
  · simp only [hg, Bool.false_eq_true, if_false]
    cases (lookup genTables.extKind e.id).bind (listSpec genTables) with
    | none => rfl
    | some x => obtain ⟨g, _, _⟩ := x; rfl

/-! ### non-vacuity: concrete instances -/

-- a row of the repaired table (D17): HandshakeType 7 "Unassigned" resolves back to 7
example : lookup Gen.Dict.HandshakeType_n (packName "Unassigned".toUTF8.toList) = some 7 := by decide +kernel
example : (7, packName "Unassigned".toUTF8.toList) ∈ Gen.Dict.HandshakeType_v := by decide +kernel

-- the IETF alias of extension 34 resolves to 34, and so does the IANA spelling
example : lookup Gen.Dict.ExtType_n (packName "delegated_credential".toUTF8.toList) = some 34 := by decide +kernel
example : lookup Gen.Dict.ExtType_n (packName "delegated_credentials".toUTF8.toList) = some 34 := by decide +kernel
example : Gen.Dict.aliases.length = 3 := by decide

-- a Chrome-like hello: GREASE suite, GREASE extension, supported_groups with GREASE, key_share, versions
private def demo : Shape :=
  ⟨[0x1a1a, 0x1301, 0xc02b], [0],
   [⟨0x2a2a, []⟩, ⟨0, []⟩, ⟨10, [0x3a3a, 29, 23]⟩, ⟨51, [0x3a3a, 29]⟩, ⟨43, [0x4a4a, 0x0304, 0x0303]⟩, ⟨13, [0x0403, 0x0804]⟩]⟩

example : (renderJson genTables demo).isSome = true := by decide +kernel
example : (renderJson genTables demo).bind (specOfJson genTables) =
    some ⟨[0x0a0a, 0x1301, 0xc02b], [0],
      [⟨0x0a0a, []⟩, ⟨0, []⟩, ⟨10, [0x0a0a, 29, 23]⟩, ⟨51, [0x0a0a, 29]⟩, ⟨43, [0x0a0a, 0x0304, 0x0303]⟩, ⟨13, [0x0403, 0x0804]⟩]⟩ := by
  decide +kernel
-- and a hello that is not representable (a cipher suite without a name) is reported as such
example : renderJson genTables ⟨[0xfafb], [0], []⟩ = none := by decide +kernel

end C32
