import UtlsVerif.HostileMsgLemmas
import UtlsVerif.Props.C30
/-!
# C33 — hostile server input never crashes or hangs a uTLS client

**Partial** (DESIGN §10): what is proved is panic-freedom / termination of the *uTLS-specific* paths that
process server-controlled bytes, over the transcription in `HostileMsg.lean` (every Go index or slice
expression on those paths is an explicit `panic` outcome of the model). Absence of panics and hangs in the
inherited crypto/tls parsers, the record layer's cryptography and the third-party decompressors is
runtime residue exercised by the harness (`c33_*` families), not claimed here.

* `client_codecs_total` — `readHandshake` (header indexing `data[0..3]`, size limits, dispatch, uTLS codecs)
  as a client never panics, whatever the handshake buffer holds and whatever the inherited parsers answer.
* `dispatch_total` — the client-role message-type dispatch is fully characterised for every type byte and
  body: unknown type ⇒ `unexpected_message` (two alerts), known type ⇒ that struct, accepted or
  `unexpected_message`; types 8 / 25 go to the uTLS codecs. `dispatch_needs_nonempty` shows the one panic
  site (`data[0]`) is real and is discharged only by `readHandshake`'s 4-byte precondition.
* `cc_roundtrip`, `see_roundtrip` — `unmarshal (marshal m) = some m` for well-formed messages (compressed
  certificate with arbitrary trailing bytes; server EncryptedExtensions incl. ALPS).
* `cookie_index_in_range` — for **every** extension-list length and every PRNG stream the HRR cookie
  insertion never slices out of range; `len = 0` is the code's own error return, `len ∈ {1,2}` inserts at 0
  (`Intn(len-2)` sees a non-positive bound and returns 0), `len ≥ 3` inserts at `i < len-2`;
  `cookie_keeps_last_two` — so the last two extensions (PSK) keep their place.
* `useless_records_bounded` — one `readRecordOrCCS` call consumes at most `maxUselessRecords+1-retryCount`
  records of *any* record sequence and leaves `retryCount ≤ maxUselessRecords` unless it failed with
  "too many ignored records" (induction over the record sequence); `useless_run_rejected`,
  `read_useless_run` — a run of useless records longer than the budget is rejected exactly at the limit;
  `post_handshake_messages_bounded` — at most `maxUselessRecords` post-handshake messages are accepted
  without an advancing record.
* `psk_branches_no_panic` — the PSK branches of `processServerHello` / `processHelloRetryRequest` never dereference a
  nil session: for every number of offered identities, every session state incl. none (caller-supplied identities,
  `FakePreSharedKeyExtension`) and every `selected_identity`; `psk_without_session_aborts`; `psk_guards_needed`
  (witnesses: the pre-repair HRR block — D27 — and the seeded reordering C33-4 both panic at one identity, no session).
* `alloc_bounded` — for every compressed-certificate message `decompressCert` requests at most
  `maxHandshakeCertificateMsg + 4` bytes (full statement; false before the repair of D18, whose witness stays in
  the corpus); `alloc_refused_beyond_limit`, `decompress_alloc_only_if_advertised`; `decompress_reads_bounded` — the
  decoder is asked for at most declared + 1 ≤ limit + 1 bytes of any stream (no draining); `decompress_alloc_no_panic` —
  its index expressions are in range.
-/
namespace C33
open Wire HostileMsg

/-! ## codecs -/

/-- **compressed certificate round trip**: what `marshal` emits for a well-formed message, followed by any
trailing bytes (which `unmarshal` does not look at), parses back to the message. -/
theorem cc_roundtrip (m : CompCert) (h : m.WF) (trailing : Bytes) :
    ccUnmarshal (ccMarshal m ++ trailing) = some m := by
  obtain ⟨ha, hu, hb⟩ := h
  unfold ccMarshal ccUnmarshal
  have e0 : u8 typeCompressedCert ++ vec24 (u16 m.alg ++ u24 m.ulen ++ vec24 m.body) ++ trailing
      = b typeCompressedCert :: b ((u16 m.alg ++ u24 m.ulen ++ vec24 m.body).length / 65536)
        :: b ((u16 m.alg ++ u24 m.ulen ++ vec24 m.body).length / 256)
        :: b ((u16 m.alg ++ u24 m.ulen ++ vec24 m.body).length)
        :: (u16 m.alg ++ (u24 m.ulen ++ (vec24 m.body ++ trailing))) := by
    simp [u8, vec24, u24]
  rw [e0, take4]
  simp only
  rw [readU16_u16, Nat.mod_eq_of_lt ha]
  simp only
  rw [readU24_u24, Nat.mod_eq_of_lt hu]
  simp only
  rw [readVec24_vec24 _ _ (by omega)]


/-- the message type byte, the outer length and trailing bytes are *not* checked by `unmarshal`
(documented quirk: acceptance depends only on bytes 4.. of the message). -/
theorem cc_header_ignored (h1 h2 : Bytes) (rest : Bytes) (e1 : h1.length = 4) (e2 : h2.length = 4) :
    ccUnmarshal (h1 ++ rest) = ccUnmarshal (h2 ++ rest) := by
  have t1 : take? 4 (h1 ++ rest) = some (h1, rest) := by rw [← e1]; exact take?_append h1 rest
  have t2 : take? 4 (h2 ++ rest) = some (h2, rest) := by rw [← e2]; exact take?_append h2 rest
  unfold ccUnmarshal
  rw [t1, t2]

private theorem see_fold (m : ServerEE) (h : m.WF) : extFold seeStep (seeExts m) {} = some m := by
  obtain ⟨ha, hq, he, hs, hcp⟩ := h
  obtain ⟨alpn, quicTP, earlyData, ech, alps, alpsCP⟩ := m
  simp only at ha hq he hs hcp
  unfold seeExts
  simp only [extFold_append]
  -- segment 1: ALPN
  have s1 : extFold seeStep (if alpn.isEmpty then [] else [(extALPN, vec16 (vec8 alpn))]) {} = some { alpn := alpn } := by
    by_cases hz : alpn = []
    · subst hz; simp [extFold]
    · have hne : alpn.isEmpty = false := by simpa using hz
      have hv8 : readVec8 (vec8 alpn) = some (alpn, []) := by
        have := readVec8_vec8 alpn [] ha; simpa using this
      have hv16 : readVec16 (vec16 (vec8 alpn)) = some (vec8 alpn, []) := by
        have := readVec16_vec16 (vec8 alpn) [] (by simp; omega); simpa using this
      have hne8 : (vec8 alpn).isEmpty = false := by simp [vec8, u8]
      simp [hne, extFold, seeStep, hv16, hv8, hne8]
  rw [s1]; simp only [Option.bind_some]
  clear hq
  have s2 : extFold seeStep (quicTP.elim [] fun q => [(extQuicTP, q)]) { alpn := alpn }
      = some { alpn := alpn, quicTP := quicTP } := by
    cases quicTP with
    | none => simp [extFold]
    | some q => simp [extFold, seeStep, extQuicTP, extALPN]
  rw [s2]; simp only [Option.bind_some]
  have s3 : extFold seeStep (if earlyData then [(extEarlyData, [])] else []) { alpn := alpn, quicTP := quicTP }
      = some { alpn := alpn, quicTP := quicTP, earlyData := earlyData } := by
    cases earlyData <;> simp [extFold, seeStep, extQuicTP, extALPN, extEarlyData]
  rw [s3]; simp only [Option.bind_some]
  have s4 : extFold seeStep (if ech.isEmpty then [] else [(extECH, ech)]) { alpn := alpn, quicTP := quicTP, earlyData := earlyData }
      = some { alpn := alpn, quicTP := quicTP, earlyData := earlyData, ech := ech } := by
    by_cases hz : ech = []
    · subst hz; simp [extFold]
    · have hne : ech.isEmpty = false := by simpa using hz
      simp [hne, extFold, seeStep, extQuicTP, extALPN, extEarlyData, extECH]
  rw [s4]; simp only [Option.bind_some]
  rcases hcp with ⟨h0, hnil⟩ | h1 | h2
  · subst h0; subst hnil; simp [extFold]
  · subst h1; simp [extFold, seeStep, extQuicTP, extALPN, extEarlyData, extECH, alpsOld, alpsNew]
  · subst h2; simp [extFold, seeStep, extQuicTP, extALPN, extEarlyData, extECH, alpsOld, alpsNew]

/-- **server EncryptedExtensions round trip** (ALPN, QUIC parameters, early data, ECH retry configs and the
uTLS ALPS extension under either code point). -/
theorem see_roundtrip (m : ServerEE) (h : m.WF) : seeUnmarshal (seeEncode m) = some m := by
  have hf := see_fold m h
  obtain ⟨ha, hq, he, hs, hcp⟩ := h
  have hp : ∀ p ∈ seeExts m, p.1 < 65536 ∧ p.2.length < 65536 := by
    intro p hp
    unfold seeExts at hp
    simp only [List.mem_append] at hp
    rcases hp with (((h1 | h2) | h3) | h4) | h5
    · split at h1
      · simp at h1
      · simp at h1; subst h1; simp [extALPN]; omega
    · cases hq' : m.quicTP with
      | none => simp [hq'] at h2
      | some q => simp [hq'] at h2; subst h2; have := hq q hq'; simp [extQuicTP]; omega
    · split at h3
      · simp at h3; subst h3; simp [extEarlyData]
      · simp at h3
    · split at h4
      · simp at h4
      · simp at h4; subst h4; simp [extECH]; omega
    · split at h5
      · simp at h5
      · simp at h5; subst h5
        rcases hcp with ⟨h0, _⟩ | h1 | h2
        · contradiction
        · simp [h1, alpsOld]; omega
        · simp [h2, alpsNew]; omega
  have hlen : (encExts (seeExts m)).length < 65536 := by
    have l1 : ∀ (t : Nat) (d : Bytes), (encExts [(t, d)]).length = 4 + d.length := by
      intro t d; simp [encExts]
    have lapp : ∀ (xs ys : List (Nat × Bytes)), (encExts (xs ++ ys)).length = (encExts xs).length + (encExts ys).length := by
      intro xs ys
      induction xs with
      | nil => simp [encExts]
      | cons p xs ih => obtain ⟨t, d⟩ := p; simp [encExts, ih]; omega
    unfold seeExts
    rw [lapp, lapp, lapp, lapp]
    have b1 : (encExts (if m.alpn.isEmpty then [] else [(extALPN, vec16 (vec8 m.alpn))])).length ≤ 4 + 3 + m.alpn.length := by
      split <;> simp [encExts]; omega
    have b2 : (encExts (m.quicTP.elim [] fun q => [(extQuicTP, q)])).length ≤ 4 + 16384 := by
      cases hq' : m.quicTP with
      | none => simp [encExts]
      | some q => have := hq q hq'; simp [encExts]; omega
    have b3 : (encExts (if m.earlyData then [(extEarlyData, [])] else [])).length ≤ 4 := by
      split <;> simp [encExts]
    have b4 : (encExts (if m.ech.isEmpty then [] else [(extECH, m.ech)])).length ≤ 4 + m.ech.length := by
      split <;> simp [encExts]
    have b5 : (encExts (if m.alpsCP = 0 then [] else [(m.alpsCP, m.alps)])).length ≤ 4 + m.alps.length := by
      split <;> simp [encExts]
    omega
  unfold seeEncode seeUnmarshal
  have e0 : u8 typeEE ++ vec24 (vec16 (encExts (seeExts m)))
      = b typeEE :: b ((vec16 (encExts (seeExts m))).length / 65536)
        :: b ((vec16 (encExts (seeExts m))).length / 256)
        :: b ((vec16 (encExts (seeExts m))).length)
        :: (vec16 (encExts (seeExts m)) ++ []) := by
    simp [u8, vec24, u24]
  rw [e0, take4]
  simp only
  rw [readVec16_vec16 _ _ hlen]
  simp only [List.isEmpty_nil, Bool.not_true, Bool.false_eq_true, if_false]
  unfold seeLoop
  rw [extLoop_enc seeStep _ hp]
  exact hf

/-! ## `readHandshake` and the message-type dispatch, client role -/

/-- **no panic on the client's handshake-message path**: for every handshake buffer, version state and
behaviour of the inherited parsers, `readHandshake` returns a message or an error. -/
theorem client_codecs_total (inh : Kind → Bytes → Bool) (vers13 haveVers : Bool) (hand : Bytes) :
    (readHandshake inh true vers13 haveVers hand).res ≠ .panic :=
  readHandshake_no_panic inh true vers13 haveVers hand

/-- **client dispatch, every type byte and body**: an unknown type is `unexpected_message` (alerted twice);
a known type selects its struct and the outcome is that struct or `unexpected_message`; never a panic. -/
theorem dispatch_total (inh : Kind → Bytes → Bool) (vers13 : Bool) (t : UInt8) (body : Bytes) :
    unmarshalMsg inh true vers13 (t :: body) =
      (match kindOf true vers13 t.toNat with
       | none => (.err .unexpectedMessage, 2)
       | some k => if accepts inh k (t :: body) then (.ok k, 0) else (.err .unexpectedMessage, 1)) ∧
    (unmarshalMsg inh true vers13 (t :: body)).1 ≠ .panic :=
  ⟨unmarshalMsg_cons inh true vers13 t body, unmarshalMsg_no_panic inh true vers13 (t :: body) (by simp)⟩

/-- the `data[0]` site is a real panic site: it is `readHandshake`'s 4-byte precondition that discharges it. -/
theorem dispatch_needs_nonempty (inh : Kind → Bytes → Bool) (isClient vers13 : Bool) :
    (unmarshalMsg inh isClient vers13 []).1 = .panic := by
  rw [unmarshalMsg_nil]

/-- the uTLS additions to the dispatch, as a client: type 25 → compressed certificate, type 8 → the
(server) EncryptedExtensions parser with the ALPS hook; exactly 18 type bytes are known. -/
theorem client_dispatch_table (vers13 : Bool) :
    kindOf true vers13 25 = some .compressedCert ∧ kindOf true vers13 8 = some .serverEE ∧
    ((List.range 256).filter fun t => (kindOf true vers13 t).isSome) =
      [0, 1, 2, 4, 5, 8, 11, 12, 13, 14, 15, 16, 20, 22, 24, 25] := by
  cases vers13 <;> decide

/-! ## HelloRetryRequest cookie insertion -/

theorem cookie_index_in_range (len : Nat) (s : Prng.Stream) :
    cookieInsert len s ≠ .panic ∧
    (len = 0 → cookieInsert len s = .errIndex) ∧
    (1 ≤ len → len ≤ 2 → cookieInsert len s = .inserted 0) ∧
    (3 ≤ len → cookieInsert len s = .noDraw ∨ ∃ i, i + 2 < len ∧ cookieInsert len s = .inserted i) := by
  unfold cookieInsert
  cases hi : Prng.intn ((len : Int) - 2) s with
  | none =>
    have : ¬ ((len : Int) - 2 ≤ 0) := by
      intro hle; simp [Prng.intn, hle] at hi
    simp; omega
  | some p =>
    obtain ⟨i, r⟩ := p
    have hr := C30.intn_range _ _ _ _ hi
    simp only
    refine ⟨?_, ?_, ?_, ?_⟩
    · by_cases h1 : i ≥ len
      · simp [h1]
      · have h2 : i ≤ len := by omega
        simp [h1, h2]
    · intro h0; subst h0; simp
    · intro h1 h2
      have := (hr.2 (by omega)).1
      subst this
      simp; omega
    · intro h3
      right
      have := hr.1 (by omega)
      refine ⟨i, by omega, ?_⟩
      have h1 : ¬ (i ≥ len) := by omega
      have h2 : i ≤ len := by omega
      simp [h1, h2]

/-- with at least three extensions the insertion leaves the last two where they were ("-2 instead of -1 is a
lazy way to ensure that PSK is still a last extension"). -/
theorem cookie_keeps_last_two {α : Type} (xs : List α) (c : α) (s : Prng.Stream) (i : Nat)
    (h : cookieInsert xs.length s = .inserted i) (h3 : 3 ≤ xs.length) :
    (insertAt xs i c).length = xs.length + 1 ∧
    (insertAt xs i c).drop (xs.length - 1) = xs.drop (xs.length - 2) := by
  have hr := (cookie_index_in_range xs.length s).2.2.2 h3
  rcases hr with hn | ⟨j, hj, hi⟩
  · rw [hn] at h; cases h
  · rw [hi] at h
    have hji : j = i := by injection h
    subst hji
    refine ⟨insertAt_length _ _ _, ?_⟩
    have e := insertAt_drop xs j c (by omega)
    have : xs.length - 1 = (j + 1) + (xs.length - 2 - j) := by omega
    rw [this, ← List.drop_drop, e, List.drop_drop]
    congr 1; omega

/-! ## the retry counter of the record layer and the post-handshake loop -/



private theorem classify_retry_no_reset (st : RState) (r : Rec) (h : classify st r = .retry) : r.resets = false := by
  unfold classify at h
  split at h
  · cases h
  · cases r <;> simp [classifyTyped, Rec.resets] at h ⊢ <;> (try split at h) <;> simp_all

private theorem classify_retry_irrel (st : RState) (n : Nat) (r : Rec) :
    classify { st with retry := n } r = classify st r := by
  cases r <;> rfl

theorem useless_records_bounded (rs : List Rec) : ∀ (st : RState), st.retry ≤ maxUseless →
    (readRecord st rs).consumed + st.retry ≤ maxUseless + 1 ∧
    ((readRecord st rs).res ≠ some (.err .tooManyIgnored) → (readRecord st rs).retry ≤ maxUseless) := by
  induction rs with
  | nil => intro st h; simp [readRecord]; omega
  | cons r rs ih =>
    intro st h
    unfold readRecord
    cases hc : classify st r with
    | retry =>
      have hr := classify_retry_no_reset st r hc
      simp only [hr]
      by_cases hgt : st.retry + 1 > maxUseless
      · simp [hgt]; omega
      · simp only [Bool.false_eq_true, if_false, hgt]
        have := ih { st with retry := st.retry + 1 } (by simp; omega)
        simp only at this
        constructor
        · omega
        · exact this.2
    | gotData n => simp; constructor; omega; (split <;> omega)
    | gotHs m => simp; constructor; omega; (split <;> omega)
    | gotCCS => simp; constructor; omega; (split <;> omega)
    | err e => simp; constructor; omega; (intro _; split <;> omega)

theorem useless_run_rejected (rs : List Rec) : ∀ (st : RState), st.retry ≤ maxUseless →
    (∀ r ∈ rs, useless st r = true) → maxUseless < st.retry + rs.length →
    (readRecord st rs).res = some (.err .tooManyIgnored) ∧
    (readRecord st rs).consumed = maxUseless + 1 - st.retry := by
  induction rs with
  | nil => intro st h _ hl; simp at hl; omega
  | cons r rs ih =>
    intro st h hu hl
    have hc : classify st r = .retry := by
      have := hu r (by simp); simpa [useless] using this
    have hr := classify_retry_no_reset st r hc
    unfold readRecord
    simp only [hc, hr]
    by_cases hgt : st.retry + 1 > maxUseless
    · simp [hgt]; omega
    · simp only [Bool.false_eq_true, if_false, hgt]
      have hu' : ∀ r' ∈ rs, useless { st with retry := st.retry + 1 } r' = true := by
        intro r' hr'
        have := hu r' (by simp [hr'])
        simpa [useless, classify_retry_irrel] using this
      have := ih { st with retry := st.retry + 1 } (by simp; omega) hu' (by simp at hl ⊢; omega)
      simp only at this
      constructor
      · exact this.1
      · rw [this.2]; omega

theorem post_handshake_messages_bounded (msgs : List Nat) : ∀ (retry : Nat), retry ≤ maxUseless →
    (∀ r', handleMsgs true false retry msgs = .ok r' → r' = retry + msgs.length ∧ r' ≤ maxUseless) ∧
    ((∀ t ∈ msgs, t = 4 ∨ t = 24) → maxUseless < retry + msgs.length →
      handleMsgs true false retry msgs = .error .tooManyNonAdv) := by
  induction msgs with
  | nil => intro retry h; simp [handleMsgs]; omega
  | cons t ms ih =>
    intro retry h
    unfold handleMsgs
    simp only [if_true]
    by_cases hgt : retry + 1 > maxUseless
    · simp [hgt]
    · simp only [hgt, if_false]
      obtain ⟨i1, i2⟩ := ih (retry + 1) (by omega)
      by_cases ht : t = 4 ∨ t = 24
      · simp only [ht, if_true]
        constructor
        · intro r' hr'
          have := i1 r' hr'
          simp; omega
        · intro hall hl
          exact i2 (fun t' ht' => hall t' (by simp [ht'])) (by simp at hl; omega)
      · simp only [ht, if_false]
        constructor
        · intro r' hr'; cases hr'
        · intro hall; exact absurd (hall t (by simp)) ht

theorem read_useless_run (st : RState) (rs : List Rec) (h : st.retry ≤ maxUseless)
    (hu : ∀ r ∈ rs, useless st r = true) (hl : maxUseless < st.retry + rs.length) :
    (readCall st rs).res = .err .tooManyIgnored ∧ (readCall st rs).consumed = maxUseless + 1 - st.retry := by
  have := useless_run_rejected rs st h hu hl
  unfold readCall readLoop
  simp only [this.1]
  exact ⟨trivial, this.2⟩


/-! ## `decompressCert`: allocation from the declared length (D18 repaired) -/

/-- the four header stores and the `rawMsg[4:]` slice are always in range. -/
theorem decompress_alloc_no_panic (m : CompCert) : decompressAlloc m ≠ .panic := by
  rw [decompressAlloc_eq]; split <;> simp

/-- **nothing is allocated beyond the protocol's length limit**: for every compressed-certificate message,
whatever length it declares, the buffer `decompressCert` requests is at most the certificate-message limit
(+ 4 header bytes). Full statement — it was false before the repair of D18 (`corpus/C33/d18.case` keeps the
12-byte witness `190000080002ffffff000000` as a regression case). -/
theorem alloc_bounded (m : CompCert) (n : Nat) (h : decompressAlloc m = .ok (some n)) :
    n ≤ maxHandshakeCert + 4 := by
  rw [decompressAlloc_eq] at h
  by_cases hg : m.ulen > maxHandshakeCert
  · simp [hg] at h
  · simp only [hg, if_false] at h
    cases h; omega

/-- a declared length beyond the limit is refused before anything is allocated. -/
theorem alloc_refused_beyond_limit (m : CompCert) (h : m.ulen > maxHandshakeCert) : decompressAlloc m = .ok none := by
  rw [decompressAlloc_eq]; simp [h]

/-- `decompressCert` allocates only after the algorithm was found among the advertised ones, the declared
length passed the limit and the algorithm is one of the three supported codecs; when it does, the request is
exactly the declared length + 4 ≤ limit + 4 — whatever the decoder and the certificate parser do. -/
theorem decompress_alloc_only_if_advertised (adv : List Nat) (m : CompCert) (decoded : Option Bytes)
    (certOk : Bytes → Bool) :
    (adv.contains m.alg = false → (decompress adv m decoded certOk) = (.unadvertised, none)) ∧
    (∀ n, (decompress adv m decoded certOk).2 = some n → n = m.ulen + 4 ∧ n ≤ maxHandshakeCert + 4 ∧
      adv.contains m.alg = true ∧ (m.alg = 1 ∨ m.alg = 2 ∨ m.alg = 3)) := by
  unfold decompress
  cases hc : adv.contains m.alg with
  | false => simp
  | true =>
    refine ⟨(by intro h; cases h), ?_⟩
    intro n
    by_cases hg : m.ulen > maxHandshakeCert
    · simp only [Bool.not_true, Bool.false_eq_true, if_false, hg, if_true]
      intro h; cases h
    · simp only [Bool.not_true, Bool.false_eq_true, if_false, hg]
      have hle : m.ulen + 4 ≤ maxHandshakeCert + 4 := by omega
      by_cases h2 : (m.alg = 1 ∨ m.alg = 2 ∨ m.alg = 3)
      · have hd : (!decide (m.alg = 1 ∨ m.alg = 2 ∨ m.alg = 3)) = false := by simp [h2]
        simp only [hd, Bool.false_eq_true, if_false]
        cases decoded with
        | none => intro h; simp at h; exact ⟨h.symm, by omega, trivial, h2⟩
        | some out =>
          simp only
          by_cases h3 : out.length < m.ulen
          · simp only [h3, if_true]; intro h; simp at h; exact ⟨h.symm, by omega, trivial, h2⟩
          · simp only [h3, if_false]
            by_cases h5 : out.length > m.ulen
            · simp only [h5, if_true]; intro h; simp at h; exact ⟨h.symm, by omega, trivial, h2⟩
            · simp only [h5, if_false]
              by_cases h4 : certOk out = true
              · simp only [h4, if_true]; intro h; simp at h; exact ⟨h.symm, by omega, trivial, h2⟩
              · simp only [h4]; intro h; simp at h; exact ⟨h.symm, by omega, trivial, h2⟩
      · have hd : (!decide (m.alg = 1 ∨ m.alg = 2 ∨ m.alg = 3)) = true := by simp [h2]
        simp only [hd, if_true]
        intro h; cases h

/-- **the decoder is never drained**: for every advertised set, message and decompressed stream — of any
size — the number of decompressed bytes `decompressCert` requests from the decoder is at most the declared
length + 1, hence at most the certificate-message limit + 1. (Seeded change C33-1 replaced the one-byte probe by
`io.ReadAll`: there the bytes pulled equal the stream length, which this bound excludes.) -/
theorem decompress_reads_bounded (adv : List Nat) (m : CompCert) (decoded : Option Bytes) :
    decompressPulled adv m decoded ≤ m.ulen + 1 ∧ decompressPulled adv m decoded ≤ maxHandshakeCert + 1 := by
  unfold decompressPulled
  split
  · simp
  · split
    · simp
    · rename_i hg
      split
      · simp
      · cases decoded with
        | none => simp
        | some out => simp only; split <;> omega

/-- a stream of any length n > 1500 behind a declared length of 1500: 1501 bytes are pulled. -/
example (n : Nat) (h : 1500 < n) :
    decompressPulled [1, 2, 3] ⟨2, 1500, []⟩ (some (List.replicate n 0)) = 1501 := by
  have : ¬ n ≤ 1500 := by omega
  simp [decompressPulled, maxHandshakeCert, this]

example : decompress [2] ⟨3, 16777215, []⟩ (some []) (fun _ => true) = (.unadvertised, none) := by decide
example : decompress [1, 2, 3] ⟨2, 16777215, []⟩ (some []) (fun _ => true) = (.tooLarge, none) := by decide
example : decompress [1, 2, 3] ⟨2, 3, []⟩ (some [1, 2]) (fun _ => true) = (.lenMismatch, some 7) := by decide
example : decompress [1, 2, 3] ⟨2, 1, []⟩ (some [1, 2]) (fun _ => true) = (.lenExceeds, some 5) := by decide
example : decompress [1, 2, 3] ⟨2, 2, []⟩ (some [1, 2]) (fun _ => true) = (.ok, some 6) := by decide
/-- the former D18 witness: accepted by the codec, refused by the guard, nothing allocated. -/
example : ccUnmarshal [25, 0, 0, 8, 0, 2, 255, 255, 255, 0, 0, 0] = some ⟨2, 16777215, []⟩ ∧
    decompressAlloc ⟨2, 16777215, []⟩ = .ok none := ⟨by decide, alloc_refused_beyond_limit _ (by decide)⟩
example : decompressAlloc ⟨2, 262144, []⟩ = .ok (some 262148) := by rw [decompressAlloc_eq]; decide

/-! ## PSK branches: identities without a session -/

/-- **no nil-session dereference in the PSK branches**: for every number of offered identities, every session
state — *including none at all* (caller-supplied identities) — and every `selected_identity` a server can send,
`processServerHello` returns or aborts; and for every such state `processHelloRetryRequest`'s PSK block returns or
aborts. No well-formedness hypothesis: this is exactly the case crypto/tls never sees. -/
theorem psk_branches_no_panic (st : PskState) (selected : Option Nat) :
    pskServerHello st selected ≠ .panic ∧ pskHelloRetry st ≠ .panic := by
  obtain ⟨n, sess⟩ := st
  constructor
  · unfold pskServerHello pskServerHelloG
    cases selected with
    | none => simp
    | some i =>
      simp only
      split
      · simp
      · cases sess with
        | none => simp
        | some s =>
          by_cases h1 : n = 1
          · subst h1
            simp only [derefSession, Option.isNone_some, Bool.false_eq_true, or_false, ne_eq, not_true_eq_false,
              decide_false, Bool.and_false, if_false]
            split
            · simp
            · split <;> simp
          · simp [derefSession, h1]
  · unfold pskHelloRetry pskHelloRetryG
    cases sess with
    | none => by_cases h : n = 0 <;> simp [h]
    | some s =>
      by_cases h : n = 0
      · simp [h]
      · simp only [h, if_false, derefSession, Option.isNone_some, Bool.and_false, Bool.false_eq_true]
        split
        · simp
        · split <;> simp

/-- what a hostile `selected_identity` can achieve against identities without a session: nothing but an abort
(index in range ⇒ internal_error, out of range ⇒ illegal_parameter); and a HelloRetryRequest ⇒ internal_error. -/
theorem psk_without_session_aborts (n : Nat) (hn : 0 < n) (i : Nat) :
    pskServerHello ⟨n, none⟩ (some i) = (if i ≥ n then .abort 47 else .abort 80) ∧
    pskHelloRetry ⟨n, none⟩ = .abort 80 := by
  constructor
  · unfold pskServerHello pskServerHelloG
    simp only
    split
    · rfl
    · simp
  · unfold pskHelloRetry pskHelloRetryG
    have : n ≠ 0 := by omega
    simp [this]

/-- both guards are needed — witnesses with one caller-supplied identity and no session: without the `session ==
nil` test in the HelloRetryRequest block (the code before the repair of D27) any HRR is a nil dereference; with
the ServerHello test moved behind the first use of the session (seeded change C33-4) `selected_identity = 0` is. -/
theorem psk_guards_needed :
    pskHelloRetryG false ⟨1, none⟩ = .panic ∧ pskServerHelloG false ⟨1, none⟩ (some 0) = .panic ∧
    pskHelloRetry ⟨1, none⟩ = .abort 80 ∧ pskServerHello ⟨1, none⟩ (some 0) = .abort 80 := by
  refine ⟨by decide, by decide, by decide, by decide⟩

example : pskServerHello ⟨1, some ⟨true, true⟩⟩ (some 0) = .resume := by decide
example : pskServerHello ⟨2, some ⟨true, true⟩⟩ (some 1) = .abort 80 := by decide
example : pskServerHello ⟨1, some ⟨true, false⟩⟩ (some 0) = .abort 47 := by decide
example : pskServerHello ⟨0, none⟩ (some 0) = .abort 47 := by decide
example : pskHelloRetry ⟨1, some ⟨true, false⟩⟩ = .dropPsk := by decide

/-! ## non-vacuity: concrete, non-trivial instances of every hypothesis / statement above -/

example : (⟨2, 1000, [1, 2, 3]⟩ : CompCert).WF := by decide
example : ccUnmarshal (ccMarshal ⟨2, 1000, [1, 2, 3]⟩ ++ [9, 9]) = some ⟨2, 1000, [1, 2, 3]⟩ := by decide
/-- a well-formed server EncryptedExtensions with ALPN "h2", early data, and 3 bytes of ALPS under the new code point. -/
example : ({ alpn := [104, 50], earlyData := true, alps := [1, 2, 3], alpsCP := alpsNew } : ServerEE).WF :=
  by
  unfold ServerEE.WF
  refine ⟨by decide, ?_, by decide, by decide, by decide⟩
  intro q h; cases h
example : seeUnmarshal (seeEncode { alpn := [104, 50], earlyData := true, alps := [1, 2, 3], alpsCP := alpsNew })
    = some { alpn := [104, 50], earlyData := true, alps := [1, 2, 3], alpsCP := alpsNew } := by decide
/-- the former D18 witness message goes through `readHandshake` as a client and is accepted by the dispatch. -/
example : (readHandshake (fun _ _ => true) true true true [25, 0, 0, 8, 0, 2, 255, 255, 255, 0, 0, 0]).res
    = .ok .compressedCert := by decide
/-- truncated by one byte it is still not a panic: the buffer is simply incomplete. -/
example : (readHandshake (fun _ _ => true) true true true [25, 0, 0, 8, 0, 2, 255, 255, 255, 0, 0]).res
    = .err .needMore := by decide
/-- a complete message whose inner vector is short is `unexpected_message` with one alert. -/
example : readHandshake (fun _ _ => true) true true true [25, 0, 0, 7, 0, 2, 255, 255, 255, 0, 0]
    = ⟨.err .unexpectedMessage, 1, 0⟩ := by decide
example : unmarshalMsg (fun _ _ => true) true true [99, 0, 0, 0] = (.err .unexpectedMessage, 2) := by decide
example : cookieInsert 0 [] = .errIndex := by decide
example : cookieInsert 2 [] = .inserted 0 := by decide
/-- five extensions, one draw: `Intn(3)`. -/
example : ∃ i, cookieInsert 5 [12345678901234567] = .inserted i ∧ i < 3 := by
  rcases (cookie_index_in_range 5 [12345678901234567]).2.2.2 (by decide) with h | ⟨i, hi, h⟩
  · exact absurd h (by decide)
  · exact ⟨i, h, by omega⟩
/-- 33 empty application-data records after the handshake: rejected at the 33rd. -/
example : (readCall { vers13 := true, hsComplete := true } (List.replicate 40 .appEmpty)).res = .err .tooManyIgnored ∧
    (readCall { vers13 := true, hsComplete := true } (List.replicate 40 .appEmpty)).consumed = 33 := by decide
/-- 32 of them followed by data: accepted. -/
example : (readCall { vers13 := true, hsComplete := true } (List.replicate 32 .appEmpty ++ [.app 4])).res = .data 5 := by decide
/-- warning alerts (TLS 1.2) interleaved with empty records count together. -/
example : (readCall { vers13 := false, hsComplete := true }
    (List.replicate 16 .alertWarn ++ List.replicate 17 .appEmpty ++ [.app 0])).res = .err .tooManyIgnored := by decide
/-- 33 KeyUpdates in one record. -/
example : handleMsgs true false 0 (List.replicate 33 24) = .error .tooManyNonAdv := by rfl
example : handleMsgs true false 0 (List.replicate 32 24) = .ok 32 := by rfl

end C33
