import UtlsVerif.HostileMsgLemmas
/-!
# C34 — arbitrary client input never crashes or hangs the server

**Partial** (DESIGN §10): proved over the transcription in `HostileMsg.lean` of the paths the uTLS fork
added to or changed in the *server's* input handling — the message-type dispatch that accepts types 8 and
25 from a client, `utlsClientEncryptedExtensionsMsg.unmarshal`, `utlsCompressedCertificateMsg.unmarshal`,
and the length logic of `parseECHExt` / `decryptECHPayload`. The inherited ClientHello parser, the
handshake state machines and cryptography are exercised by the harness (`c34_*` families) only.

* `server_dispatch_total` — for every type byte and body the server-role dispatch selects a struct or
  answers `unexpected_message`; never a panic. `server_readhandshake_total` — the same through
  `readHandshake`'s header indexing and size limits, for every handshake buffer.
* `server_dispatch_table` — type 8 goes to the *client* EncryptedExtensions codec on a server, type 25 to
  the compressed-certificate codec (both accepted by the dispatch; the state machines reject them later).
* `cee_roundtrip` — `unmarshal (marshal m) = some m` for well-formed client EncryptedExtensions;
  `cee_custom_not_roundtrip` — the code's own `marshal` output with a `customExtension` is rejected by its
  own `unmarshal` (extension 1234 is "unknown"): documented quirk.
* `cee_unknown_rejected` — any extension other than the two ALPS code points makes the message illegal.
* `ech_parse_total` — `parseECHExt` classifies every byte string as inner / outer / malformed / invalid and
  the payload it returns is a sub-string of the extension (no length field can over-read);
  `ech_aad_slice_no_panic` — `hello[4:]` in `decryptECHPayload` is in range for every ClientHello the
  dispatch delivered (`readHandshake` only delivers messages of ≥ 4 bytes).
* `ech_second_hello_no_panic` — across a HelloRetryRequest: for every context a first hello can record
  (`ech_first_hello_ctx_wf`: inner-type ⇔ no HPKE context) and every ECH extension of the second hello, the ECH block
  of `doHelloRetryRequest` proceeds, aborts, or decrypts with a context that exists; `ech_two_hellos_no_panic`
  composes both; `ech_switch_check_needed` — with the outer-after-inner refusal removed the all-zero outer
  extension reaches `hpkeContext.Open` on nil (witness).
-/
namespace C34
open Wire HostileMsg

/-- **server dispatch, every type byte and body.** -/
theorem server_dispatch_total (inh : Kind → Bytes → Bool) (vers13 : Bool) (t : UInt8) (body : Bytes) :
    unmarshalMsg inh false vers13 (t :: body) =
      (match kindOf false vers13 t.toNat with
       | none => (.err .unexpectedMessage, 2)
       | some k => if accepts inh k (t :: body) then (.ok k, 0) else (.err .unexpectedMessage, 1)) ∧
    (unmarshalMsg inh false vers13 (t :: body)).1 ≠ .panic :=
  ⟨unmarshalMsg_cons inh false vers13 t body, unmarshalMsg_no_panic inh false vers13 (t :: body) (by simp)⟩

/-- **no panic on the server's handshake-message path**, for every handshake buffer. -/
theorem server_readhandshake_total (inh : Kind → Bytes → Bool) (vers13 haveVers : Bool) (hand : Bytes) :
    (readHandshake inh false vers13 haveVers hand).res ≠ .panic :=
  readHandshake_no_panic inh false vers13 haveVers hand

/-- whatever `readHandshake` delivers has at least the 4 header bytes (so later `original[4:]`-style
slices of a delivered message are in range). -/
theorem delivered_has_header (inh : Kind → Bytes → Bool) (isClient vers13 haveVers : Bool) (hand : Bytes) (k : Kind)
    (h : (readHandshake inh isClient vers13 haveVers hand).res = .ok k) : 4 ≤ hand.length := by
  unfold readHandshake at h
  by_cases h4 : hand.length < 4
  · simp [h4] at h
  · omega

theorem server_dispatch_table (vers13 : Bool) :
    kindOf false vers13 25 = some .compressedCert ∧ kindOf false vers13 8 = some .clientEE ∧
    ((List.range 256).filter fun t => (kindOf false vers13 t).isSome) =
      [0, 1, 2, 4, 5, 8, 11, 12, 13, 14, 15, 16, 20, 22, 24, 25] := by
  cases vers13 <;> decide

private theorem cee_fold (m : ClientEE) (h : m.WF) : extFold ceeStep (ceeExts m) {} = some m := by
  obtain ⟨hc, hs, hcp⟩ := h
  obtain ⟨alps, alpsCP, custom⟩ := m
  simp only at hc hs hcp
  subst hc
  unfold ceeExts
  rcases hcp with ⟨h0, hnil⟩ | h1 | h2
  · subst h0; subst hnil; simp [extFold]
  · subst h1; simp [extFold, ceeStep, alpsOld, alpsNew]
  · subst h2; simp [extFold, ceeStep, alpsOld, alpsNew]

/-- **client EncryptedExtensions round trip.** -/
theorem cee_roundtrip (m : ClientEE) (h : m.WF) : ceeUnmarshal (ceeMarshal m) = some m := by
  have hf := cee_fold m h
  obtain ⟨hc, hs, hcp⟩ := h
  have hx : ceeExts m = if m.alpsCP = 0 then [] else [(m.alpsCP, m.alps)] := by
    unfold ceeExts; simp [hc]
  have hp : ∀ p ∈ ceeExts m, p.1 < 65536 ∧ p.2.length < 65536 := by
    intro p hp
    rw [hx] at hp
    split at hp
    · simp at hp
    · simp at hp; subst hp
      rcases hcp with ⟨h0, _⟩ | h1 | h2
      · contradiction
      · simp [h1, alpsOld]; omega
      · simp [h2, alpsNew]; omega
  have hlen : (encExts (ceeExts m)).length < 65536 := by
    rw [hx]; split <;> simp [encExts]; omega
  unfold ceeMarshal ceeUnmarshal
  have e0 : u8 typeEE ++ vec24 (vec16 (encExts (ceeExts m)))
      = b typeEE :: b ((vec16 (encExts (ceeExts m))).length / 65536)
        :: b ((vec16 (encExts (ceeExts m))).length / 256)
        :: b ((vec16 (encExts (ceeExts m))).length)
        :: (vec16 (encExts (ceeExts m)) ++ []) := by
    simp [u8, vec24, u24]
  rw [e0, take4]
  simp only
  rw [readVec16_vec16 _ _ hlen]
  simp only [List.isEmpty_nil, Bool.not_true, Bool.false_eq_true, if_false]
  unfold ceeLoop
  rw [extLoop_enc ceeStep _ hp]
  exact hf

/-- any extension other than the two ALPS code points is illegal in a client EncryptedExtensions. -/
theorem cee_unknown_rejected (m : ClientEE) (t : Nat) (d : Bytes) (ht : t ≠ alpsOld ∧ t ≠ alpsNew) :
    ceeStep m t d = none := by
  simp [ceeStep, ht.1, ht.2]

/-- documented quirk: `marshal` emits `customExtension` as extension 1234, which `unmarshal` rejects. -/
theorem cee_custom_not_roundtrip (alps : Bytes) (c : UInt8) (cs : Bytes)
    (hs : alps.length < 20000) (hc : cs.length < 20000) :
    ceeUnmarshal (ceeMarshal { alps := alps, alpsCP := alpsNew, custom := c :: cs }) = none := by
  have hp : ∀ p ∈ ceeExts { alps := alps, alpsCP := alpsNew, custom := c :: cs }, p.1 < 65536 ∧ p.2.length < 65536 := by
    intro p hp
    simp [ceeExts, alpsNew] at hp
    rcases hp with rfl | rfl
    · simp; omega
    · simp [fakeCustom]; omega
  have hlen : (encExts (ceeExts { alps := alps, alpsCP := alpsNew, custom := c :: cs })).length < 65536 := by
    simp [ceeExts, alpsNew, encExts]; omega
  unfold ceeMarshal ceeUnmarshal
  have e0 : ∀ E : Bytes, u8 typeEE ++ vec24 (vec16 E)
      = b typeEE :: b ((vec16 E).length / 65536) :: b ((vec16 E).length / 256) :: b ((vec16 E).length)
        :: (vec16 E ++ []) := by
    intro E; simp [u8, vec24, u24]
  rw [e0, take4]
  simp only
  rw [readVec16_vec16 _ _ hlen]
  simp only [List.isEmpty_nil, Bool.not_true, Bool.false_eq_true, if_false]
  unfold ceeLoop
  rw [extLoop_enc ceeStep _ hp]
  simp [ceeExts, alpsNew, extFold, ceeStep, alpsOld, fakeCustom]

/-! ## ECH on the server: `parseECHExt` and `decryptECHPayload`'s slice -/

private theorem readVec16_sub (s d r : Bytes) (h : readVec16 s = some (d, r)) : d.length + r.length + 2 = s.length := by
  unfold readVec16 at h
  match s, h with
  | a :: c :: rest, h =>
    simp [readU16, take?] at h
    obtain ⟨hle, rfl, rfl⟩ := h
    simp; omega

/-- **`parseECHExt` is total and cannot over-read**: an outer extension's encapsulated key and payload
are disjoint sub-strings of the extension body (their lengths add up to at most the body minus the 10
bytes of fixed fields and length prefixes). -/
theorem ech_parse_total (e : Bytes) :
    (∃ err, parseECHExt e = .error err) ∨ parseECHExt e = .ok .inner ∨
    ∃ kdf aead cid encap payload, parseECHExt e = .ok (.outer kdf aead cid encap payload) ∧
      encap.length + payload.length + 10 ≤ e.length := by
  unfold parseECHExt
  cases h0 : readU8 e with
  | none => left; exact ⟨_, rfl⟩
  | some p0 =>
    obtain ⟨t, s0⟩ := p0
    simp only
    by_cases ht1 : t = 1
    · simp only [ht1, if_true]
      split
      · right; left; rfl
      · left; exact ⟨_, rfl⟩
    · simp only [ht1, if_false]
      by_cases ht0 : t ≠ 0
      · simp only [ht0, ne_eq, not_false_eq_true, if_true]; left; exact ⟨_, rfl⟩
      · simp only [ht0, if_false]
        cases h1 : readU16 s0 with
        | none => left; exact ⟨_, rfl⟩
        | some p1 =>
          obtain ⟨kdf, s1⟩ := p1
          simp only
          cases h2 : readU16 s1 with
          | none => left; exact ⟨_, rfl⟩
          | some p2 =>
            obtain ⟨aead, s2⟩ := p2
            simp only
            cases h3 : readU8 s2 with
            | none => left; exact ⟨_, rfl⟩
            | some p3 =>
              obtain ⟨cid, s3⟩ := p3
              simp only
              cases h4 : readVec16 s3 with
              | none => left; exact ⟨_, rfl⟩
              | some p4 =>
                obtain ⟨encap, s4⟩ := p4
                simp only
                cases h5 : readVec16 s4 with
                | none => left; exact ⟨_, rfl⟩
                | some p5 =>
                  obtain ⟨payload, s5⟩ := p5
                  simp only
                  right; right
                  refine ⟨kdf, aead, cid, encap, payload, rfl, ?_⟩
                  have l0 : s0.length + 1 = e.length := by
                    cases e with
                    | nil => simp [readU8] at h0
                    | cons a r => simp [readU8] at h0; obtain ⟨_, rfl⟩ := h0; simp
                  have l1 : s1.length + 2 = s0.length := by
                    match s0, h1 with
                    | a :: c :: r, h1 => simp [readU16] at h1; obtain ⟨_, rfl⟩ := h1; simp
                  have l2 : s2.length + 2 = s1.length := by
                    match s1, h2 with
                    | a :: c :: r, h2 => simp [readU16] at h2; obtain ⟨_, rfl⟩ := h2; simp
                  have l3 : s3.length + 1 = s2.length := by
                    cases s2 with
                    | nil => simp [readU8] at h3
                    | cons a r => simp [readU8] at h3; obtain ⟨_, rfl⟩ := h3; simp
                  have l4 := readVec16_sub s3 encap s4 h4
                  have l5 := readVec16_sub s4 payload s5 h5
                  omega

/-- `hello[4:]` is in range for every message `readHandshake` can deliver: the delivered message is the
first `len(hand) - remaining` bytes of the buffer, and that is at least the 4-byte header. -/
theorem ech_aad_slice_no_panic (inh : Kind → Bytes → Bool) (vers13 haveVers : Bool) (hand : Bytes) (k : Kind)
    (h : (readHandshake inh false vers13 haveVers hand).res = .ok k) :
    echAadSlice (hand.take (hand.length - (readHandshake inh false vers13 haveVers hand).remaining)) ≠ .panic := by
  have hlen : 4 ≤ hand.length - (readHandshake inh false vers13 haveVers hand).remaining := by
    unfold readHandshake at h ⊢
    by_cases h4 : hand.length < 4
    · simp [h4] at h
    · simp only [h4, if_false] at h ⊢
      obtain ⟨t, ht⟩ := idx_ok hand 0 (by omega)
      obtain ⟨a, ha⟩ := idx_ok hand 1 (by omega)
      obtain ⟨b', hb⟩ := idx_ok hand 2 (by omega)
      obtain ⟨c, hc⟩ := idx_ok hand 3 (by omega)
      simp only [ht, ha, hb, hc] at h ⊢
      generalize (if (haveVers && (t == typeCertificate || t == typeCompressedCert)) = true then maxHandshakeCert else maxHandshake) = limit at h ⊢
      by_cases h1 : a * 65536 + b' * 256 + c > limit
      · simp [h1] at h
      · simp only [h1, if_false] at h ⊢
        by_cases h2 : hand.length < 4 + (a * 65536 + b' * 256 + c)
        · simp [h2] at h
        · simp only [h2, if_false] at h ⊢
          omega
  simp only [echAadSlice, sliceFrom, List.length_take]
  simp
  exact hlen

/-- …and it *is* a panic site for anything shorter (the guard is needed). -/
theorem ech_aad_slice_needs_header : echAadSlice [1, 0, 0] = .panic := by decide

/-! ## ECH across a HelloRetryRequest -/

/-- every context the first hello can leave behind is well-formed: inner-type ⇔ no HPKE context. -/
theorem ech_first_hello_ctx_wf (haveKeys opens innerOk : Bool) (ext : Bytes) (c : EchCtx)
    (h : echFirstHello haveKeys opens innerOk ext = .ctx c) : c.WF := by
  unfold echFirstHello at h
  split at h
  · cases h
  · split at h
    · cases h
    · cases h
    · cases h; decide
    · split at h
      · cases h
      · split at h
        · cases h
        · split at h
          · cases h
          · cases h; simp [EchCtx.WF]

/-- **the second hello's ECH block never dereferences a missing HPKE context**: for every context a first
hello can have recorded and every ECH extension of the second hello it proceeds, aborts with an alert, or
decrypts with a context that is there. -/
theorem ech_second_hello_no_panic (ctx : Option EchCtx) (hwf : ∀ c, ctx = some c → c.WF) (ext : Bytes) :
    echSecondHello ctx ext ≠ .panic := by
  unfold echSecondHello echSecondHelloG
  cases ctx with
  | none => simp
  | some c =>
    have hc := hwf c rfl
    simp only
    split
    · simp
    · split
      · simp
      · split <;> simp
      · by_cases hi : c.inner = true
        · simp [hi]
        · have hh : c.hpke = true := by
            unfold EchCtx.WF at hc
            cases hin : c.inner <;> cases hhp : c.hpke <;> simp_all
          simp only [Bool.true_and, hi, Bool.false_eq_true, if_false]
          split
          · simp
          · simp [hh]

/-- composed: whatever the two hellos carry, first-hello processing followed by the second-hello block is
panic-free. -/
theorem ech_two_hellos_no_panic (haveKeys opens innerOk : Bool) (ext1 ext2 : Bytes) :
    (match echFirstHello haveKeys opens innerOk ext1 with
     | .abort _ => true
     | .noCtx => echSecondHello none ext2 != .panic
     | .ctx c => echSecondHello (some c) ext2 != .panic) = true := by
  cases h : echFirstHello haveKeys opens innerOk ext1 with
  | abort a => rfl
  | noCtx => simp [echSecondHello, echSecondHelloG]
  | ctx c =>
    have hwf := ech_first_hello_ctx_wf _ _ _ _ _ h
    have := ech_second_hello_no_panic (some c) (by intro c' hc'; cases hc'; exact hwf) ext2
    simpa using this

/-- the refusal of an *outer*-type second hello after an *inner*-type first one is what keeps the nil context
away: with only the other direction checked (seeded change C34-1) an all-zero outer extension reaches the
decryption with no context. Witness: first hello `01`, second hello `00 0000 0000 00 0000 0001 aa`. -/
theorem ech_switch_check_needed :
    echFirstHello false false false [1] = .ctx { inner := true, hpke := false } ∧
    echSecondHelloG false (some { inner := true, hpke := false }) [0, 0, 0, 0, 0, 0, 0, 0, 0, 1, 170] = .panic ∧
    echSecondHello (some { inner := true, hpke := false }) [0, 0, 0, 0, 0, 0, 0, 0, 0, 1, 170] = .abort 50 := by
  refine ⟨by decide, by decide, by decide⟩

/-! ## non-vacuity -/

example : echSecondHello (some { inner := false, hpke := true, configId := 7, kdf := 1, aead := 1 })
    [0, 0, 1, 0, 1, 7, 0, 0, 0, 2, 9, 9] = .decrypt [9, 9] := by decide
example : echSecondHello (some { inner := false, hpke := true, configId := 7, kdf := 1, aead := 1 })
    [0, 0, 1, 0, 1, 8, 0, 0, 0, 2, 9, 9] = .abort 47 := by decide
example : echSecondHello (some { inner := false, hpke := true, configId := 7, kdf := 1, aead := 1 }) [1] = .abort 50 := by decide
example : echSecondHello (some { inner := true, hpke := false }) [] = .abort 109 := by decide
example : echFirstHello true true true [0, 0, 1, 0, 1, 7, 0, 1, 5, 0, 1, 6]
    = .ctx { inner := false, hpke := true, configId := 7, kdf := 1, aead := 1 } := by decide


example : unmarshalMsg (fun _ _ => true) false true [8, 0, 0, 2, 0, 0] = (.ok .clientEE, 0) := by decide
example : unmarshalMsg (fun _ _ => true) false true [8, 0, 0, 1, 0] = (.err .unexpectedMessage, 1) := by decide
example : unmarshalMsg (fun _ _ => true) false false [67, 0, 0, 0] = (.err .unexpectedMessage, 2) := by decide
example : (readHandshake (fun _ _ => true) false false false [25, 0, 0, 8, 0, 2, 0, 0, 9, 0, 0, 0, 7]).res = .ok .compressedCert ∧
    (readHandshake (fun _ _ => true) false false false [25, 0, 0, 8, 0, 2, 0, 0, 9, 0, 0, 0, 7]).remaining = 1 := by decide
example : ({ alps := [1, 2, 3], alpsCP := alpsOld } : ClientEE).WF := by
  unfold ClientEE.WF; exact ⟨rfl, by decide, by decide⟩
example : ceeUnmarshal (ceeMarshal { alps := [1, 2, 3], alpsCP := alpsOld }) = some { alps := [1, 2, 3], alpsCP := alpsOld } := by decide
example : ceeUnmarshal (ceeMarshal { alps := [1], alpsCP := alpsNew, custom := [7] }) = none := by decide
example : parseECHExt [0, 0, 1, 0, 1, 7, 0, 2, 9, 9, 0, 3, 5, 5, 5] = .ok (.outer 1 1 7 [9, 9] [5, 5, 5]) := by rfl
example : parseECHExt [1] = .ok .inner := by rfl
example : parseECHExt [0, 0, 1, 0, 1, 7, 0, 200, 9] = .error .malformed := by rfl
example : parseECHExt [2] = .error .invalid := by rfl

end C34
