import UtlsVerif.Ticket
import UtlsVerif.SessionCodecRoundtrip
/-!
# C35 — session tickets are authenticated and round-trip

Over the symbolic model of `encryptTicket`/`decryptTicket` (`Ticket.lean`), for **every** key list,
IV, state and received byte string:

* `ticket_roundtrip` / `state_roundtrip` — what was sealed under the current key set is recovered;
* `accepted_is_authentic` — acceptance means: the trailing 32 bytes are the MAC, under a *configured*
  key, of exactly the received prefix; `unissued_rejected` lifts this to "any modification or
  truncation yields no state" under MAC unforgeability (an explicit hypothesis, instantiated at the
  received bytes); `tag_change_rejected`, `too_short_rejected` need no cryptographic hypothesis;
* `rotated_key_rejected` — a ticket sealed under a key that is no longer configured yields no state
  (hypothesis: no MAC collision across keys on that message);
* `keys_same_derivation` — `TicketKeyFromBytes` and `SetSessionTicketKeys` derive identical keys;
* `config_frame`, `clone_independent` — in any history over Configs related by `Clone`, a Config's keys
  change only by operations on that Config: operations on a clone never change the original and vice versa;
* `session_codec_roundtrip`, `session_ticket_roundtrip` — the transcribed `SessionState.Bytes` /
  `ParseSessionState` round-trip on every well-formed state, which discharges `state_roundtrip`'s
  codec hypothesis for the real codec;
* `forged_state_verbatim`, `setter_frames` — `MakeClientSessionState` and the setters carry version,
  suite and secret unchanged.
-/
namespace C35
open Wire Ticket

private theorem take_append_len {α} (a b : List α) (n : Nat) (h : a.length = n) : (a ++ b).take n = a := by
  subst h; simp

private theorem drop_append_len {α} (a b : List α) (n : Nat) (h : a.length = n) : (a ++ b).drop n = b := by
  subst h; simp

/-- **round trip on bytes**: `decryptTicket(encryptTicket(state))` under the same key list is `state`. -/
theorem ticket_roundtrip (C : Crypto) (hC : C.Laws) (k : TKey) (rest : List TKey) (iv state enc : Bytes)
    (hiv : iv.length = ivLen) (he : encrypt C (k :: rest) iv state = some enc) :
    decrypt C (k :: rest) enc = some state := by
  simp only [encrypt, Option.some.injEq] at he
  subst he
  have hct : (C.ctr k.aes iv state).length = state.length := hC.ctr_len _ _ _
  have hm : (C.mac k.hmac (iv ++ C.ctr k.aes iv state)).length = tagLen := hC.mac_len _ _
  unfold decrypt
  have hlen : (iv ++ C.ctr k.aes iv state ++ C.mac k.hmac (iv ++ C.ctr k.aes iv state)).length
      = ivLen + state.length + tagLen := by
    simp [hiv, hct, hm]; omega
  rw [if_neg (by rw [hlen]; omega)]
  have hsub : (iv ++ C.ctr k.aes iv state ++ C.mac k.hmac (iv ++ C.ctr k.aes iv state)).length - tagLen
      = (iv ++ C.ctr k.aes iv state).length := by
    rw [hlen]; simp [hiv, hct]
  simp only [hsub]
  rw [take_append_len _ _ _ rfl, drop_append_len _ _ _ rfl]
  have hiv' : (iv ++ C.ctr k.aes iv state ++ C.mac k.hmac (iv ++ C.ctr k.aes iv state)).take ivLen = iv := by
    rw [List.append_assoc]; exact take_append_len _ _ _ hiv
  rw [hiv', drop_append_len _ _ _ hiv]
  simp [tryKeys, hC.ctr_invol]

/-- **round trip on states**: with any state codec that round-trips, `DecryptTicket(EncryptTicket(s)) = s`.
The hypothesis is discharged for the real codec (`ParseSessionState ∘ Bytes`, transcribed in
`SessionCodec`) by `session_codec_roundtrip` / `state_roundtrip_hypothesis_holds`; the instance is
`session_ticket_roundtrip`. -/
theorem state_roundtrip {S : Type} (enc : S → Bytes) (dec : Bytes → Option S)
    (hcodec : ∀ s, dec (enc s) = some s)
    (C : Crypto) (hC : C.Laws) (k : TKey) (rest : List TKey) (iv : Bytes) (s : S) (t : Bytes)
    (hiv : iv.length = ivLen) (he : encrypt C (k :: rest) iv (enc s) = some t) :
    (decrypt C (k :: rest) t).bind dec = some s := by
  rw [ticket_roundtrip C hC k rest iv (enc s) t hiv he]; exact hcodec s

private theorem tryKeys_some (C : Crypto) (iv ct auth tag p : Bytes) (keys : List TKey)
    (h : tryKeys C iv ct auth tag keys = some p) :
    ∃ k ∈ keys, C.mac k.hmac auth = tag ∧ p = C.ctr k.aes iv ct := by
  induction keys with
  | nil => simp [tryKeys] at h
  | cons k ks ih =>
    simp only [tryKeys] at h
    by_cases hk : C.mac k.hmac auth = tag
    · rw [if_pos hk] at h
      exact ⟨k, List.mem_cons_self, hk, by cases h; rfl⟩
    · rw [if_neg hk] at h
      obtain ⟨k', hk', h1, h2⟩ := ih h
      exact ⟨k', List.mem_cons_of_mem _ hk', h1, h2⟩

/-- **authenticity**: a ticket is accepted only if its last 32 bytes are the MAC — under one of the
*configured* keys — of exactly the bytes received before them; the plaintext is the CTR decryption
under that same key. -/
theorem accepted_is_authentic (C : Crypto) (keys : List TKey) (e p : Bytes)
    (h : decrypt C keys e = some p) :
    ivLen + tagLen ≤ e.length ∧
    ∃ k ∈ keys, C.mac k.hmac (e.take (e.length - tagLen)) = e.drop (e.length - tagLen) ∧
      p = C.ctr k.aes (e.take ivLen) ((e.take (e.length - tagLen)).drop ivLen) := by
  unfold decrypt at h
  by_cases hl : e.length < ivLen + tagLen
  · rw [if_pos hl] at h; cases h
  · rw [if_neg hl] at h
    exact ⟨by omega, tryKeys_some C _ _ _ _ _ keys h⟩

/-- **any modification or truncation yields no state** — under MAC unforgeability: if no configured
key validates a (message, tag) pair that was not issued, a ticket outside the issued set is rejected.
The hypothesis is instantiated at the received bytes only. -/
theorem unissued_rejected (C : Crypto) (keys : List TKey) (issued : List Bytes) (e : Bytes)
    (hUF : ∀ k ∈ keys, C.mac k.hmac (e.take (e.length - tagLen)) = e.drop (e.length - tagLen) → e ∈ issued)
    (hne : e ∉ issued) : decrypt C keys e = none := by
  cases hd : decrypt C keys e with
  | none => rfl
  | some p =>
    obtain ⟨_, k, hk, hm, _⟩ := accepted_is_authentic C keys e p hd
    exact absurd (hUF k hk hm) hne

/-- anything shorter than IV + tag is rejected outright (covers truncations below 48 bytes). -/
theorem too_short_rejected (C : Crypto) (keys : List TKey) (e : Bytes) (h : e.length < 48) :
    decrypt C keys e = none := by
  unfold decrypt; rw [if_pos (by simpa [ivLen, tagLen] using h)]

/-- changing only tag bytes of a ticket sealed under the single configured key is always detected
(no cryptographic hypothesis needed). -/
theorem tag_change_rejected (C : Crypto) (hC : C.Laws) (k : TKey) (iv state tag' : Bytes)
    (hiv : iv.length = ivLen) (hl : tag'.length = tagLen)
    (hne : tag' ≠ C.mac k.hmac (iv ++ C.ctr k.aes iv state)) :
    decrypt C [k] (iv ++ C.ctr k.aes iv state ++ tag') = none := by
  have hct : (C.ctr k.aes iv state).length = state.length := hC.ctr_len _ _ _
  unfold decrypt
  have hlen : (iv ++ C.ctr k.aes iv state ++ tag').length = ivLen + state.length + tagLen := by
    simp [hiv, hct, hl]; omega
  rw [if_neg (by rw [hlen]; omega)]
  have hsub : (iv ++ C.ctr k.aes iv state ++ tag').length - tagLen = (iv ++ C.ctr k.aes iv state).length := by
    rw [hlen]; simp [hiv, hct]
  simp only [hsub]
  rw [take_append_len _ _ _ rfl, drop_append_len _ _ _ rfl]
  simp only [tryKeys]
  rw [if_neg (fun h => hne h.symm)]

private theorem tryKeys_none (C : Crypto) (iv ct auth tag : Bytes) (keys : List TKey)
    (h : ∀ k ∈ keys, C.mac k.hmac auth ≠ tag) : tryKeys C iv ct auth tag keys = none := by
  induction keys with
  | nil => rfl
  | cons k ks ih =>
    simp only [tryKeys]
    rw [if_neg (h k List.mem_cons_self)]
    exact ih (fun k' hk' => h k' (List.mem_cons_of_mem _ hk'))

/-- **rotation**: a ticket sealed under `k0` is rejected by a key list that no longer contains a key
validating it (hypothesis: no configured key's MAC collides with `k0`'s on that message). -/
theorem rotated_key_rejected (C : Crypto) (hC : C.Laws) (k0 : TKey) (keys : List TKey) (iv state enc : Bytes)
    (hiv : iv.length = ivLen) (he : encrypt C [k0] iv state = some enc)
    (hnc : ∀ k ∈ keys, C.mac k.hmac (iv ++ C.ctr k0.aes iv state) ≠ C.mac k0.hmac (iv ++ C.ctr k0.aes iv state)) :
    decrypt C keys enc = none := by
  simp only [encrypt, Option.some.injEq] at he
  subst he
  have hct : (C.ctr k0.aes iv state).length = state.length := hC.ctr_len _ _ _
  have hm : (C.mac k0.hmac (iv ++ C.ctr k0.aes iv state)).length = tagLen := hC.mac_len _ _
  unfold decrypt
  have hlen : (iv ++ C.ctr k0.aes iv state ++ C.mac k0.hmac (iv ++ C.ctr k0.aes iv state)).length
      = ivLen + state.length + tagLen := by
    simp [hiv, hct, hm]; omega
  rw [if_neg (by rw [hlen]; omega)]
  have hsub : (iv ++ C.ctr k0.aes iv state ++ C.mac k0.hmac (iv ++ C.ctr k0.aes iv state)).length - tagLen
      = (iv ++ C.ctr k0.aes iv state).length := by
    rw [hlen]; simp [hiv, hct]
  simp only [hsub]
  rw [take_append_len _ _ _ rfl, drop_append_len _ _ _ rfl]
  exact tryKeys_none C _ _ _ _ keys hnc

/-- sealing needs a key: with no keys there is no ticket (the code's "keys unavailable" error). -/
theorem no_keys_no_ticket (C : Crypto) (iv state : Bytes) : encrypt C [] iv state = none := rfl

/-- **one derivation**: the keys `SetSessionTicketKeys` installs are, position by position, the keys
`TicketKeyFromBytes` returns; each is two 16-byte slices of the same SHA-512 digest. -/
theorem keys_same_derivation (C : Crypto) (bs : List Bytes) (ks : List TKey) (h : setKeys C bs = some ks) :
    ks = bs.map (publicKeyFromBytes C) ∧ bs ≠ [] := by
  unfold setKeys at h
  cases bs with
  | nil => simp at h
  | cons b r => simp at h; subst h; exact ⟨rfl, by simp⟩

theorem key_sizes (C : Crypto) (b : Bytes) (h : (C.hash b).length = 64) :
    (keyFromBytes C b).aes.length = 16 ∧ (keyFromBytes C b).hmac.length = 16 := by
  simp [keyFromBytes, h]

/-- **configured keys win**: after `SetSessionTicketKeys(bs)` — whatever happened before (a user-set
legacy `SessionTicketKey`, earlier uses that installed its derived key) and however often the keys
are used afterwards — the Config seals and opens with exactly `bs`' derived keys. In particular the
legacy key is no longer configured, so by `rotated_key_rejected` its tickets are rejected. -/
theorem set_keys_override (C : Crypto) (c : KeyCfg) (before : List KOp) (bs : List Bytes) (n : Nat)
    (hbs : bs ≠ []) :
    ((((List.replicate n KOp.use).foldl (KeyCfg.step C)
        ((before.foldl (KeyCfg.step C) c).set C bs))).current C).2 = some (bs.map (keyFromBytes C)) := by
  have hne : ((bs.map (keyFromBytes C)).isEmpty) = false := by
    cases bs with
    | nil => exact absurd rfl hbs
    | cons b r => rfl
  have hfix : ∀ d : KeyCfg, d.installed = bs.map (keyFromBytes C) → KeyCfg.step C d KOp.use = d := by
    intro d hd
    simp [KeyCfg.step, KeyCfg.current, hd, hne]
  have huse : ∀ (m : Nat) (d : KeyCfg), d.installed = bs.map (keyFromBytes C) →
      (List.replicate m KOp.use).foldl (KeyCfg.step C) d = d := by
    intro m
    induction m with
    | zero => intro d _; rfl
    | succ m ih =>
      intro d hd
      rw [List.replicate_succ, List.foldl_cons, hfix d hd]
      exact ih d hd
  rw [huse n _ rfl]
  simp [KeyCfg.current, KeyCfg.set, hne]

/-- a Config with only a user-set legacy key uses exactly that key's derivation. -/
theorem legacy_only (C : Crypto) (b : Bytes) :
    ((KeyCfg.current C ⟨some b, []⟩).2) = some [publicKeyFromBytes C b] := rfl

/-- **forged client sessions carry what was supplied** … -/
theorem forged_state_verbatim (ticket : Bytes) (vers suite : Nat) (secret : Bytes) :
    let s := makeClientSession ticket vers suite secret
    s.ticket = ticket ∧ s.vers = vers ∧ s.suite = suite ∧ s.secret = secret ∧ s.ems = false := by
  simp [makeClientSession]

/-- … and every setter changes exactly its own field. -/
theorem setter_frames (s : ClientSess) (op : Setter) :
    let s' := applySetter s op
    (match op with | .vers v => s'.vers = v | _ => s'.vers = s.vers) ∧
    (match op with | .suite v => s'.suite = v | _ => s'.suite = s.suite) ∧
    (match op with | .secret v => s'.secret = v | _ => s'.secret = s.secret) ∧
    (match op with | .ticket v => s'.ticket = v | _ => s'.ticket = s.ticket) ∧
    (match op with | .ems v => s'.ems = v | _ => s'.ems = s.ems) := by
  cases op <;> simp [applySetter]

/-! ### Configs related by `Clone` -/

private theorem sysStep_frame (C : Crypto) (s : List KeyCfg) (op : SOp) (i : Nat)
    (hi : i < s.length) (hw : op.writes ≠ some i) :
    (sysStep C s op)[i]? = s[i]? ∧ i < (sysStep C s op).length := by
  cases op with
  | set j bs =>
    have hji : j ≠ i := fun h => hw (by simp [SOp.writes, h])
    simp [sysStep, hji, hi]
  | use j =>
    have hji : j ≠ i := fun h => hw (by simp [SOp.writes, h])
    simp [sysStep, hji, hi]
  | clone j =>
    simp only [sysStep]
    cases s[j]? with
    | none => exact ⟨rfl, hi⟩
    | some c => exact ⟨List.getElem?_append_left hi, by simp; omega⟩

/-- **frame**: in any history, a Config that no operation writes keeps its state (legacy key and
installed keys) — whatever is done to other Configs, including its clones and its original. -/
theorem config_frame (C : Crypto) (ops : List SOp) (s : List KeyCfg) (i : Nat)
    (hi : i < s.length) (hw : ∀ op ∈ ops, op.writes ≠ some i) :
    (ops.foldl (sysStep C) s)[i]? = s[i]? := by
  induction ops generalizing s with
  | nil => rfl
  | cons op ops ih =>
    have h1 := sysStep_frame C s op i hi (hw op (by simp))
    rw [List.foldl_cons, ih (sysStep C s op) h1.2 (fun o ho => hw o (by simp [ho])), h1.1]

/-- **clone independence**: after `c' := c.Clone()`, (1) any operations that do not act on the original
`c` leave it exactly as it was — in particular key rotations on the clone; (2) any operations that do
not act on the clone leave the clone with the keys the original had *at the time of cloning* — in
particular key rotations on the original. Hence each Config's current keys are those derived from the
seeds last set on that very Config (`set_keys_override`). -/
theorem clone_independent (C : Crypto) (s : List KeyCfg) (i : Nat) (c : KeyCfg) (hc : s[i]? = some c)
    (ops : List SOp) :
    ((∀ op ∈ ops, op.writes ≠ some i) →
      (ops.foldl (sysStep C) (sysStep C s (.clone i)))[i]? = some c) ∧
    ((∀ op ∈ ops, op.writes ≠ some s.length) →
      (ops.foldl (sysStep C) (sysStep C s (.clone i)))[s.length]? = some c) := by
  have hi : i < s.length := by
    rcases Nat.lt_or_ge i s.length with h | h
    · exact h
    · rw [List.getElem?_eq_none h] at hc; cases hc
  have hs : sysStep C s (.clone i) = s ++ [c.clone] := by simp [sysStep, hc]
  constructor
  · intro hw
    rw [config_frame C ops _ i (by rw [hs]; simp; omega) hw, hs, List.getElem?_append_left hi, hc]
  · intro hw
    rw [config_frame C ops _ s.length (by rw [hs]; simp) hw, hs]
    simp [KeyCfg.clone]

/-- the clone starts with the original's keys: what the original would use now, the clone uses too. -/
theorem clone_same_keys (C : Crypto) (c : KeyCfg) : (c.clone.current C).2 = (c.current C).2 := rfl

private def toy0 : Crypto := { ctr := fun _ _ x => x, mac := fun _ _ => [], hash := fun b => b }

example : ((sysStep toy0 (sysStep toy0 (sysStep toy0 [⟨none, []⟩] (.set 0 [[1], [2]])) (.clone 0)) (.set 0 [[3]])).map
    (·.installed.length)) = [1, 2] := by decide

/-! ### the real state codec -/

open SessionCodec in
/-- **`ParseSessionState(s.Bytes()) = s`** for the transcribed codec, on every well-formed state
(`Sess.wf`: sizes within their length prefixes, non-empty secret, a leaf for client sessions, OCSP/SCT
non-empty when present and only with a leaf, certificates that parse, verified chains non-empty and
starting with the leaf, ALPN only with EarlyData, use_by/age_add only for TLS 1.3 clients). -/
theorem session_codec_roundtrip (parses : Bytes → Bool) (s : Sess) (h : s.wf parses) :
    decode parses (encode s) = some s :=
  decode_encode parses s h

open SessionCodec in
/-- `state_roundtrip` with its codec hypothesis discharged:
`DecryptTicket(EncryptTicket(s))` parses back to `s` for every well-formed state. -/
theorem session_ticket_roundtrip (parses : Bytes → Bool) (C : Crypto) (hC : C.Laws) (k : TKey) (rest : List TKey)
    (iv : Bytes) (s : Sess) (t : Bytes) (hwf : s.wf parses) (hiv : iv.length = ivLen)
    (he : encrypt C (k :: rest) iv (encode s) = some t) :
    (decrypt C (k :: rest) t).bind (decode parses) = some s := by
  rw [ticket_roundtrip C hC k rest iv (encode s) t hiv he]
  exact decode_encode parses s hwf

open SessionCodec in
/-- the same through `state_roundtrip` itself: its hypothesis `∀ s, dec (enc s) = some s` holds for the
real codec over the type of well-formed states. -/
theorem state_roundtrip_hypothesis_holds (parses : Bytes → Bool) :
    ∀ s : { s : Sess // s.wf parses },
      ((decode parses (encode s.1)).bind fun r => if h : r.wf parses then some (⟨r, h⟩ : { s : Sess // s.wf parses }) else none)
        = some s := by
  intro ⟨s, h⟩
  simp [decode_encode parses s h, h]

/-- a TLS 1.3 client session with two certificates, OCSP staple, two SCTs, two verified chains that
differ after the leaf, EarlyData with ALPN: well-formed (certificates `[1,_]` "parse"). -/
private def exSess : SessionCodec.Sess :=
  { version := 0x0304, isClient := true, suite := 0x1301, createdAt := 1700000000, secret := [1, 2, 3],
    extra := [[], [9]], ems := true, earlyData := true, certs := [[1, 1], [1, 2]], ocsp := some [7],
    scts := some [[5], [6, 6]], chains := [[[1, 1], [1, 2], [1, 4]], [[1, 1], [1, 3]]], alpn := [104, 50],
    useBy := 1700003600, ageAdd := 12345 }

private def exParses (c : Bytes) : Bool := c.head? == some 1

example : exSess.wf exParses := by decide
example : SessionCodec.decode exParses (SessionCodec.encode exSess) = some exSess := by decide

/-! ### non-vacuity: a concrete instance of the laws (XOR-with-key "CTR", a toy MAC) and a round trip -/

private def toyCtr (k _iv x : Bytes) : Bytes := x.map (· ^^^ k.headD 0)
private def toyMac (k m : Bytes) : Bytes := (List.replicate 31 (k.headD 0)) ++ [UInt8.ofNat m.length]
private def toy : Crypto := { ctr := toyCtr, mac := toyMac, hash := fun b => b ++ List.replicate (64 - b.length) 0 }

example : toy.Laws where
  ctr_len := by intro k iv x; simp [toy, toyCtr]
  ctr_invol := by
    intro k iv x; simp only [toy, toyCtr, List.map_map]
    have : ((fun y : UInt8 => y ^^^ k.headD 0) ∘ fun y : UInt8 => y ^^^ k.headD 0) = id := by
      funext y; simp [UInt8.xor_assoc]
    rw [this]; simp
  mac_len := by intro k m; simp [toy, toyMac, tagLen]

example : decrypt toy [⟨[7], [9]⟩, ⟨[1], [2]⟩]
    ((encrypt toy [⟨[7], [9]⟩, ⟨[1], [2]⟩] (List.replicate 16 5) [1, 2, 3]).getD []) = some [1, 2, 3] := by
  decide

example : decrypt toy [⟨[1], [2]⟩]
    ((encrypt toy [⟨[7], [9]⟩] (List.replicate 16 5) [1, 2, 3]).getD []) = none := by
  decide

end C35
