import UtlsVerif.Lru
/-!
# C36 — the LRU client session cache behaves as a bounded LRU map

* `lru_refines` — for **every** history of Put/Get from the empty cache the transcription of
  `lruSessionCache` returns exactly what the abstract bounded LRU map returns, and ends in the same state.
* `lru_bounded` — every reachable state holds at most `cap` entries with pairwise distinct keys.
* `lru_linearizable` — with each method atomic under the mutex (shape fact), the results of any
  concurrent execution are those of the sequential specification run in lock-acquisition order,
  and that order respects real time (see the second half of this file).
-/
namespace C36
open Lru

private theorem find_none_remove (es : Entries) (k : Nat) (h : find? es k = none) : remove es k = es := by
  induction es with
  | nil => rfl
  | cons e es ih =>
    by_cases hk : e.1 == k
    · simp [find?, List.find?, hk] at h
    · have h' : find? es k = none := by simpa [find?, List.find?, hk] using h
      have hne : (e.1 != k) = true := by simp [bne, hk]
      have ih' := ih h'
      unfold remove at ih' ⊢
      rw [List.filter_cons]; simp only [hne, if_true, ih']

private theorem remove_length_le (es : Entries) (k : Nat) : (remove es k).length ≤ es.length := by
  simp [remove]; exact List.length_filter_le _ _

private theorem find_some_remove_lt (es : Entries) (k : Nat) (x : Nat) (h : find? es k = some x) :
    (remove es k).length < es.length := by
  induction es with
  | nil => simp [find?] at h
  | cons e es ih =>
    by_cases hk : e.1 == k
    · have : (e.1 != k) = false := by simp [bne, hk]
      simp [remove, List.filter, this]
      exact Nat.lt_succ_of_le (List.length_filter_le _ _)
    · have hne : (e.1 != k) = true := by simp [bne, hk]
      have h' : find? es k = some x := by simpa [find?, List.find?, hk] using h
      have := ih h'
      simp [remove, List.filter, hne] at *
      omega

private theorem keys_remove_nodup (es : Entries) (k : Nat) (h : (keys es).Nodup) : (keys (remove es k)).Nodup := by
  unfold keys remove at *
  rw [List.nodup_iff_pairwise_ne] at *
  exact (List.Pairwise.sublist (List.Sublist.map _ (List.filter_sublist)) h)

private theorem not_mem_keys_remove (es : Entries) (k : Nat) : k ∉ keys (remove es k) := by
  simp [keys, remove]

private theorem find_none_not_mem (es : Entries) (k : Nat) (h : find? es k = none) : k ∉ keys es := by
  induction es with
  | nil => simp [keys]
  | cons e es ih =>
    by_cases hk : e.1 == k
    · simp [find?, List.find?, hk] at h
    · have h' : find? es k = none := by simpa [find?, List.find?, hk] using h
      have := ih h'
      simp [keys] at *
      exact ⟨fun e' => hk (by simp [e']), this⟩

/-- one `Put` of the code = one `put` of the LRU map, in any state satisfying the invariant. -/
theorem put_refines (cap : Nat) (hc : 0 < cap) (es : Entries) (k : Nat) (v : Option Nat)
    (hi : Inv cap es) : cput cap es k v = aput cap es k v := by
  obtain ⟨hlen, _⟩ := hi
  unfold cput aput
  cases hf : find? es k <;> cases v <;> simp
  · exact (find_none_remove es k hf).symm
  · rw [find_none_remove es k hf]
    split
    · rename_i hlt
      rw [List.take_of_length_le]; simp; omega
    · rename_i hge
      have : es.length = cap := by omega
      subst this
      cases hcap : es.length with
      | zero => omega
      | succ n =>
        simp [List.take_succ_cons]
        rw [List.dropLast_eq_take]; simp [hcap]
  · rename_i x y
    have := find_some_remove_lt es k x hf
    rw [List.take_of_length_le]; simp; omega

/-- the invariant is preserved by every `Put` … -/
theorem put_inv (cap : Nat) (hc : 0 < cap) (es : Entries) (k : Nat) (v : Option Nat)
    (hi : Inv cap es) : Inv cap (cput cap es k v) := by
  rw [put_refines cap hc es k v hi]
  obtain ⟨hlen, hnd⟩ := hi
  unfold aput
  cases v with
  | none => exact ⟨Nat.le_trans (remove_length_le es k) hlen, keys_remove_nodup es k hnd⟩
  | some x =>
    refine ⟨by simp; omega, ?_⟩
    have hnd' : (keys ((k, x) :: remove es k)).Nodup := by
      simp only [keys, List.map_cons, List.nodup_cons]
      exact ⟨not_mem_keys_remove es k, keys_remove_nodup es k hnd⟩
    unfold keys at *
    rw [List.map_take]
    exact List.Nodup.sublist (List.take_sublist _ _) hnd'

/-- … and by every `Get`. -/
theorem get_inv (cap : Nat) (es : Entries) (k : Nat) (hi : Inv cap es) : Inv cap (cget es k).1 := by
  obtain ⟨hlen, hnd⟩ := hi
  unfold cget
  cases hf : find? es k with
  | none => exact ⟨hlen, hnd⟩
  | some x =>
    have := find_some_remove_lt es k x hf
    refine ⟨by simp; omega, ?_⟩
    simp only [keys, List.map_cons, List.nodup_cons]
    exact ⟨not_mem_keys_remove es k, keys_remove_nodup es k hnd⟩

theorem step_refines (cap : Nat) (hc : 0 < cap) (es : Entries) (op : Op) (hi : Inv cap es) :
    cstep cap es op = astep cap es op ∧ Inv cap (cstep cap es op).1 := by
  cases op with
  | put k v => exact ⟨by simp [cstep, astep, put_refines cap hc es k v hi], put_inv cap hc es k v hi⟩
  | get k => exact ⟨rfl, get_inv cap es k hi⟩

/-- **C36, sequential part**: for every history, starting anywhere the invariant holds (in particular
from the empty cache), the code's outputs and final state are those of the bounded LRU map. -/
theorem lru_refines (cap : Nat) (hc : 0 < cap) (ops : List Op) (es : Entries) (hi : Inv cap es) :
    run (cstep cap) es ops = run (astep cap) es ops := by
  induction ops generalizing es with
  | nil => rfl
  | cons op ops ih =>
    obtain ⟨heq, hinv⟩ := step_refines cap hc es op hi
    simp only [run]
    rw [← heq]
    rw [ih _ hinv]

/-- **C36, bound**: every reachable state holds at most `cap` entries, keys pairwise distinct. -/
theorem lru_bounded (cap : Nat) (hc : 0 < cap) (ops : List Op) (es : Entries) (hi : Inv cap es) :
    Inv cap (run (cstep cap) es ops).1 := by
  induction ops generalizing es with
  | nil => exact hi
  | cons op ops ih =>
    simp only [run]
    exact ih _ (step_refines cap hc es op hi).2

theorem init_inv (cap : Nat) : Inv cap [] := ⟨Nat.zero_le _, by simp [keys]⟩

/-- the default capacity rule of `NewLRUClientSessionCache` always yields a positive capacity. -/
theorem newCap_pos (c : Int) : 0 < newCap c := by
  unfold newCap; split <;> omega

/-- **end to end from the constructor**: whatever capacity argument `NewLRUClientSessionCache`
is given (also 0 or negative: the default 64 applies), every history from the fresh cache behaves
as the bounded LRU map of that effective capacity and never holds more than that many entries —
the hypotheses of `lru_refines`/`lru_bounded` are discharged, nothing is assumed. -/
theorem lru_from_constructor (c : Int) (ops : List Op) :
    run (cstep (newCap c)) [] ops = run (astep (newCap c)) [] ops ∧
    (run (cstep (newCap c)) [] ops).1.length ≤ newCap c ∧
    (keys (run (cstep (newCap c)) [] ops).1).Nodup :=
  ⟨lru_refines _ (newCap_pos c) ops [] (init_inv _),
   (lru_bounded _ (newCap_pos c) ops [] (init_inv _)).1,
   (lru_bounded _ (newCap_pos c) ops [] (init_inv _)).2⟩

/-- the effective capacity is the argument when it is at least 1 and 64 otherwise. -/
theorem newCap_spec (c : Int) : (1 ≤ c → (newCap c : Int) = c) ∧ (c < 1 → newCap c = 64) := by
  unfold newCap; constructor <;> intro h <;> split <;> omega

/-- `Put(k, nil)` deletes: afterwards `Get(k)` misses, whatever the state. -/
theorem put_nil_deletes (cap : Nat) (es : Entries) (k : Nat) :
    (cget (cput cap es k none) k).2 = none := by
  have h : find? (cput cap es k none) k = none := by
    unfold cput
    cases hf : find? es k with
    | none => simpa using hf
    | some x =>
      simp only
      have := not_mem_keys_remove es k
      unfold find?
      cases hfind : List.find? (fun x => x.1 == k) (remove es k) with
      | none => rfl
      | some e =>
        exfalso
        have hm := List.mem_of_find?_eq_some hfind
        have hk := List.find?_some hfind
        apply this
        simp only [keys, List.mem_map]
        exact ⟨e, hm, by simpa using hk⟩
  unfold cget; rw [h]

private theorem find_cons_self (t : Entries) (k x : Nat) : find? ((k, x) :: t) k = some x := by
  simp [find?]

private theorem find_cons_ne (t : Entries) (k k' x : Nat) (hne : k' ≠ k) :
    find? ((k, x) :: t) k' = find? t k' := by
  have : (k == k') = false := by simpa using fun h => hne h.symm
  simp [find?, this]

private theorem find_remove_ne (es : Entries) (k k' : Nat) (hne : k' ≠ k) :
    find? (remove es k) k' = find? es k' := by
  unfold find? remove
  induction es with
  | nil => rfl
  | cons e t ih =>
    simp only [List.filter_cons]
    cases h1 : (e.1 != k) with
    | false =>
      have hk : e.1 = k := by simpa using h1
      have h2 : (e.1 == k') = false := by
        rw [hk]; exact beq_false_of_ne (fun h => hne h.symm)
      simp only [Bool.false_eq_true, if_false, List.find?_cons, h2]
      exact ih
    | true =>
      simp only [if_true, List.find?_cons]
      cases h3 : (e.1 == k') with
      | true => rfl
      | false => exact ih

/-- `Put(k, s)` with `s ≠ nil` is immediately visible: the next `Get(k)` returns `s`, whatever the
state and capacity (also at capacity: the recycled back element is overwritten with `(k, s)`). -/
theorem get_after_put (cap : Nat) (es : Entries) (k x : Nat) :
    (cget (cput cap es k (some x)) k).2 = some x := by
  have h : find? (cput cap es k (some x)) k = some x := by
    unfold cput
    cases hf : find? es k with
    | none => simp only; split <;> exact find_cons_self _ _ _
    | some y => exact find_cons_self _ _ _
  unfold cget; rw [h]

/-- below capacity nothing is evicted: a `Put` of key `k` leaves the binding of every other key
unchanged (an eviction is only legal when the cache is full and the key is new). -/
theorem put_keeps_others_below_cap (cap : Nat) (es : Entries) (k k' : Nat) (v : Option Nat)
    (hne : k' ≠ k) (hlt : es.length < cap) : find? (cput cap es k v) k' = find? es k' := by
  unfold cput
  cases hf : find? es k with
  | none =>
    cases v with
    | none => rfl
    | some x => simp only [hlt, if_true]; exact find_cons_ne _ _ _ _ hne
  | some y =>
    cases v with
    | none => exact find_remove_ne _ _ _ hne
    | some x => simp only; rw [find_cons_ne _ _ _ _ hne]; exact find_remove_ne _ _ _ hne

/-- a `Put` on a key already present never evicts, whatever the fill level. -/
theorem put_hit_keeps_others (cap : Nat) (es : Entries) (k k' y : Nat) (v : Option Nat)
    (hne : k' ≠ k) (hhit : find? es k = some y) : find? (cput cap es k v) k' = find? es k' := by
  unfold cput
  rw [hhit]
  cases v with
  | none => exact find_remove_ne _ _ _ hne
  | some x => simp only; rw [find_cons_ne _ _ _ _ hne]; exact find_remove_ne _ _ _ hne

/-- `Get` never changes what any key is bound to (it only reorders). -/
theorem get_keeps_bindings (es : Entries) (k k' : Nat) : find? (cget es k).1 k' = find? es k' := by
  unfold cget
  cases hf : find? es k with
  | none => rfl
  | some x =>
    simp only
    by_cases h : k' = k
    · subst h; rw [find_cons_self]; exact hf.symm
    · rw [find_cons_ne _ _ _ _ h]; exact find_remove_ne _ _ _ h

/-! ### Provenance: the cache never invents a session -/

private theorem find_some_mem (es : Entries) (k x : Nat) (h : find? es k = some x) : (k, x) ∈ es := by
  unfold find? at h
  cases hf : List.find? (fun e => e.1 == k) es with
  | none => simp [hf] at h
  | some e =>
    simp only [hf, Option.map_some, Option.some.injEq] at h
    have hm := List.mem_of_find?_eq_some hf
    have hk := List.find?_some hf
    have hk' : e.1 = k := by simpa using hk
    have : e = (k, x) := by cases e; simp_all
    exact this ▸ hm

private theorem mem_remove (es : Entries) (k : Nat) (p : Nat × Nat) (h : p ∈ remove es k) : p ∈ es :=
  (List.mem_filter.mp h).1

/-- one step: every entry afterwards was there before or is the pair just `Put`. -/
private theorem step_provenance (cap : Nat) (es : Entries) (op : Op) (p : Nat × Nat)
    (h : p ∈ (cstep cap es op).1) : p ∈ es ∨ op = .put p.1 (some p.2) := by
  cases op with
  | get k =>
    simp only [cstep, cget] at h
    cases hf : find? es k with
    | none => simp only [hf] at h; exact .inl h
    | some x =>
      simp only [hf, List.mem_cons] at h
      rcases h with rfl | h
      · exact .inl (find_some_mem es k x hf)
      · exact .inl (mem_remove es k p h)
  | put k v =>
    simp only [cstep, cput] at h
    cases hf : find? es k with
    | none =>
      cases v with
      | none => simp only [hf] at h; exact .inl h
      | some x =>
        simp only [hf] at h
        split at h
        · rcases List.mem_cons.mp h with rfl | h
          · exact .inr rfl
          · exact .inl h
        · rcases List.mem_cons.mp h with rfl | h
          · exact .inr rfl
          · exact .inl (List.dropLast_subset es h)
    | some y =>
      cases v with
      | none => simp only [hf] at h; exact .inl (mem_remove es k p h)
      | some x =>
        simp only [hf] at h
        rcases List.mem_cons.mp h with rfl | h
        · exact .inr rfl
        · exact .inl (mem_remove es k p h)

private theorem run_provenance (cap : Nat) (ops : List Op) (es : Entries) (p : Nat × Nat)
    (h : p ∈ (run (cstep cap) es ops).1) : p ∈ es ∨ Op.put p.1 (some p.2) ∈ ops := by
  induction ops generalizing es with
  | nil => exact .inl h
  | cons op ops ih =>
    simp only [run] at h
    rcases ih _ h with h1 | h1
    · rcases step_provenance cap es op p h1 with h2 | h2
      · exact .inl h2
      · exact .inr (h2 ▸ List.mem_cons_self)
    · exact .inr (List.mem_cons_of_mem _ h1)

/-- **No invented sessions**: after any history from the empty cache, every `(key, session)` the
cache holds was `Put` under exactly that key in the history — a `Get(k)` can only ever return a
session that the caller stored under `k` (never one stored under another key, never a recycled
element's old value). -/
theorem entries_were_put (cap : Nat) (ops : List Op) (p : Nat × Nat)
    (h : p ∈ (run (cstep cap) [] ops).1) : Op.put p.1 (some p.2) ∈ ops := by
  rcases run_provenance cap ops [] p h with h | h
  · cases h
  · exact h

theorem get_returns_a_put_value (cap : Nat) (ops : List Op) (k x : Nat)
    (h : (cget (run (cstep cap) [] ops).1 k).2 = some x) : Op.put k (some x) ∈ ops := by
  unfold cget at h
  cases hf : find? (run (cstep cap) [] ops).1 k with
  | none => simp [hf] at h
  | some y =>
    simp only [hf, Option.some.injEq] at h
    subst h
    exact entries_were_put cap ops (k, y) (find_some_mem _ k y hf)

/-! the hypotheses of the no-eviction corollaries are met by concrete states, and the below-capacity
guard is necessary: at capacity a new key does evict the oldest other key. -/
example : find? (cput 3 [(1, 7), (2, 8)] 5 (some 9)) 2 = some 8 := by decide
example : find? (cput 2 [(1, 7), (2, 8)] 5 (some 9)) 2 = none ∧ find? [(1, 7), (2, 8)] 2 = some 8 := by decide
example : find? (cput 2 [(1, 7), (2, 8)] 1 (some 9)) 2 = some 8 := by decide

/-! Non-vacuity: a concrete reachable state and the D19 regression history. -/
example : Inv 2 [(1, 7), (2, 8)] := ⟨by decide, by decide⟩
example : (run (cstep 1) [] [.put 1 (some 7), .put 2 none, .get 1, .get 2]).2
    = [none, none, some (some 7), some none] := by decide

/-! ## Concurrency: atomic methods ⇒ linearizable

Threads invoke operations; an operation takes effect in one atomic step while the mutex is held
(the shape fact: `Put`/`Get` lock first and unlock by `defer`); then it responds. -/

inductive Ev where
  | inv (t : Nat) (op : Op)          -- thread t calls
  | eff (t : Nat)                    -- thread t's critical section runs (lock .. unlock)
  | res (t : Nat)                    -- thread t returns
  deriving DecidableEq, Repr

structure CState where
  es : Entries
  pending : List (Nat × Op)              -- invoked, not yet effective
  done : List (Nat × Op × Out)           -- effective, not yet returned
  lin : List (Nat × Op × Out)            -- operations in lock-acquisition order, with results
  returned : List (Nat × Op × Out)       -- completed calls, in return order

def cinit : CState := ⟨[], [], [], [], []⟩

/-- one event of a well-formed concurrent execution (`none` = event not enabled). -/
def cev (cap : Nat) (s : CState) : Ev → Option CState
  | .inv t op =>
    if s.pending.any (·.1 == t) || s.done.any (·.1 == t) then none
    else some { s with pending := (t, op) :: s.pending }
  | .eff t =>
    match s.pending.find? (·.1 == t) with
    | none => none
    | some (_, op) =>
      let (es', o) := cstep cap s.es op
      some { s with es := es', pending := s.pending.filter (·.1 != t),
                    done := (t, op, o) :: s.done, lin := s.lin ++ [(t, op, o)] }
  | .res t =>
    match s.done.find? (·.1 == t) with
    | none => none
    | some r => some { s with done := s.done.filter (·.1 != t), returned := s.returned ++ [r] }

def cexec (cap : Nat) : CState → List Ev → Option CState
  | s, [] => some s
  | s, e :: es => (cev cap s e).bind fun s' => cexec cap s' es

/-- invariant: replaying `lin` sequentially on the *specification* from the empty cache gives the
current state and exactly the recorded results; everything done/returned is in `lin`. -/
def LinInv (cap : Nat) (s : CState) : Prop :=
  Inv cap s.es ∧
  run (astep cap) [] (s.lin.map (·.2.1)) = (s.es, s.lin.map (·.2.2)) ∧
  (∀ r ∈ s.done, r ∈ s.lin) ∧ (∀ r ∈ s.returned, r ∈ s.lin)

private theorem run_append (step : Entries → Op → Entries × Out) (es : Entries) (ops : List Op) (op : Op) :
    run step es (ops ++ [op]) =
      (let (es', os) := run step es ops
       let (es'', o) := step es' op
       (es'', os ++ [o])) := by
  induction ops generalizing es with
  | nil => simp [run]
  | cons a as ih => simp [run, ih]

private theorem cev_inv (cap : Nat) (hc : 0 < cap) (s s' : CState) (e : Ev)
    (hi : LinInv cap s) (h : cev cap s e = some s') : LinInv cap s' := by
  obtain ⟨hinv, hrun, hdone, hret⟩ := hi
  cases e with
  | inv t op =>
    simp only [cev] at h
    split at h
    · cases h
    · cases h; exact ⟨hinv, hrun, hdone, hret⟩
  | eff t =>
    simp only [cev] at h
    split at h
    · cases h
    · rename_i t' op hfind
      cases h
      obtain ⟨heq, hinv'⟩ := step_refines cap hc s.es op hinv
      refine ⟨hinv', ?_, ?_, ?_⟩
      · simp only [List.map_append, List.map_cons, List.map_nil]
        rw [run_append, hrun]
        simp only
        rw [← heq]
      · intro r hr
        simp only [List.mem_cons] at hr
        rcases hr with rfl | hr
        · simp
        · exact List.mem_append_left _ (hdone r hr)
      · intro r hr
        exact List.mem_append_left _ (hret r hr)
  | res t =>
    simp only [cev] at h
    split at h
    · cases h
    · rename_i r hfind
      cases h
      refine ⟨hinv, hrun, ?_, ?_⟩
      · intro r' hr'
        exact hdone r' (List.mem_filter.mp hr').1
      · intro r' hr'
        simp only [List.mem_append, List.mem_singleton] at hr'
        rcases hr' with hr' | rfl
        · exact hret r' hr'
        · exact hdone _ (List.mem_of_find?_eq_some hfind)

/-- **C36, concurrent part**: in every concurrent execution (any number of threads, any
interleaving of invocations, critical sections and returns), every call that has returned
carries the result that the *sequential LRU specification* gives it when the calls are run in
lock-acquisition order — i.e. that order is a linearization — and the cache never exceeds `cap`. -/
theorem lru_linearizable (cap : Nat) (hc : 0 < cap) (evs : List Ev) (s : CState)
    (h : cexec cap cinit evs = some s) :
    run (astep cap) [] (s.lin.map (·.2.1)) = (s.es, s.lin.map (·.2.2)) ∧
    (∀ r ∈ s.returned, r ∈ s.lin) ∧ s.es.length ≤ cap := by
  have key : ∀ (evs : List Ev) (s0 s : CState), LinInv cap s0 → cexec cap s0 evs = some s → LinInv cap s := by
    intro evs
    induction evs with
    | nil => intro s0 s hi h; simp [cexec] at h; subst h; exact hi
    | cons e es ih =>
      intro s0 s hi h
      simp only [cexec] at h
      cases he : cev cap s0 e with
      | none => simp [he] at h
      | some s1 =>
        simp [he] at h
        exact ih s1 s (cev_inv cap hc s0 s1 e hi he) h
  have hinit : LinInv cap cinit := ⟨init_inv cap, rfl, by simp [cinit], by simp [cinit]⟩
  obtain ⟨hinv, hrun, _, hret⟩ := key evs cinit s hinit h
  exact ⟨hrun, hret, hinv.1⟩

/-- real-time order: an operation whose critical section has not run yet when another call
returned is placed after it in the linearization (append-only `lin`). -/
theorem lin_append_only (cap : Nat) (s s' : CState) (e : Ev) (h : cev cap s e = some s') :
    ∃ suffix, s'.lin = s.lin ++ suffix := by
  cases e with
  | inv t op =>
    simp only [cev] at h
    split at h
    · cases h
    · cases h; exact ⟨[], by simp⟩
  | eff t =>
    simp only [cev] at h
    split at h
    · cases h
    · cases h; exact ⟨_, rfl⟩
  | res t =>
    simp only [cev] at h
    split at h
    · cases h
    · cases h; exact ⟨[], by simp⟩

end C36
