/-!
# Quic — `UQUICConn.Start / HandleData / SetTransportParameters / Close / NextEvent` and the
handshake goroutine, as a small-step transition system (core Lean only).

Transcribed from `u_quic.go` (caller side), `quic.go: quicWaitForSignal` (the wait protocol over
`blockedc` / `signalc` / `cancelc`) and `u_conn.go: (*UConn).handshakeContext` (the goroutine).

The goroutine's program is **not** written here: it is a parameter `Sys.prog : Prog`, a decision
tree of the return-path skeleton of `handshakeContext` that `harness/cmd/gen` regenerates from the
source with `go/ast` on every run (`Gen/QuicShape.lean`), together with the TLS 1.3 client's event
emission script `Sys.body` (order of `quicSet*Secret` / `quicSetTransportParameters` calls and of
the `readHandshake` wait points along `clientHandshake` → `handshake()`).

`ok` is the decidable *discipline predicate*: a symbolic execution of the skeleton over the flags
the code tests (`handshakeErr`, `isHandshakeComplete`, the `BuildHandshakeState` result) checking
that every return path closes `blockedc` and `signalc` exactly once, has recorded a result
(`handshakeErr` or completion) before it closes `blockedc`, releases `handshakeMutex`, never enters a blocking call after a
close, and emits events in an admissible order. All theorems of `Props/C23.lean` hold for *every*
`Sys` with `ok`; `decide` discharges `ok` for the regenerated instance.
-/
namespace Quic

/-! ## Events -/

inductive Level | initial | early | handshake | app
  deriving DecidableEq, Repr

/-- QUIC events other than `QUICWriteData` (crypto data is not ordered by the property). -/
inductive Ev
  | sw (l : Level)   -- QUICSetWriteSecret
  | sr (l : Level)   -- QUICSetReadSecret
  | tp               -- QUICTransportParameters (the peer's)
  | hd               -- QUICHandshakeDone
  | tpr              -- QUICTransportParametersRequired
  | red              -- QUICRejectedEarlyData
  deriving DecidableEq, Repr

/-- May `e` be delivered after the events `t`?  This is the property's ordering clause:
each secret at most once; a level's read secret only after its write secret; the 1-RTT read
secret only after HandshakeDone; transport parameters at most once, and HandshakeDone only once
they have been delivered (so: exactly once in a completed handshake). -/
def admissible (t : List Ev) (e : Ev) : Bool :=
  match e with
  | .sw l => !t.contains (.sw l)
  | .sr l => t.contains (.sw l) && !t.contains (.sr l) && (l != .app || t.contains .hd)
  | .tp => !t.contains .tp
  | .hd => t.contains .tp && !t.contains .hd
  | .tpr => true
  | .red => true

def orderFrom (seen : List Ev) : List Ev → Bool
  | [] => true
  | e :: r => admissible seen e && orderFrom (seen ++ [e]) r

/-- The event-order predicate (used on model traces by the theorems and on the real client's
traces by the monitor). -/
def OrderOK (t : List Ev) : Bool := orderFrom [] t

/-! ## Skeleton language -/

inductive Lk | hs | inp | out | other
  deriving DecidableEq, Repr

inductive Dfr | unlock (l : Lk) | cancel | other
  deriving DecidableEq, Repr

inductive Chan | blocked | signal
  deriving DecidableEq, Repr

/-- Conditions the skeleton branches on. `other n` = a condition the extractor does not know
(treated as nondeterministic). -/
inductive Cond | complete | hsErr | quic | cancellable | isClient | buildErr | other (n : Nat)
  deriving DecidableEq, Repr

inductive Act
  | lock (l : Lk) | unlock (l : Lk) | dfr (d : Dfr)
  | setCancel            -- c.quic.cancel = cancel
  | spawn                -- go func(){…}() (the non-QUIC interrupter)
  | build                -- c.BuildHandshakeState()   (may wait for transport parameters)
  | body                 -- c.handshakeErr = c.handshakeFn(ctx)
  | setHsErr             -- c.handshakeErr = <non-nil error>
  | close (c : Chan)
  | emit (e : Ev)
  | unsupported          -- a construct the extractor cannot translate (never satisfies `ok`)
  deriving DecidableEq, Repr

/-- Decision tree of `handshakeContext`: statements in source order, `if`s with both
continuations. -/
inductive Prog
  | ret
  | panic
  | act (a : Act) (k : Prog)
  | ite (c : Cond) (t e : Prog)
  deriving DecidableEq, Repr

/-- One step of a blocking call's script: an event emission, an emission that only some
handshakes perform, or a point where handshake bytes are read (`readHandshake` →
`quicReadHandshakeBytes` → zero or more `quicWaitForSignal` rounds). -/
inductive BItem | emit (e : Ev) | emitOpt (e : Ev) | recv
  deriving DecidableEq, Repr

structure Sys where
  prog : Prog
  build : List BItem
  body : List BItem
  deriving Repr

/-- `BuildHandshakeState`: only `HelloGolang`'s `makeClientHello` can block
(`quicGetTransportParameters`: optional `QUICTransportParametersRequired`, then wait rounds). -/
def buildScript : List BItem := [.emitOpt .tpr, .recv]

/-! ## Goroutine-visible flags -/

structure A where
  hsErr : Bool := false      -- c.handshakeErr != nil
  complete : Bool := false   -- c.isHandshakeComplete
  buildErr : Bool := false   -- err of the last BuildHandshakeState
  closedB : Bool := false    -- blockedc closed
  closedS : Bool := false    -- signalc closed
  holds : Bool := false      -- the goroutine holds handshakeMutex
  cancelSet : Bool := false  -- c.quic.cancel != nil
  bodyDone : Bool := false   -- handshakeFn has been entered
  defers : List Dfr := []    -- deferred calls, most recent first
  trace : List Ev := []      -- events appended to quic.events so far
  deriving DecidableEq, Repr

inductive CallKind | build | body
  deriving DecidableEq, Repr

def finishOK : CallKind → A → A
  | .build, a => { a with buildErr := false }
  | .body, a => { a with hsErr := false, complete := true }

def finishErr : CallKind → A → A
  | .build, a => { a with buildErr := true }
  | .body, a => { a with hsErr := true }

def evalCond (c : Cond) (a : A) : Option Bool :=
  match c with
  | .complete => some a.complete
  | .hsErr => some a.hsErr
  | .quic => some true
  | .isClient => some true
  | .buildErr => some a.buildErr
  | .cancellable => none
  | .other _ => none

/-- Non-blocking statements; `none` = the Go runtime panics (close of a closed channel, unlock of an
unlocked mutex). -/
def simpleAct (x : Act) (a : A) : Option A :=
  match x with
  | .lock _ => some a
  | .unlock .hs => if a.holds then some { a with holds := false } else none
  | .unlock _ => some a
  | .dfr d => some { a with defers := d :: a.defers }
  | .setCancel => some { a with cancelSet := true }
  | .spawn => some a
  | .setHsErr => some { a with hsErr := true }
  | .close .blocked => if a.closedB then none else some { a with closedB := true }
  | .close .signal => if a.closedS then none else some { a with closedS := true }
  | .emit e => some { a with trace := a.trace ++ [e] }
  | .build => some a
  | .body => some a
  | .unsupported => some a

/-- Running the deferred calls releases `handshakeMutex` exactly when it is held. -/
def unwindOK : List Dfr → Bool → Bool
  | [], h => !h
  | .unlock .hs :: r, h => h && unwindOK r false
  | _ :: r, h => unwindOK r h

/-- Symbolic execution of a blocking call's script: it may fail at every point, optional
emissions go both ways, every emission must be admissible; HandshakeDone is never emitted from
inside a call (only by the skeleton, after completion). -/
def okScript (kind : CallKind) (cont : A → Bool) : List BItem → A → Bool
  | [], a => cont (finishErr kind a) && cont (finishOK kind a)
  | .emit e :: r, a =>
      cont (finishErr kind a) && (admissible a.trace e && e != .hd) &&
        okScript kind cont r { a with trace := a.trace ++ [e] }
  | .emitOpt e :: r, a =>
      cont (finishErr kind a) && okScript kind cont r a && (admissible a.trace e && e != .hd) &&
        okScript kind cont r { a with trace := a.trace ++ [e] }
  | .recv :: r, a => cont (finishErr kind a) && okScript kind cont r a

/-- The discipline predicate (see the module doc). -/
def ok (sys : Sys) : Prog → A → Bool
  | .ret, a => a.closedB && a.closedS && (a.hsErr || a.complete) && unwindOK a.defers a.holds
  | .panic, _ => true
  | .ite c t e, a =>
      match evalCond c a with
      | some true => ok sys t a
      | some false => ok sys e a
      | none => ok sys t a && ok sys e a
  | .act x k, a =>
      match x with
      | .lock .hs => !a.holds && ok sys k { a with holds := true }
      | .build => a.holds && !a.closedB && !a.closedS && okScript .build (fun a' => ok sys k a') sys.build a
      | .body => a.holds && !a.closedB && !a.closedS && !a.bodyDone &&
          okScript .body (fun a' => ok sys k a') sys.body { a with bodyDone := true }
      | .emit e =>
          !a.closedB && admissible a.trace e && (e != .hd || (a.complete && !a.hsErr)) &&
            ok sys k { a with trace := a.trace ++ [e] }
      | .close .blocked => !a.closedB && (a.hsErr || a.complete) && ok sys k { a with closedB := true }
      | .unsupported => false
      | x => match simpleAct x a with
          | some a' => ok sys k a'
          | none => false

/-- `Disc sys`: the skeleton satisfies the discipline from a fresh connection. -/
def Disc (sys : Sys) : Bool := ok sys sys.prog {}

/-! ## The transition system -/

inductive Phase | run | sendB | sendS | relock (err : Bool)
  deriving DecidableEq, Repr

inductive Gor
  | idle                                                      -- not launched
  | run (p : Prog)
  | call (kind : CallKind) (ph : Phase) (rem : List BItem) (k : Prog)
  | unwind                                                    -- returning: deferred calls run
  | done
  | crashed                                                   -- runtime panic: the process dies
  deriving DecidableEq, Repr

inductive CK | hd | stp
  deriving DecidableEq, Repr

/-- Where the calling thread is. -/
inductive Caller
  | idle
  | start            -- Start:   <-blockedc
  | sig (k : CK)     -- HandleData / SetTransportParameters:  <-signalc
  | blk (k : CK)     --                                        <-blockedc
  | hdLock           -- HandleData after the goroutine exited: handshakeMutex.Lock()
  | hdHeld           --   … holding it (post-handshake messages), then Unlock and return
  | drain            -- Close:   for range blockedc
  deriving DecidableEq, Repr

inductive Op | start | hd | stp | close | next
  deriving DecidableEq, Repr

structure St where
  caller : Caller := .idle
  g : Gor := .idle
  started : Bool := false     -- quic.started
  cancelled : Bool := false   -- handshakeCtx is done
  mutexC : Bool := false      -- the caller holds handshakeMutex
  a : A := {}
  seen : Nat := 0             -- events consumed by NextEvent
  postErr : Bool := false     -- HandleData stored a post-handshake error in handshakeErr
  ret : Option (Op × Bool) := none   -- the last call that returned, and whether it returned nil
  deriving DecidableEq, Repr

inductive Ch | a | b | c
  deriving DecidableEq, Repr

inductive Label
  | invStart (minVerOK : Bool)   -- Start; `minVerOK` = Config.MinVersion ≥ TLS 1.3
  | invHD (levelOK : Bool)       -- HandleData; `levelOK` = data is at the expected level
  | invSTP
  | invClose
  | invNext
  | gor (ch : Ch)                -- a step of the goroutine (ch resolves its nondeterminism)
  | syncB                        -- rendezvous on blockedc
  | syncS                        -- rendezvous on signalc
  | cancelSel                    -- a `select` in quicWaitForSignal takes `<-cancelc`
  | envCancel                    -- the context given to Start is cancelled
  | callerStep (b : Bool)        -- receive from a closed channel / mutex / return
  deriving DecidableEq, Repr

def Label.all : List Label :=
  [.invStart true, .invStart false, .invHD true, .invHD false, .invSTP, .invClose, .invNext,
   .gor .a, .gor .b, .gor .c, .syncB, .syncS, .cancelSel, .envCancel, .callerStep true, .callerStep false]

def retOf (s : St) (op : Op) (okv : Bool) : St := { s with caller := .idle, ret := some (op, okv) }

def ckOp : CK → Op
  | .hd => .hd
  | .stp => .stp

def gorStep (sys : Sys) (s : St) (ch : Ch) : Option St :=
  match s.g with
  | .run (.ite c t e) =>
      match evalCond c s.a with
      | some true => some { s with g := .run t }
      | some false => some { s with g := .run e }
      | none => some { s with g := .run (if ch = .a then t else e) }
  | .run (.act x k) =>
      match x with
      | .lock .hs =>
          if s.a.holds || s.mutexC then none
          else some { s with a := { s.a with holds := true }, g := .run k }
      | .build => some { s with g := .call .build .run sys.build k }
      | .body => some { s with a := { s.a with bodyDone := true }, g := .call .body .run sys.body k }
      | x => match simpleAct x s.a with
          | some a' => some { s with a := a', g := .run k }
          | none => some { s with g := .crashed }
  | .run .ret => some { s with g := .unwind }
  | .run .panic => some { s with g := .crashed }
  | .unwind =>
      match s.a.defers with
      | [] => some { s with g := .done }
      | .unlock .hs :: r =>
          if s.a.holds then some { s with a := { s.a with defers := r, holds := false } }
          else some { s with g := .crashed }
      | .cancel :: r => some { s with a := { s.a with defers := r }, cancelled := true }
      | _ :: r => some { s with a := { s.a with defers := r } }
  | .call kind .run rem k =>
      if ch = .c then some { s with a := finishErr kind s.a, g := .run k }
      else match rem with
        | [] => some { s with a := (if ch = .a then finishOK kind s.a else finishErr kind s.a), g := .run k }
        | .emit e :: r => some { s with a := { s.a with trace := s.a.trace ++ [e] }, g := .call kind .run r k }
        | .emitOpt e :: r =>
            if ch = .a then some { s with a := { s.a with trace := s.a.trace ++ [e] }, g := .call kind .run r k }
            else some { s with g := .call kind .run r k }
        | .recv :: r =>
            if ch = .a then some { s with g := .call kind .run r k }
            else some { s with a := { s.a with holds := false }, g := .call kind .sendB (.recv :: r) k }
  | .call kind (.relock err) rem k =>
      if s.mutexC || s.a.holds then none
      else if err then some { s with a := finishErr kind { s.a with holds := true }, g := .run k }
      else some { s with a := { s.a with holds := true }, g := .call kind .run rem k }
  | _ => none

def callerStep (s : St) (b : Bool) : Option St :=
  match s.caller with
  | .start => if s.a.closedB then some (retOf s .start (!s.a.hsErr)) else none
  | .sig k => if s.a.closedS then some { s with caller := .blk k } else none
  | .blk .hd => if s.a.closedB then some { s with caller := .hdLock } else none
  | .blk .stp => if s.a.closedB then some (retOf s .stp true) else none
  | .hdLock => if s.a.holds || s.mutexC then none else some { s with caller := .hdHeld, mutexC := true }
  | .hdHeld =>
      if s.a.hsErr || s.postErr then some (retOf { s with mutexC := false } .hd false)
      else if b then some (retOf { s with mutexC := false } .hd true)
      else some (retOf { s with mutexC := false, postErr := true } .hd false)
  | .drain => if s.a.closedB then some (retOf s .close (!(s.a.hsErr || s.postErr))) else none
  | .idle => none

def next (sys : Sys) (s : St) : Label → Option St
  | .invStart minVerOK =>
      if s.caller ≠ .idle then none
      else if s.started then some (retOf s .start false)
      else if !minVerOK then some (retOf { s with started := true } .start false)
      else some { s with started := true, caller := .start, g := .run sys.prog, ret := none }
  | .invHD levelOK =>
      if s.caller ≠ .idle || s.g = .idle then none
      else if !levelOK then some (retOf s .hd false)
      else some { s with caller := .sig .hd, ret := none }
  | .invSTP =>
      if s.caller ≠ .idle then none
      else if s.g = .idle then (if s.started then none else some (retOf s .stp true))
      else some { s with caller := .sig .stp, ret := none }
  | .invClose =>
      if s.caller ≠ .idle then none
      else if !s.a.cancelSet then some (retOf s .close true)
      else some { s with cancelled := true, caller := .drain, ret := none }
  | .invNext =>
      if s.caller ≠ .idle then none
      else some (retOf { s with seen := min (s.seen + 1) s.a.trace.length } .next true)
  | .gor ch => gorStep sys s ch
  | .syncB =>
      match s.g with
      | .call kind .sendB rem k =>
          if s.a.closedB then none else
          match s.caller with
          | .start => some (retOf { s with g := .call kind .sendS rem k } .start true)
          | .blk c => some (retOf { s with g := .call kind .sendS rem k } (ckOp c) true)
          | .drain => some { s with g := .call kind .sendS rem k }
          | _ => none
      | _ => none
  | .syncS =>
      match s.g with
      | .call kind .sendS rem k =>
          if s.a.closedS then none else
          match s.caller with
          | .sig c => some { s with g := .call kind (.relock false) rem k, caller := .blk c }
          | _ => none
      | _ => none
  | .cancelSel =>
      if !s.cancelled then none else
      match s.g with
      | .call kind .sendB rem k => some { s with g := .call kind (.relock true) rem k }
      | .call kind .sendS rem k => some { s with g := .call kind (.relock true) rem k }
      | _ => none
  | .envCancel => if s.cancelled then none else some { s with cancelled := true }
  | .callerStep b => callerStep s b

inductive Reachable (sys : Sys) : St → Prop
  | init : Reachable sys {}
  | step {s s' : St} (l : Label) : Reachable sys s → next sys s l = some s' → Reachable sys s'

/-! ## Executable exploration (used by the driver for trace inclusion) -/

def succs (sys : Sys) (s : St) : List St := Label.all.filterMap (next sys s)

def internalLabels : List Label :=
  [.gor .a, .gor .b, .gor .c, .syncB, .syncS, .cancelSel, .callerStep true, .callerStep false]

/-- close a set of states under the internal (non-invocation, non-environment) steps. -/
def closure (sys : Sys) : Nat → List St → List St → List St
  | 0, _, acc => acc
  | fuel + 1, frontier, acc =>
      let new := (frontier.flatMap fun s => internalLabels.filterMap (next sys s)).eraseDups.filter (fun s => !acc.contains s)
      if new.isEmpty then acc else closure sys fuel new (acc ++ new)

/-! ## Channel / mutex operation sequences of the API functions (regenerated; compared with what
the transition system above transcribes) -/

inductive COp
  | recv (c : Chan) | send (c : Chan) | recvCancel | rangeOver (c : Chan) | closeCh (c : Chan)
  | selBegin | selEnd
  | spawnHandshake | spawnOther | callCancel
  | lock (l : Lk) | unlock (l : Lk) | deferLock (l : Lk) | deferUnlock (l : Lk)
  deriving DecidableEq, Repr

/-- `Start`: launch the goroutine, then `<-blockedc`. -/
def expectedStartOps : List COp := [.spawnHandshake, .recv .blocked]
/-- `HandleData`: `<-signalc`, `<-blockedc`, and on the exited path `handshakeMutex.Lock(); defer Unlock()`. -/
def expectedHandleDataOps : List COp := [.recv .signal, .recv .blocked, .lock .hs, .deferUnlock .hs]
/-- `Close`: `cancel()`, then `for range blockedc`. -/
def expectedCloseOps : List COp := [.callCancel, .rangeOver .blocked]
/-- `SetTransportParameters` (when started): `<-signalc`, `<-blockedc`. -/
def expectedSetTPOps : List COp := [.recv .signal, .recv .blocked]
/-- `NextEvent` never blocks. -/
def expectedNextEventOps : List COp := []
/-- `quicWaitForSignal`: unlock, deferred re-lock, `select{blockedc<- | <-cancelc}`, `select{signalc<- | <-cancelc}`. -/
def expectedWaitOps : List COp :=
  [.unlock .hs, .deferLock .hs, .selBegin, .send .blocked, .recvCancel, .selEnd,
   .selBegin, .send .signal, .recvCancel, .selEnd]

/-! ## The ClientHello shape facts (session id, compatibility CCS) -/

/-- `ApplyPreset` / `makeClientHello`: the 32-byte legacy session id is generated only when
`quic == nil` (the guard is a regenerated shape fact). -/
def helloSessionId (guardedByQuicNil : Bool) (quic : Bool) (rand32 : List UInt8) : List UInt8 :=
  if guardedByQuicNil && quic then [] else rand32

/-- `sendDummyChangeCipherSpec`: number of CCS records written by the two call sites. -/
def dummyCCSCount (quicReturnsFirst : Bool) (quic : Bool) (callSites : Nat) : Nat :=
  if quicReturnsFirst && quic then 0 else min callSites 1

end Quic
