import UtlsVerif.Quic
/-!
# QuicLemmas — the inductive invariant of the `Quic` transition system and its preservation,
for every `Sys` that satisfies the discipline predicate `Disc`.
-/
set_option linter.unusedSimpArgs false
namespace Quic

/-! ## the event-order predicate -/

theorem orderFrom_append (seen t : List Ev) (e : Ev) :
    orderFrom seen (t ++ [e]) = (orderFrom seen t && admissible (seen ++ t) e) := by
  induction t generalizing seen with
  | nil => simp [orderFrom]
  | cons x r ih =>
    simp [orderFrom, ih, Bool.and_assoc]

theorem orderOK_append (t : List Ev) (e : Ev) : OrderOK (t ++ [e]) = (OrderOK t && admissible t e) := by
  simp [OrderOK, orderFrom_append]

/-! ## the discipline check along a script -/

theorem okScript_fail (kind : CallKind) (cont : A → Bool) (rem : List BItem) (a : A)
    (h : okScript kind cont rem a = true) : cont (finishErr kind a) = true := by
  cases rem with
  | nil => simp [okScript] at h; exact h.1
  | cons i r =>
    cases i <;> simp [okScript] at h
    · exact h.1.1
    · exact h.1.1.1
    · exact h.1

/-- the flags as the discipline check sees them inside a blocking call (mutex held) -/
def held (a : A) : A := { a with holds := true }

theorem held_of_holds (a : A) (h : a.holds = true) : held a = a := by
  cases a; simp_all [held]

theorem held_release (a : A) : held { a with holds := false } = held a := rfl
theorem held_idem (a : A) : held { a with holds := true } = held a := rfl
theorem held_trace (a : A) (t : List Ev) : held { a with trace := t } = { held a with trace := t } := rfl
theorem held_holds (a : A) : (held a).holds = true := rfl
theorem held_closedB (a : A) : (held a).closedB = a.closedB := rfl
theorem held_closedS (a : A) : (held a).closedS = a.closedS := rfl
theorem held_trace' (a : A) : (held a).trace = a.trace := rfl

/-! ## the invariant -/

def isSendS : Gor → Bool
  | .call _ .sendS _ _ => true
  | _ => false

/-- what the discipline guarantees about the goroutine's current position -/
def gorOK (sys : Sys) (s : St) : Prop :=
  match s.g with
  | .idle => s.a = {}
  | .run p => ok sys p s.a = true
  | .call kind ph rem k =>
      s.a.closedB = false ∧ s.a.closedS = false ∧
      okScript kind (fun a' => ok sys k a') rem (held s.a) = true ∧
      (s.a.holds = true ↔ ph = .run)
  | .unwind =>
      s.a.closedB = true ∧ s.a.closedS = true ∧ (s.a.hsErr || s.a.complete) = true ∧
      unwindOK s.a.defers s.a.holds = true
  | .done =>
      s.a.closedB = true ∧ s.a.closedS = true ∧ (s.a.hsErr || s.a.complete) = true ∧ s.a.holds = false
  | .crashed => True

structure Inv (sys : Sys) (s : St) : Prop where
  gor : gorOK sys s
  /-- the caller holds handshakeMutex exactly in `hdHeld`; never both -/
  mutexC : s.mutexC = true ↔ s.caller = .hdHeld
  excl : ¬ (s.a.holds = true ∧ s.mutexC = true)
  /-- HandleData reaches the mutex only after it saw `blockedc` closed -/
  lockClosed : (s.caller = .hdLock ∨ s.caller = .hdHeld) → s.a.closedB = true
  drainCancelled : s.caller = .drain → s.cancelled = true
  /-- between calls (and while waiting on `signalc`) the goroutine is parked in the second
  `select` of quicWaitForSignal, or it can no longer block -/
  parked : (s.caller = .idle ∨ ∃ k, s.caller = .sig k) → s.g ≠ .idle →
    isSendS s.g = true ∨ s.a.closedB = true ∨ s.cancelled = true ∨ s.g = .crashed
  /-- a caller waiting on `blockedc` never faces a goroutine waiting on `signalc` -/
  notSendS : (s.caller = .start ∨ ∃ k, s.caller = .blk k) → isSendS s.g = true → s.cancelled = true
  launched : s.caller ≠ .idle → s.g ≠ .idle
  /-- the goroutine exists only after Start -/
  fresh : s.started = false → s.g = .idle
  /-- HandshakeDone has been emitted only if the handshake completed -/
  hdComplete : s.a.trace.contains .hd = true → s.a.complete = true
  /-- `blockedc` is closed only once a result (error or completion) is recorded -/
  closedResult : s.a.closedB = true → (s.a.hsErr || s.a.complete) = true
  order : OrderOK s.a.trace = true

theorem inv_init (sys : Sys) : Inv sys {} := by
  constructor <;> simp [gorOK, OrderOK, orderFrom, isSendS]

/-! ## goroutine steps -/

theorem gorStep_frame (sys : Sys) (s s' : St) (ch : Ch) (h : gorStep sys s ch = some s') :
    s'.caller = s.caller ∧ s'.mutexC = s.mutexC ∧ s'.started = s.started ∧ s'.seen = s.seen ∧
    s'.ret = s.ret ∧ s'.postErr = s.postErr ∧ (s.cancelled = true → s'.cancelled = true) := by
  unfold gorStep at h
  split at h
  · split at h <;> simp at h <;> subst h <;> simp
  · split at h
    · split at h <;> simp at h; subst h; simp
    · simp at h; subst h; simp
    · simp at h; subst h; simp
    · split at h <;> simp at h <;> subst h <;> simp
  · simp at h; subst h; simp
  · simp at h; subst h; simp
  · split at h
    · simp at h; subst h; simp
    · split at h <;> simp at h <;> subst h <;> simp
    · simp at h; subst h; simp
    · simp at h; subst h; simp
  · split at h
    · simp at h; subst h; simp
    · split at h
      · simp at h; subst h; simp
      · simp at h; subst h; simp
      · split at h <;> simp at h <;> subst h <;> simp
      · split at h <;> simp at h <;> subst h <;> simp
  · split at h
    · simp at h
    · split at h <;> simp at h <;> subst h <;> simp
  · simp at h

theorem gorStep_keeps (sys : Sys) (s s' : St) (ch : Ch) (hg : gorOK sys s)
    (hex : ¬ (s.a.holds = true ∧ s.mutexC = true)) (ho : OrderOK s.a.trace = true)
    (h : gorStep sys s ch = some s') :
    gorOK sys s' ∧ s'.g ≠ .idle ∧ isSendS s'.g = false ∧ (s.a.closedB = true → s'.a.closedB = true) ∧
    OrderOK s'.a.trace = true ∧ ¬ (s'.a.holds = true ∧ s.mutexC = true) ∧ s.g ≠ .idle ∧ isSendS s.g = false := by
  unfold gorStep at h
  split at h
  · -- ite
    rename_i c t e hgs
    simp only [gorOK, hgs, ok] at hg
    split at h <;> simp at h <;> subst h <;> simp_all [gorOK, isSendS]
    split <;> simp_all
  · -- act
    rename_i x k hgs
    simp only [gorOK, hgs] at hg
    split at h
    · -- lock hs
      simp only [ok] at hg
      split at h <;> simp at h
      subst h
      simp_all [gorOK, isSendS]
    · -- build
      simp only [ok, Bool.and_eq_true, Bool.not_eq_true'] at hg
      simp at h; subst h
      obtain ⟨⟨⟨h1, h2⟩, h3⟩, h4⟩ := hg
      refine ⟨?_, by simp, by simp [isSendS], by simp, ho, by simpa using hex, by simp [hgs], by simp [hgs, isSendS]⟩
      simp only [gorOK]
      exact ⟨h2, h3, by rw [held_of_holds _ h1]; exact h4, by simp [h1]⟩
    · -- body
      simp only [ok, Bool.and_eq_true, Bool.not_eq_true'] at hg
      simp at h; subst h
      obtain ⟨⟨⟨⟨h1, h2⟩, h3⟩, h5⟩, h4⟩ := hg
      refine ⟨?_, by simp, by simp [isSendS], by simp, ho, by simpa using hex, by simp [hgs], by simp [hgs, isSendS]⟩
      simp only [gorOK]
      refine ⟨h2, h3, ?_, by simp [h1]⟩
      have : held { s.a with bodyDone := true } = { s.a with bodyDone := true } := held_of_holds _ h1
      rw [this]; exact h4
    · -- simple
      rename_i x' hx1 hx2 hx3
      have hs : s.g ≠ .idle ∧ isSendS s.g = false := by simp [hgs, isSendS]
      cases x with
      | lock l =>
        cases l <;> first | (exact absurd rfl hx1) | (simp [simpleAct] at h; subst h; simp_all [ok, simpleAct, gorOK, isSendS])
      | unlock l =>
        cases l
        · simp only [ok, simpleAct] at hg
          simp only [simpleAct] at h
          by_cases hh : s.a.holds = true
          · simp only [hh, if_true] at h hg
            simp at h; subst h
            exact ⟨by simpa [gorOK] using hg, by simp, by simp [isSendS], by simp, ho, by simp, hs.1, hs.2⟩
          · simp [hh] at hg
        all_goals (simp [simpleAct] at h; subst h; simp_all [ok, simpleAct, gorOK, isSendS])
      | dfr d => simp [simpleAct] at h; subst h; simp_all [ok, simpleAct, gorOK, isSendS]
      | setCancel => simp [simpleAct] at h; subst h; simp_all [ok, simpleAct, gorOK, isSendS]
      | spawn => simp [simpleAct] at h; subst h; simp_all [ok, simpleAct, gorOK, isSendS]
      | build => exact absurd rfl hx2
      | body => exact absurd rfl hx3
      | setHsErr => simp [simpleAct] at h; subst h; simp_all [ok, simpleAct, gorOK, isSendS]
      | close c =>
        cases c
        · simp only [ok, simpleAct] at hg
          simp only [simpleAct] at h
          by_cases hh : s.a.closedB = true
          · simp [hh] at hg
          · simp only [hh] at h hg
            simp at h; subst h
            have hg2 : ok sys k { s.a with closedB := true } = true := by
              have := hg; simp at this; exact this.2
            exact ⟨by simpa [gorOK] using hg2, by simp, by simp [isSendS], by simp, ho, by simpa using hex, hs.1, hs.2⟩
        · simp only [ok, simpleAct] at hg
          simp only [simpleAct] at h
          by_cases hh : s.a.closedS = true
          · simp [hh] at hg
          · simp only [hh] at h hg
            simp at h; subst h
            exact ⟨by simpa [gorOK] using hg, by simp, by simp [isSendS], by simp, ho, by simpa using hex, hs.1, hs.2⟩
      | emit e =>
        simp [simpleAct] at h; subst h
        simp only [ok, Bool.and_eq_true] at hg
        obtain ⟨⟨⟨h1, h2⟩, h3⟩, h4⟩ := hg
        exact ⟨by simpa [gorOK] using h4, by simp, by simp [isSendS], by simp, by simp [orderOK_append, ho, h2],
          by simpa using hex, hs.1, hs.2⟩
      | unsupported => simp [ok] at hg
  · -- ret
    rename_i hgs
    simp only [gorOK, hgs, ok, Bool.and_eq_true] at hg
    simp at h; subst h
    obtain ⟨⟨⟨h1, h2⟩, h3⟩, h4⟩ := hg
    exact ⟨by simp [gorOK, h1, h2, h4]; simpa using h3, by simp, by simp [isSendS], by simp, ho, by simpa using hex, by simp [hgs], by simp [hgs, isSendS]⟩
  · -- panic
    rename_i hgs
    simp at h; subst h
    exact ⟨by simp [gorOK], by simp, by simp [isSendS], by simp, ho, by simpa using hex, by simp [hgs], by simp [hgs, isSendS]⟩
  · -- unwind
    rename_i hgs
    simp only [gorOK, hgs] at hg
    obtain ⟨h1, h2, h3, h4⟩ := hg
    have hs : s.g ≠ .idle ∧ isSendS s.g = false := by simp [hgs, isSendS]
    split at h
    · rename_i hd
      simp at h; subst h
      simp only [hd, unwindOK] at h4
      exact ⟨by simp [gorOK, h1, h2]; exact ⟨by simpa using h3, by simpa using h4⟩, by simp, by simp [isSendS], by simp, ho, by simpa using hex, hs.1, hs.2⟩
    · rename_i r hd
      simp only [hd, unwindOK, Bool.and_eq_true] at h4
      simp only [h4.1, if_true] at h
      simp at h; subst h
      exact ⟨by simp [gorOK, hgs, h1, h2, h4.2]; simpa using h3, by simp [hgs], by simp [hgs, isSendS], by simp, ho, by simp, hs.1, hs.2⟩
    · rename_i r hd
      simp at h; subst h
      simp only [hd, unwindOK] at h4
      exact ⟨by simp [gorOK, hgs, h1, h2, h4]; simpa using h3, by simp [hgs], by simp [hgs, isSendS], by simp, ho, by simpa using hex, hs.1, hs.2⟩
    · rename_i d r hn1 hn2 hd
      simp at h; subst h
      have h4' : unwindOK r s.a.holds = true := by
        rw [hd] at h4
        cases d with
        | unlock l => cases l <;> first | (exact absurd rfl hn1) | simpa [unwindOK] using h4
        | cancel => exact absurd rfl hn2
        | other => simpa [unwindOK] using h4
      exact ⟨by simp [gorOK, hgs, h1, h2, h4']; simpa using h3, by simp [hgs], by simp [hgs, isSendS], by simp, ho, by simpa using hex, hs.1, hs.2⟩
  · -- call, run phase
    rename_i kind rem k hgs
    simp only [gorOK, hgs] at hg
    obtain ⟨h1, h2, h3, h4⟩ := hg
    have hh : s.a.holds = true := by simpa using h4
    rw [held_of_holds _ hh] at h3
    have hs : s.g ≠ .idle ∧ isSendS s.g = false := by simp [hgs, isSendS]
    have hfail := okScript_fail _ _ _ _ h3
    have hexF : ∀ kd, ¬ ((finishErr kd s.a).holds = true ∧ s.mutexC = true) := by
      intro kd; cases kd <;> simpa [finishErr] using hex
    have hexO : ∀ kd, ¬ ((finishOK kd s.a).holds = true ∧ s.mutexC = true) := by
      intro kd; cases kd <;> simpa [finishOK] using hex
    have hclF : ∀ kd, s.a.closedB = true → (finishErr kd s.a).closedB = true := by
      intro kd; cases kd <;> simp [finishErr]
    have htrF : ∀ kd, (finishErr kd s.a).trace = s.a.trace := by
      intro kd; cases kd <;> simp [finishErr]
    have htrO : ∀ kd, (finishOK kd s.a).trace = s.a.trace := by
      intro kd; cases kd <;> simp [finishOK]
    split at h
    · simp at h; subst h
      exact ⟨by simpa [gorOK] using hfail, by simp, by simp [isSendS], by simp [h1], by simp [htrF, ho], by simpa using hexF kind, hs.1, hs.2⟩
    · split at h
      · -- []
        simp at h; subst h
        simp only [okScript, Bool.and_eq_true] at h3
        by_cases hc : ch = .a
        · simp only [hc, if_true]
          exact ⟨by simpa [gorOK] using h3.2, by simp, by simp [isSendS], by simp [h1], by simp [htrO, ho], by simpa using hexO kind, hs.1, hs.2⟩
        · simp only [hc, if_false]
          exact ⟨by simpa [gorOK] using h3.1, by simp, by simp [isSendS], by simp [h1], by simp [htrF, ho], by simpa using hexF kind, hs.1, hs.2⟩
      · -- emit
        rename_i e r
        simp at h; subst h
        simp only [okScript, Bool.and_eq_true] at h3
        refine ⟨?_, by simp, by simp [isSendS], by simp [h1], by simp [orderOK_append, ho, h3.1.2], by simpa using hex, hs.1, hs.2⟩
        simp only [gorOK]
        refine ⟨h1, h2, ?_, by simp [hh]⟩
        have : held { s.a with trace := s.a.trace ++ [e] } = { s.a with trace := s.a.trace ++ [e] } := held_of_holds _ hh
        rw [this]; exact h3.2
      · -- emitOpt
        rename_i e r
        simp only [okScript, Bool.and_eq_true] at h3
        split at h
        · simp at h; subst h
          refine ⟨?_, by simp, by simp [isSendS], by simp [h1], by simp [orderOK_append, ho, h3.1.2], by simpa using hex, hs.1, hs.2⟩
          simp only [gorOK]
          refine ⟨h1, h2, ?_, by simp [hh]⟩
          have : held { s.a with trace := s.a.trace ++ [e] } = { s.a with trace := s.a.trace ++ [e] } := held_of_holds _ hh
          rw [this]; exact h3.2
        · simp at h; subst h
          refine ⟨?_, by simp, by simp [isSendS], by simp [h1], ho, by simpa using hex, hs.1, hs.2⟩
          simp only [gorOK]
          exact ⟨h1, h2, by rw [held_of_holds _ hh]; exact h3.1.1.2, by simp [hh]⟩
      · -- recv
        rename_i r
        split at h
        · simp at h; subst h
          simp only [okScript, Bool.and_eq_true] at h3
          refine ⟨?_, by simp, by simp [isSendS], by simp [h1], ho, by simpa using hex, hs.1, hs.2⟩
          simp only [gorOK]
          exact ⟨h1, h2, by rw [held_of_holds _ hh]; exact h3.2, by simp [hh]⟩
        · simp at h; subst h
          refine ⟨?_, by simp, by simp [isSendS], by simp [h1], ho, by simp, hs.1, hs.2⟩
          simp only [gorOK]
          exact ⟨h1, h2, by rw [held_release]; rw [held_of_holds _ hh]; exact h3, by simp⟩
  · -- call, relock
    rename_i kind err rem k hgs
    simp only [gorOK, hgs] at hg
    obtain ⟨h1, h2, h3, h4⟩ := hg
    have hs : s.g ≠ .idle ∧ isSendS s.g = false := by simp [hgs, isSendS]
    split at h
    · simp at h
    · rename_i hm
      simp only [Bool.or_eq_true, not_or, Bool.not_eq_true] at hm
      have hfail := okScript_fail _ _ _ _ h3
      split at h
      · simp at h; subst h
        refine ⟨by simpa [gorOK, held] using hfail, by simp, by simp [isSendS], by cases kind <;> simp [finishErr, h1],
          by cases kind <;> simp [finishErr, ho], by simp [hm.1], hs.1, hs.2⟩
      · simp at h; subst h
        refine ⟨?_, by simp, by simp [isSendS], by simp [h1], ho, by simp [hm.1], hs.1, hs.2⟩
        simp only [gorOK]
        exact ⟨h1, h2, by rw [held_idem]; exact h3, by simp⟩
  · simp at h

theorem contains_snoc (t : List Ev) (e x : Ev) : (t ++ [e]).contains x = (t.contains x || x == e) := by
  by_cases h : x = e <;> simp [List.contains_eq_mem, h]

theorem gorStep_flags (sys : Sys) (s s' : St) (ch : Ch) (hg : gorOK sys s)
    (h1 : s.a.trace.contains .hd = true → s.a.complete = true)
    (h2 : s.a.closedB = true → (s.a.hsErr || s.a.complete) = true)
    (h : gorStep sys s ch = some s') :
    (s'.a.trace.contains .hd = true → s'.a.complete = true) ∧
    (s'.a.closedB = true → (s'.a.hsErr || s'.a.complete) = true) := by
  unfold gorStep at h
  split at h
  · split at h <;> simp at h <;> subst h <;> exact ⟨h1, h2⟩
  · rename_i x k hgs
    simp only [gorOK, hgs] at hg
    split at h
    · split at h <;> simp at h; subst h; exact ⟨h1, h2⟩
    · simp at h; subst h; exact ⟨h1, h2⟩
    · simp at h; subst h; exact ⟨h1, h2⟩
    · rename_i x' hx1 hx2 hx3
      cases x with
      | lock l => simp [simpleAct] at h; subst h; exact ⟨h1, h2⟩
      | unlock l =>
        cases l <;> simp only [simpleAct] at h
        · by_cases hh : s.a.holds = true
          · simp [hh] at h; subst h; exact ⟨by simpa using h1, by simpa using h2⟩
          · simp [hh] at h; subst h; exact ⟨by simpa using h1, by simpa using h2⟩
        all_goals (simp at h; subst h; exact ⟨h1, h2⟩)
      | dfr d => simp [simpleAct] at h; subst h; exact ⟨h1, h2⟩
      | setCancel => simp [simpleAct] at h; subst h; exact ⟨h1, h2⟩
      | spawn => simp [simpleAct] at h; subst h; exact ⟨h1, h2⟩
      | build => exact absurd rfl hx2
      | body => exact absurd rfl hx3
      | setHsErr => simp [simpleAct] at h; subst h; exact ⟨by simpa using h1, by simp⟩
      | close c =>
        cases c
        · simp only [ok, simpleAct] at hg
          simp only [simpleAct] at h
          by_cases hh : s.a.closedB = true
          · simp [hh] at hg
          · simp only [hh] at h
            simp at h; subst h
            simp [hh] at hg
            exact ⟨by simpa using h1, by simpa using hg.1⟩
        · simp only [simpleAct] at h
          by_cases hh : s.a.closedS = true
          · simp [hh] at h; subst h; exact ⟨by simpa using h1, by simpa using h2⟩
          · simp [hh] at h; subst h; exact ⟨by simpa using h1, by simpa using h2⟩
      | emit e =>
        simp [simpleAct] at h; subst h
        simp only [ok, Bool.and_eq_true] at hg
        obtain ⟨⟨⟨g1, g2⟩, g3⟩, g4⟩ := hg
        refine ⟨?_, by simpa using h2⟩
        simp only [contains_snoc, Bool.or_eq_true]
        rintro (hc | hc)
        · exact h1 hc
        · have : e = .hd := by have hc' := hc; simp at hc'; exact hc'.symm
          subst this; have := g3; simp at this; exact this.1
      | unsupported => simp [ok] at hg
  · simp at h; subst h; exact ⟨h1, h2⟩
  · simp at h; subst h; exact ⟨h1, h2⟩
  · split at h
    · simp at h; subst h; exact ⟨h1, h2⟩
    · split at h <;> simp at h <;> subst h <;> exact ⟨by simpa using h1, by simpa using h2⟩
    · simp at h; subst h; exact ⟨by simpa using h1, by simpa using h2⟩
    · simp at h; subst h; exact ⟨by simpa using h1, by simpa using h2⟩
  · rename_i kind rem k hgs
    simp only [gorOK, hgs] at hg
    obtain ⟨c1, c2, c3, c4⟩ := hg
    have hh : s.a.holds = true := by simpa using c4
    rw [held_of_holds _ hh] at c3
    have fE : ∀ kd, ((finishErr kd s.a).trace.contains .hd = true → (finishErr kd s.a).complete = true) ∧
        ((finishErr kd s.a).closedB = true → ((finishErr kd s.a).hsErr || (finishErr kd s.a).complete) = true) := by
      intro kd; cases kd <;> simp [finishErr, c1] <;> simpa using h1
    have fO : ∀ kd, ((finishOK kd s.a).trace.contains .hd = true → (finishOK kd s.a).complete = true) ∧
        ((finishOK kd s.a).closedB = true → ((finishOK kd s.a).hsErr || (finishOK kd s.a).complete) = true) := by
      intro kd; cases kd <;> simp [finishOK, c1] <;> simpa using h1
    split at h
    · simp at h; subst h; exact fE kind
    · split at h
      · simp at h; subst h
        by_cases hc : ch = .a
        · simp only [hc, if_true]; exact fO kind
        · simp only [hc, if_false]; exact fE kind
      · rename_i e r
        simp at h; subst h
        simp only [okScript, Bool.and_eq_true] at c3
        refine ⟨?_, by simpa using h2⟩
        simp only [contains_snoc, Bool.or_eq_true]
        rintro (hc | hc)
        · exact h1 hc
        · have : e = .hd := by have hc' := hc; simp at hc'; exact hc'.symm
          subst this; simp at c3
      · rename_i e r
        simp only [okScript, Bool.and_eq_true] at c3
        split at h
        · simp at h; subst h
          refine ⟨?_, by simpa using h2⟩
          simp only [contains_snoc, Bool.or_eq_true]
          rintro (hc | hc)
          · exact h1 hc
          · have : e = .hd := by have hc' := hc; simp at hc'; exact hc'.symm
            subst this; simp at c3
        · simp at h; subst h; exact ⟨h1, h2⟩
      · split at h <;> simp at h <;> subst h <;> exact ⟨by simpa using h1, by simpa using h2⟩
  · rename_i kind err rem k hgs
    simp only [gorOK, hgs] at hg
    obtain ⟨c1, c2, c3, c4⟩ := hg
    split at h
    · simp at h
    · split at h
      · simp at h; subst h
        cases kind <;> simp [finishErr, c1] <;> simpa using h1
      · simp at h; subst h; exact ⟨by simpa using h1, by simpa using h2⟩
  · simp at h

theorem inv_gor (sys : Sys) (s s' : St) (ch : Ch) (hi : Inv sys s) (h : gorStep sys s ch = some s') : Inv sys s' := by
  obtain ⟨k1, k2, k3, k4, k5, k6, k7, k8⟩ := gorStep_keeps sys s s' ch hi.gor hi.excl hi.order h
  obtain ⟨f1, f2, f3, f4, f5, f6, f7⟩ := gorStep_frame sys s s' ch h
  constructor
  · exact k1
  · rw [f1, f2]; exact hi.mutexC
  · rw [f2]; exact k6
  · rw [f1]; intro hc; exact k4 (hi.lockClosed hc)
  · rw [f1]; intro hc; exact f7 (hi.drainCancelled hc)
  · rw [f1]; intro hc _
    rcases hi.parked hc k7 with h1 | h1 | h1 | h1
    · rw [k8] at h1; cases h1
    · exact Or.inr (Or.inl (k4 h1))
    · exact Or.inr (Or.inr (Or.inl (f7 h1)))
    · simp [gorStep, h1] at h
  · rw [f1]; intro _ hc; rw [k3] at hc; cases hc
  · intro _; exact k2
  · rw [f3]; intro hc; exact absurd (hi.fresh hc) k7
  · exact (gorStep_flags sys s s' ch hi.gor hi.hdComplete hi.closedResult h).1
  · exact (gorStep_flags sys s s' ch hi.gor hi.hdComplete hi.closedResult h).2
  · exact k5

theorem gorOK_congr (sys : Sys) (s s' : St) (h1 : s'.g = s.g) (h2 : s'.a = s.a) (h : gorOK sys s) : gorOK sys s' := by
  unfold gorOK at *; rw [h1, h2]; exact h

theorem gorOK_sendS_open (sys : Sys) (s : St) (h : gorOK sys s) (hs : isSendS s.g = true) :
    s.a.closedB = false ∧ s.a.closedS = false := by
  unfold gorOK at h
  split at h <;> rename_i hg <;> simp [isSendS, hg] at hs
  exact ⟨h.1, h.2.1⟩

theorem inv_step (sys : Sys) (hd : Disc sys = true) (s s' : St) (l : Label) (hi : Inv sys s)
    (h : next sys s l = some s') : Inv sys s' := by
  cases l with
  | gor ch => exact inv_gor sys s s' ch hi h
  | invStart b =>
    simp only [next] at h
    obtain ⟨i1, i2, i3, i4, i5, i6, i7, i8, i10, i11, i12, i9⟩ := hi
    split at h
    · simp at h
    · rename_i hc
      simp at hc
      split at h
      · simp at h; subst h
        constructor
        · exact gorOK_congr _ _ _ rfl rfl i1
        all_goals simp_all [retOf]
      · split at h
        · simp at h; subst h
          constructor
          · exact gorOK_congr _ _ _ rfl rfl i1
          all_goals simp_all [retOf]
        · simp at h; subst h
          rename_i hst hmv
          have hgi : s.g = .idle := i10 (by simpa using hst)
          have ha : s.a = {} := by simpa [gorOK, hgi] using i1
          constructor
          · simp [gorOK, ha]; exact hd
          all_goals simp_all [isSendS]
  | invHD b =>
    simp only [next] at h
    obtain ⟨i1, i2, i3, i4, i5, i6, i7, i8, i10, i11, i12, i9⟩ := hi
    split at h
    · simp at h
    · rename_i hc
      simp at hc
      split at h <;> simp at h <;> subst h
      · constructor
        · exact gorOK_congr _ _ _ rfl rfl i1
        all_goals simp_all [retOf]
      · constructor
        · exact gorOK_congr _ _ _ rfl rfl i1
        all_goals simp_all [retOf]
  | invSTP =>
    simp only [next] at h
    obtain ⟨i1, i2, i3, i4, i5, i6, i7, i8, i10, i11, i12, i9⟩ := hi
    split at h
    · simp at h
    · rename_i hc
      simp at hc
      split at h
      · split at h <;> simp at h; subst h
        constructor
        · exact gorOK_congr _ _ _ rfl rfl i1
        all_goals simp_all [retOf]
      · simp at h; subst h
        constructor
        · exact gorOK_congr _ _ _ rfl rfl i1
        all_goals simp_all [retOf]
  | invClose =>
    simp only [next] at h
    obtain ⟨i1, i2, i3, i4, i5, i6, i7, i8, i10, i11, i12, i9⟩ := hi
    split at h
    · simp at h
    · rename_i hc
      simp at hc
      split at h <;> simp at h <;> subst h
      · constructor
        · exact gorOK_congr _ _ _ rfl rfl i1
        all_goals simp_all [retOf]
      · rename_i hcs
        have hgi : s.g ≠ .idle := by
          intro hg
          have ha : s.a = {} := by simpa [gorOK, hg] using i1
          simp [ha] at hcs
        constructor
        · exact gorOK_congr _ _ _ rfl rfl i1
        all_goals simp_all [retOf]
  | invNext =>
    simp only [next] at h
    obtain ⟨i1, i2, i3, i4, i5, i6, i7, i8, i10, i11, i12, i9⟩ := hi
    split at h
    · simp at h
    · rename_i hc
      simp at hc
      simp at h; subst h
      constructor
      · exact gorOK_congr _ _ _ rfl rfl i1
      all_goals simp_all [retOf]
  | envCancel =>
    simp only [next] at h
    obtain ⟨i1, i2, i3, i4, i5, i6, i7, i8, i10, i11, i12, i9⟩ := hi
    split at h <;> simp at h; subst h
    constructor
    · exact gorOK_congr _ _ _ rfl rfl i1
    all_goals simp_all
  | cancelSel =>
    simp only [next] at h
    obtain ⟨i1, i2, i3, i4, i5, i6, i7, i8, i10, i11, i12, i9⟩ := hi
    split at h
    · simp at h
    · rename_i hcn
      simp at hcn
      split at h <;> simp at h <;> subst h
      · rename_i kind rem k hgs
        constructor
        · simp only [gorOK, hgs] at i1 ⊢; simpa using i1
        all_goals simp_all [isSendS]
      · rename_i kind rem k hgs
        constructor
        · simp only [gorOK, hgs] at i1 ⊢; simpa using i1
        all_goals simp_all [isSendS]
  | syncB =>
    simp only [next] at h
    obtain ⟨i1, i2, i3, i4, i5, i6, i7, i8, i10, i11, i12, i9⟩ := hi
    split at h
    · rename_i kind rem k hgs
      split at h
      · simp at h
      · split at h <;> simp at h <;> subst h
        all_goals
          constructor
          · simp only [gorOK, hgs, retOf] at i1 ⊢; simpa using i1
          all_goals simp_all [isSendS, retOf]
    · simp at h
  | syncS =>
    simp only [next] at h
    obtain ⟨i1, i2, i3, i4, i5, i6, i7, i8, i10, i11, i12, i9⟩ := hi
    split at h
    · rename_i kind rem k hgs
      split at h
      · simp at h
      · split at h <;> simp at h; subst h
        constructor
        · simp only [gorOK, hgs] at i1 ⊢; simpa using i1
        all_goals simp_all [isSendS]
    · simp at h
  | callerStep b =>
    simp only [next, callerStep] at h
    obtain ⟨i1, i2, i3, i4, i5, i6, i7, i8, i10, i11, i12, i9⟩ := hi
    split at h
    · split at h <;> simp at h; subst h
      constructor
      · exact gorOK_congr _ _ _ rfl rfl i1
      all_goals simp_all [retOf]
    · split at h <;> simp at h; subst h
      rename_i hcs
      have hno : isSendS s.g = true → False := fun hs => by
        have := (gorOK_sendS_open sys s i1 hs).2; simp [hcs] at this
      constructor
      · exact gorOK_congr _ _ _ rfl rfl i1
      all_goals simp_all [retOf]
    · split at h <;> simp at h; subst h
      constructor
      · exact gorOK_congr _ _ _ rfl rfl i1
      all_goals simp_all [retOf]
    · split at h <;> simp at h; subst h
      constructor
      · exact gorOK_congr _ _ _ rfl rfl i1
      all_goals simp_all [retOf]
    · split at h <;> simp at h; subst h
      constructor
      · exact gorOK_congr _ _ _ rfl rfl i1
      all_goals simp_all [retOf]
    · split at h
      · simp at h; subst h
        constructor
        · exact gorOK_congr _ _ _ rfl rfl i1
        all_goals simp_all [retOf]
      · split at h <;> simp at h <;> subst h
        all_goals
          constructor
          · exact gorOK_congr _ _ _ rfl rfl i1
          all_goals simp_all [retOf]
    · split at h <;> simp at h; subst h
      constructor
      · exact gorOK_congr _ _ _ rfl rfl i1
      all_goals simp_all [retOf]
    · simp at h


theorem inv_reachable (sys : Sys) (hd : Disc sys = true) (s : St) (hr : Reachable sys s) : Inv sys s := by
  induction hr with
  | init => exact inv_init sys
  | step l _ hn ih => exact inv_step sys hd _ _ l ih hn

/-! ## progress -/

/-- the goroutine can take a step of its own -/
def gorCanRun : Gor → Bool
  | .run _ => true
  | .unwind => true
  | .call _ .run _ _ => true
  | .call _ (.relock _) _ _ => true
  | _ => false

theorem gorStep_enabled (sys : Sys) (s : St) (hg : gorOK sys s) (hm : s.mutexC = false)
    (hc : gorCanRun s.g = true) : ∃ s', gorStep sys s .c = some s' := by
  unfold gorStep
  split
  · split <;> exact ⟨_, rfl⟩
  · rename_i x k hgs
    split
    · simp only [gorOK, hgs, ok, Bool.and_eq_true] at hg
      have : s.a.holds = false := by simpa using hg.1
      simp [this, hm]
    · exact ⟨_, rfl⟩
    · exact ⟨_, rfl⟩
    · split <;> exact ⟨_, rfl⟩
  · exact ⟨_, rfl⟩
  · exact ⟨_, rfl⟩
  · split
    · exact ⟨_, rfl⟩
    · split <;> exact ⟨_, rfl⟩
    · exact ⟨_, rfl⟩
    · exact ⟨_, rfl⟩
  · simp
  · rename_i kind err rem k hgs
    simp only [gorOK, hgs] at hg
    have : s.a.holds = false := by
      cases hh : s.a.holds
      · rfl
      · have := hg.2.2.2.mp hh; cases this
    simp [this, hm]
    split <;> exact ⟨_, rfl⟩
  · rename_i h1 h2 h3 h4 h5 h6 h7
    cases hgs : s.g with
    | idle => simp [hgs, gorCanRun] at hc
    | run p =>
      cases p with
      | ret => exact absurd hgs (h3)
      | panic => exact absurd hgs (h4)
      | act x k => exact absurd hgs (h2 x k)
      | ite c t e => exact absurd hgs (h1 c t e)
    | call kind ph rem k =>
      cases ph with
      | run => exact absurd hgs (h6 kind rem k)
      | relock e => exact absurd hgs (h7 kind e rem k)
      | sendB => simp [hgs, gorCanRun] at hc
      | sendS => simp [hgs, gorCanRun] at hc
    | unwind => exact absurd hgs h5
    | done => simp [hgs, gorCanRun] at hc
    | crashed => simp [hgs, gorCanRun] at hc
/-- case analysis of the goroutine's position -/
theorem gor_cases (g : Gor) :
    g = .idle ∨ g = .done ∨ g = .crashed ∨ gorCanRun g = true ∨
    (∃ kd rem k, g = .call kd .sendB rem k) ∨ (∃ kd rem k, g = .call kd .sendS rem k) := by
  cases g with
  | call kd ph rem k => cases ph <;> simp [gorCanRun]
  | _ => simp [gorCanRun]

theorem progress (sys : Sys) (s : St) (hi : Inv sys s) (hb : s.caller ≠ .idle) (hcr : s.g ≠ .crashed) :
    ∃ l, l ∈ internalLabels ∧ ∃ s', next sys s l = some s' := by
  have hl := hi.launched hb
  have gorRun : s.mutexC = false → gorCanRun s.g = true → ∃ l, l ∈ internalLabels ∧ ∃ s', next sys s l = some s' := by
    intro hm hc
    obtain ⟨s', hs'⟩ := gorStep_enabled sys s hi.gor hm hc
    exact ⟨.gor .c, by simp [internalLabels], s', by simpa [next] using hs'⟩
  have cstep : ∀ b, (callerStep s b).isSome = true → ∃ l, l ∈ internalLabels ∧ ∃ s', next sys s l = some s' := by
    intro b h
    obtain ⟨s', hs'⟩ := Option.isSome_iff_exists.mp h
    exact ⟨.callerStep b, by cases b <;> simp [internalLabels], s', by simpa [next] using hs'⟩
  have lstep : ∀ l, l ∈ internalLabels → (next sys s l).isSome = true → ∃ l, l ∈ internalLabels ∧ ∃ s', next sys s l = some s' := by
    intro l hl h
    obtain ⟨s', hs'⟩ := Option.isSome_iff_exists.mp h
    exact ⟨l, hl, s', hs'⟩
  have mfalse : s.caller ≠ .hdHeld → s.mutexC = false := by
    intro h; cases hm : s.mutexC
    · rfl
    · exact absurd (hi.mutexC.mp hm) h
  have doneClosed : s.g = .done → s.a.closedB = true ∧ s.a.closedS = true ∧ s.a.holds = false := by
    intro hg; have := hi.gor; simp only [gorOK, hg] at this; exact ⟨this.1, this.2.1, this.2.2.2⟩
  have callOpen : ∀ kd ph rem k, s.g = .call kd ph rem k → s.a.closedB = false ∧ s.a.closedS = false := by
    intro kd ph rem k hg; have := hi.gor; simp only [gorOK, hg] at this; exact ⟨this.1, this.2.1⟩
  have cancelStep : s.cancelled = true → ((∃ kd rem k, s.g = .call kd .sendB rem k) ∨ (∃ kd rem k, s.g = .call kd .sendS rem k)) →
      ∃ l, l ∈ internalLabels ∧ ∃ s', next sys s l = some s' := by
    intro hc hg
    refine lstep .cancelSel (by simp [internalLabels]) ?_
    rcases hg with ⟨kd, rem, k, hg⟩ | ⟨kd, rem, k, hg⟩ <;> simp [next, hc, hg]
  cases hcl : s.caller with
  | idle => exact absurd hcl hb
  | hdHeld =>
    by_cases h1 : (s.a.hsErr || s.postErr) = true
    · exact cstep true (by simp [callerStep, hcl, h1])
    · exact cstep true (by simp only [callerStep, hcl, h1]; simp)
  | start =>
    have hm := mfalse (by simp [hcl])
    by_cases hcb : s.a.closedB = true
    · exact cstep true (by simp [callerStep, hcl, hcb])
    · rcases gor_cases s.g with h | h | h | h | ⟨kd, rem, k, h⟩ | ⟨kd, rem, k, h⟩
      · exact absurd h hl
      · exact absurd (doneClosed h).1 hcb
      · exact absurd h hcr
      · exact gorRun hm h
      · exact lstep .syncB (by simp [internalLabels]) (by simp [next, h, hcl, hcb])
      · exact cancelStep (hi.notSendS (Or.inl hcl) (by simp [h, isSendS])) (Or.inr ⟨kd, rem, k, h⟩)
  | blk c =>
    have hm := mfalse (by simp [hcl])
    by_cases hcb : s.a.closedB = true
    · cases c
      · exact cstep true (by simp [callerStep, hcl, hcb])
      · exact cstep true (by simp [callerStep, hcl, hcb])
    · rcases gor_cases s.g with h | h | h | h | ⟨kd, rem, k, h⟩ | ⟨kd, rem, k, h⟩
      · exact absurd h hl
      · exact absurd (doneClosed h).1 hcb
      · exact absurd h hcr
      · exact gorRun hm h
      · exact lstep .syncB (by simp [internalLabels]) (by simp [next, h, hcl, hcb])
      · exact cancelStep (hi.notSendS (Or.inr ⟨c, hcl⟩) (by simp [h, isSendS])) (Or.inr ⟨kd, rem, k, h⟩)
  | drain =>
    have hm := mfalse (by simp [hcl])
    have hcan := hi.drainCancelled hcl
    by_cases hcb : s.a.closedB = true
    · exact cstep true (by simp [callerStep, hcl, hcb])
    · rcases gor_cases s.g with h | h | h | h | ⟨kd, rem, k, h⟩ | ⟨kd, rem, k, h⟩
      · exact absurd h hl
      · exact absurd (doneClosed h).1 hcb
      · exact absurd h hcr
      · exact gorRun hm h
      · exact lstep .syncB (by simp [internalLabels]) (by simp [next, h, hcl, hcb])
      · exact cancelStep hcan (Or.inr ⟨kd, rem, k, h⟩)
  | sig c =>
    have hm := mfalse (by simp [hcl])
    by_cases hcs : s.a.closedS = true
    · exact cstep true (by simp [callerStep, hcl, hcs])
    · rcases gor_cases s.g with h | h | h | h | ⟨kd, rem, k, h⟩ | ⟨kd, rem, k, h⟩
      · exact absurd h hl
      · exact absurd (doneClosed h).2.1 hcs
      · exact absurd h hcr
      · exact gorRun hm h
      · rcases hi.parked (Or.inr ⟨c, hcl⟩) hl with hp | hp | hp | hp
        · simp [h, isSendS] at hp
        · have := (callOpen _ _ _ _ h).1; simp [hp] at this
        · exact cancelStep hp (Or.inl ⟨kd, rem, k, h⟩)
        · exact absurd hp hcr
      · exact lstep .syncS (by simp [internalLabels]) (by simp [next, h, hcl, hcs])
  | hdLock =>
    have hm := mfalse (by simp [hcl])
    have hcb := hi.lockClosed (Or.inl hcl)
    by_cases hh : s.a.holds = true
    · rcases gor_cases s.g with h | h | h | h | ⟨kd, rem, k, h⟩ | ⟨kd, rem, k, h⟩
      · exact absurd h hl
      · have := (doneClosed h).2.2; simp [hh] at this
      · exact absurd h hcr
      · exact gorRun hm h
      · have := (callOpen _ _ _ _ h).1; simp [hcb] at this
      · have := (callOpen _ _ _ _ h).1; simp [hcb] at this
    · exact cstep true (by simp [callerStep, hcl, hh, hm])

/-! ## termination measure -/

def actCost (sys : Sys) : Act → Nat
  | .build => 6 * sys.build.length + 12
  | .body => 6 * sys.body.length + 12
  | .dfr _ => 2
  | _ => 1

def progSize (sys : Sys) : Prog → Nat
  | .ret => 1
  | .panic => 1
  | .act x k => actCost sys x + progSize sys k
  | .ite _ t e => 1 + progSize sys t + progSize sys e

def isSig : Caller → Bool
  | .sig _ => true
  | _ => false

def phaseRank (sig : Bool) : Phase → Nat
  | .relock false => if sig then 4 else 5
  | .run => if sig then 3 else 4
  | .sendB => if sig then 2 else 3
  | .sendS => if sig then 5 else 2
  | .relock true => 1

def gorMeasure (sys : Sys) (g : Gor) (sig : Bool) (nd : Nat) : Nat :=
  match g with
  | .idle => 0
  | .run p => progSize sys p + nd + 2
  | .call _ ph rem k => 6 * rem.length + 6 + phaseRank sig ph + progSize sys k + nd + 2
  | .unwind => nd + 1
  | .done => 0
  | .crashed => 0

def cancelBit : Bool → Nat
  | true => 0
  | false => 1

def callerWeight : Caller → Nat
  | .idle => 0
  | .hdHeld => 1
  | .hdLock => 2
  | .blk _ => 3
  | .start => 3
  | .drain => 3
  | .sig _ => 4

def measure (sys : Sys) (s : St) : Nat :=
  8 * callerWeight s.caller + cancelBit s.cancelled + gorMeasure sys s.g (isSig s.caller) s.a.defers.length

theorem progSize_pos (sys : Sys) (p : Prog) : 0 < progSize sys p := by
  induction p <;> simp [progSize] <;> omega

theorem measure_gor (sys : Sys) (s s' : St) (ch : Ch) (h : gorStep sys s ch = some s') :
    gorMeasure sys s'.g (isSig s'.caller) s'.a.defers.length < gorMeasure sys s.g (isSig s.caller) s.a.defers.length := by
  unfold gorStep at h
  split at h
  · rename_i c t e hgs
    split at h <;> simp at h <;> subst h <;> simp [gorMeasure, hgs, progSize]
    · omega
    · omega
    · split <;> omega
  · rename_i x k hgs
    split at h
    · split at h <;> simp at h; subst h; simp [gorMeasure, hgs, progSize, actCost]
    · simp at h; subst h; simp [gorMeasure, hgs, progSize, actCost, phaseRank]; split <;> omega
    · simp at h; subst h; simp [gorMeasure, hgs, progSize, actCost, phaseRank]; split <;> omega
    · rename_i x' hx1 hx2 hx3
      have hc : 1 ≤ actCost sys x := by cases x <;> simp [actCost] <;> omega
      have hp := progSize_pos sys k
      split at h
      · rename_i a' ha
        simp at h; subst h
        simp only [gorMeasure, hgs, progSize]
        cases x with
        | dfr d => simp [simpleAct] at ha; subst ha; simp [actCost]; omega
        | unlock l =>
          cases l <;> simp only [simpleAct] at ha
          · split at ha <;> simp at ha; subst ha; simp; omega
          all_goals (simp at ha; subst ha; omega)
        | close c =>
          cases c <;> simp only [simpleAct] at ha <;> split at ha <;> simp at ha <;> subst ha <;> simp <;> omega
        | _ => simp [simpleAct] at ha; subst ha; simp; omega
      · simp at h; subst h; simp [gorMeasure, hgs, progSize]
  · rename_i hgs; simp at h; subst h; simp [gorMeasure, hgs, progSize]; omega
  · rename_i hgs; simp at h; subst h; simp [gorMeasure, hgs, progSize]
  · rename_i hgs
    split at h
    · simp at h; subst h; simp [gorMeasure, hgs]
    · rename_i r hd; split at h <;> simp at h <;> subst h <;> simp [gorMeasure, hgs, hd]
    · rename_i r hd; simp at h; subst h; simp [gorMeasure, hgs, hd]
    · rename_i d r _ _ hd; simp at h; subst h; simp [gorMeasure, hgs, hd]
  · rename_i kind rem k hgs
    have hp := progSize_pos sys k
    split at h
    · simp at h; subst h; simp [gorMeasure, hgs]; cases kind <;> simp [finishErr] <;> omega
    · split at h
      · simp at h; subst h; simp [gorMeasure, hgs]; split <;> cases kind <;> simp [finishErr, finishOK] <;> omega
      · simp at h; subst h; simp [gorMeasure, hgs]
      · split at h <;> simp at h <;> subst h <;> simp [gorMeasure, hgs] <;> omega
      · split at h <;> simp at h <;> subst h <;> simp [gorMeasure, hgs, phaseRank]
        split <;> omega
  · rename_i kind err rem k hgs
    split at h
    · simp at h
    · split at h <;> simp at h <;> subst h
      · simp [gorMeasure, hgs]; cases kind <;> simp [finishErr] <;> omega
      · rename_i he; simp at he; subst he
        simp [gorMeasure, hgs, phaseRank]; split <;> omega
  · simp at h
theorem phaseRank_le (b b' : Bool) (ph : Phase) : phaseRank b ph ≤ phaseRank b' ph + 3 := by
  cases ph with
  | relock e => cases e <;> cases b <;> cases b' <;> simp [phaseRank]
  | _ => cases b <;> cases b' <;> simp [phaseRank]

theorem gorMeasure_sig_le (sys : Sys) (g : Gor) (b b' : Bool) (nd : Nat) :
    gorMeasure sys g b nd ≤ gorMeasure sys g b' nd + 3 := by
  simp only [gorMeasure]
  split <;> try omega
  rename_i kd ph rem k
  have := phaseRank_le b b' ph
  omega

theorem measure_decreases (sys : Sys) (s s' : St) (l : Label) (hb : s.caller ≠ .idle)
    (h : next sys s l = some s') : measure sys s' < measure sys s := by
  cases l with
  | invStart b => simp [next, hb] at h
  | invHD b => simp [next, hb] at h
  | invSTP => simp [next, hb] at h
  | invClose => simp [next, hb] at h
  | invNext => simp [next, hb] at h
  | gor ch =>
    simp only [next] at h
    have hm := measure_gor sys s s' ch h
    have hf := gorStep_frame sys s s' ch h
    simp only [measure, hf.1] at hm ⊢
    have : cancelBit s'.cancelled ≤ cancelBit s.cancelled := by
      cases hc : s.cancelled
      · cases s'.cancelled <;> simp [cancelBit]
      · simp [hf.2.2.2.2.2.2 hc, cancelBit]
    omega
  | envCancel =>
    simp only [next] at h
    split at h <;> simp at h; subst h
    rename_i hc
    simp at hc
    simp [measure, hc, cancelBit]
  | syncB =>
    simp only [next] at h
    split at h
    · rename_i kind rem k hgs
      split at h
      · simp at h
      · split at h <;> simp at h <;> subst h
        · rename_i hc; simp [measure, retOf, hc, callerWeight, gorMeasure, hgs, phaseRank, isSig]; omega
        · rename_i c hc; simp [measure, retOf, hc, callerWeight, gorMeasure, hgs, phaseRank, isSig]; omega
        · rename_i hc; simp [measure, hc, callerWeight, gorMeasure, hgs, phaseRank, isSig]
    · simp at h
  | syncS =>
    simp only [next] at h
    split at h
    · rename_i kind rem k hgs
      split at h
      · simp at h
      · split at h <;> simp at h; subst h
        rename_i c hc; simp [measure, hc, callerWeight, gorMeasure, hgs, phaseRank, isSig]
    · simp at h
  | cancelSel =>
    simp only [next] at h
    split at h
    · simp at h
    · split at h <;> simp at h <;> subst h
      · rename_i kind rem k hgs
        simp [measure, gorMeasure, hgs, phaseRank]; split <;> omega
      · rename_i kind rem k hgs
        simp [measure, gorMeasure, hgs, phaseRank]; split <;> omega
  | callerStep b =>
    simp only [next, callerStep] at h
    split at h
    · rename_i hc
      split at h <;> simp at h; subst h
      have := gorMeasure_sig_le sys s.g (isSig .idle) (isSig s.caller) s.a.defers.length
      simp [measure, retOf, hc, callerWeight] at this ⊢; omega
    · rename_i k hc
      split at h <;> simp at h; subst h
      have := gorMeasure_sig_le sys s.g (isSig (.blk k)) (isSig s.caller) s.a.defers.length
      simp [measure, hc, callerWeight] at this ⊢; omega
    · rename_i hc
      split at h <;> simp at h; subst h
      have := gorMeasure_sig_le sys s.g (isSig .hdLock) (isSig s.caller) s.a.defers.length
      simp [measure, hc, callerWeight] at this ⊢; omega
    · rename_i hc
      split at h <;> simp at h; subst h
      have := gorMeasure_sig_le sys s.g (isSig .idle) (isSig s.caller) s.a.defers.length
      simp [measure, retOf, hc, callerWeight] at this ⊢; omega
    · rename_i hc
      split at h <;> simp at h; subst h
      simp [measure, hc, callerWeight, isSig]
    · rename_i hc
      split at h
      · simp at h; subst h
        simp [measure, retOf, hc, callerWeight, isSig]
      · split at h <;> simp at h <;> subst h
        · simp [measure, retOf, hc, callerWeight, isSig]
        · simp [measure, retOf, hc, callerWeight, isSig]
    · rename_i hc
      split at h <;> simp at h; subst h
      have := gorMeasure_sig_le sys s.g (isSig .idle) (isSig s.caller) s.a.defers.length
      simp [measure, retOf, hc, callerWeight] at this ⊢; omega
    · simp at h

end Quic
