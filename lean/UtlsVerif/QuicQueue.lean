import UtlsVerif.Wire
/-!
# QuicQueue — the event queue of a (U)QUICConn: `quicWriteCryptoData`, the other event appenders,
`NextEvent` (transcribed from `quic.go` / `u_quic.go`).

`quicState.events` is one slice with a read index `nextEvent`; here it is kept as the already
consumed slots and the pending ones (`events = consumed ++ pending`, `nextEvent = consumed.length`).
`quicWriteCryptoData` coalesces into the **last slot of the slice** when that slot is a WriteData
event of the same level — consumed or not. That is harmless only because `NextEvent` overwrites the
slot it hands out with the zero `QUICEvent{}` (kind `QUICNoEvent`): parameter `clear`, a regenerated
shape fact. With `clear = false` (only the references dropped) later data is appended to a slot
that was already handed out and is never returned (`Props/C23.lean: bytes_lost_without_clear`).
-/
namespace QuicQueue
open Wire

inductive Kind | none | write | other (tag : Nat)
  deriving DecidableEq, Repr

structure Slot where
  kind : Kind
  level : Nat
  data : Bytes
  deriving DecidableEq, Repr

def Slot.zero : Slot := ⟨.none, 0, []⟩

structure Q where
  consumed : List Slot := []
  pending : List Slot := []
  deriving DecidableEq, Repr

def Slot.isWrite (s : Slot) (l : Nat) : Bool := s.kind == .write && s.level == l

/-- replace the last element -/
def setLast (xs : List Slot) (s : Slot) : List Slot := xs.dropLast ++ [s]

/-- `quicWriteCryptoData(level, data)` -/
def write (q : Q) (l : Nat) (d : Bytes) : Q :=
  match q.pending.getLast? with
  | some last =>
      if last.isWrite l then { q with pending := setLast q.pending { last with data := last.data ++ d } }
      else { q with pending := q.pending ++ [⟨.write, l, d⟩] }
  | none =>
      match q.consumed.getLast? with
      | some last =>
          if last.isWrite l then { q with consumed := setLast q.consumed { last with data := last.data ++ d } }
          else { q with pending := [⟨.write, l, d⟩] }
      | none => { q with pending := [⟨.write, l, d⟩] }

/-- `quicSetReadSecret`, `quicSetWriteSecret`, `quicSetTransportParameters`, `quicHandshakeComplete`, … -/
def emit (q : Q) (tag l : Nat) (d : Bytes) : Q := { q with pending := q.pending ++ [⟨.other tag, l, d⟩] }

/-- `NextEvent`: `clear` = the handed-out slot is overwritten with `QUICEvent{}` (otherwise only its
data reference is dropped). -/
def nextEvent (clear : Bool) (q : Q) : Q × Option Slot :=
  match q.pending with
  | [] => ({}, none)
  | e :: rest =>
      ({ consumed := q.consumed ++ [if clear then Slot.zero else { e with data := [] }], pending := rest }, some e)

inductive Op
  | write (l : Nat) (d : Bytes)
  | emit (tag l : Nat) (d : Bytes)
  | next
  deriving DecidableEq, Repr

/-- run a sequence of operations; the results of the `next` operations in order -/
def run (clear : Bool) : List Op → Q → Q × List (Option Slot)
  | [], q => (q, [])
  | .write l d :: r, q => run clear r (write q l d)
  | .emit t l d :: r, q => run clear r (emit q t l d)
  | .next :: r, q =>
      let (q', o) := nextEvent clear q
      let (q'', os) := run clear r q'
      (q'', o :: os)

def slotsBytes (l : Nat) (xs : List Slot) : Bytes := (xs.filter (·.isWrite l)).flatMap (·.data)

/-- bytes written at level `l` -/
def written (l : Nat) : List Op → Bytes
  | [] => []
  | .write l' d :: r => (if l' = l then d else []) ++ written l r
  | _ :: r => written l r

/-- bytes handed out by NextEvent at level `l` -/
def delivered (l : Nat) (outs : List (Option Slot)) : Bytes := slotsBytes l (outs.filterMap id)

/-- bytes still queued at level `l` -/
def pendingBytes (l : Nat) (q : Q) : Bytes := slotsBytes l q.pending

/-! ## lemmas -/

theorem slotsBytes_append (l : Nat) (xs ys : List Slot) : slotsBytes l (xs ++ ys) = slotsBytes l xs ++ slotsBytes l ys := by
  simp [slotsBytes]

theorem dropLast_append_getLast (xs : List Slot) (last : Slot) (h : xs.getLast? = some last) :
    xs = xs.dropLast ++ [last] := by
  induction xs with
  | nil => simp at h
  | cons x r ih =>
    cases r with
    | nil => simp at h; simp [h]
    | cons y r' =>
      have : (y :: r').getLast? = some last := by simpa [List.getLast?_cons_cons] using h
      have := ih this
      simp only [List.dropLast_cons_cons, List.cons_append]
      rw [← this]

def Clean (q : Q) : Prop := ∀ s ∈ q.consumed, s = Slot.zero

theorem clean_init : Clean {} := by intro s h; simp at h

theorem write_spec (q : Q) (hc : Clean q) (l l' : Nat) (d : Bytes) :
    Clean (write q l' d) ∧ pendingBytes l (write q l' d) = pendingBytes l q ++ (if l' = l then d else []) := by
  unfold write
  cases hp : q.pending.getLast? with
  | some last =>
    simp only
    by_cases hw : last.isWrite l' = true
    · simp only [hw, if_true]
      refine ⟨hc, ?_⟩
      have hx := dropLast_append_getLast q.pending last hp
      have hlast : last.kind = .write ∧ last.level = l' := by simpa [Slot.isWrite] using hw
      simp only [pendingBytes, setLast]
      conv => rhs; rw [hx]
      simp only [slotsBytes_append]
      by_cases hl : l' = l
      · subst hl
        simp [slotsBytes, Slot.isWrite, hlast.1, hlast.2]
      · have : last.isWrite l = false := by simp [Slot.isWrite, hlast.2, hl]
        simp [slotsBytes, Slot.isWrite, hlast.1, hlast.2, hl]
    · simp only [hw]
      refine ⟨hc, ?_⟩
      simp only [pendingBytes, slotsBytes_append]
      by_cases hl : l' = l
      · subst hl; simp [slotsBytes, Slot.isWrite]
      · simp [slotsBytes, Slot.isWrite, hl]
  | none =>
    simp only
    have hpe : q.pending = [] := by simpa using hp
    have newOK : Clean { q with pending := [⟨.write, l', d⟩] } ∧
        pendingBytes l { q with pending := [⟨.write, l', d⟩] } = pendingBytes l q ++ (if l' = l then d else []) := by
      refine ⟨hc, ?_⟩
      simp only [pendingBytes, hpe]
      by_cases hl : l' = l
      · subst hl; simp [slotsBytes, Slot.isWrite]
      · simp [slotsBytes, Slot.isWrite, hl]
    cases hcl : q.consumed.getLast? with
    | none => exact newOK
    | some last =>
      simp only
      have hmem : last ∈ q.consumed := List.mem_of_getLast? hcl
      have hz := hc last hmem
      have : last.isWrite l' = false := by subst hz; simp [Slot.isWrite, Slot.zero]
      simp only [this]
      exact newOK

theorem emit_spec (q : Q) (hc : Clean q) (l t l' : Nat) (d : Bytes) :
    Clean (emit q t l' d) ∧ pendingBytes l (emit q t l' d) = pendingBytes l q := by
  refine ⟨hc, ?_⟩
  simp [emit, pendingBytes, slotsBytes_append, slotsBytes, Slot.isWrite]

theorem next_spec (q : Q) (hc : Clean q) (l : Nat) :
    Clean (nextEvent true q).1 ∧
    delivered l [(nextEvent true q).2] ++ pendingBytes l (nextEvent true q).1 = pendingBytes l q ∧
    ((nextEvent true q).2 = none → pendingBytes l q = []) := by
  unfold nextEvent
  cases hp : q.pending with
  | nil => simp [Clean, delivered, pendingBytes, slotsBytes, hp]
  | cons e rest =>
    refine ⟨?_, ?_, by simp⟩
    · intro s hs
      simp at hs
      rcases hs with hs | hs
      · exact hc s hs
      · exact hs
    · simp only [delivered, pendingBytes, hp]
      rw [show e :: rest = [e] ++ rest from rfl, slotsBytes_append]
      simp

/-- the invariant of a run: what was handed out plus what is still queued is what was queued plus
what was written -/
theorem run_spec (ops : List Op) (q : Q) (hc : Clean q) (l : Nat) :
    Clean (run true ops q).1 ∧
    delivered l (run true ops q).2 ++ pendingBytes l (run true ops q).1 = pendingBytes l q ++ written l ops := by
  induction ops generalizing q with
  | nil => simp [run, delivered, slotsBytes, written, hc]
  | cons op r ih =>
    cases op with
    | write l' d =>
      have hw := write_spec q hc l l' d
      have := ih (write q l' d) hw.1
      simp only [run, written]
      rw [this.2, hw.2, List.append_assoc]
      exact ⟨this.1, rfl⟩
    | emit t l' d =>
      have he := emit_spec q hc l t l' d
      have := ih (emit q t l' d) he.1
      simp only [run, written]
      rw [this.2, he.2]
      exact ⟨this.1, rfl⟩
    | next =>
      have hn := next_spec q hc l
      have := ih (nextEvent true q).1 hn.1
      simp only [run, written]
      refine ⟨this.1, ?_⟩
      have hd : delivered l ((nextEvent true q).2 :: (run true r (nextEvent true q).1).2) =
          delivered l [(nextEvent true q).2] ++ delivered l (run true r (nextEvent true q).1).2 := by
        simp only [delivered]
        cases (nextEvent true q).2 with
        | none => simp [slotsBytes]
        | some v =>
          show slotsBytes l (v :: List.filterMap id (run true r (nextEvent true q).1).2) = slotsBytes l [v] ++ _
          rw [show v :: List.filterMap id (run true r (nextEvent true q).1).2 =
            [v] ++ List.filterMap id (run true r (nextEvent true q).1).2 from rfl, slotsBytes_append]
      rw [hd, List.append_assoc, this.2, ← List.append_assoc, hn.2.1]

end QuicQueue
