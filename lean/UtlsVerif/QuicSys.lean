import UtlsVerif.Quic
import UtlsVerif.Gen.QuicShape
/-! The instance of `Quic.Sys` the working tree has *now*: skeleton and emission script regenerated
from the source (`Gen/QuicShape.lean`), `BuildHandshakeState`'s script hand-written (`Quic.buildScript`). -/
namespace Quic

def theSys : Sys := { prog := Gen.QuicShape.hcProg, build := buildScript, body := Gen.QuicShape.clientBody }

end Quic
