import UtlsVerif.Wire
import UtlsVerif.Prng
/-!
# Randomized — `generateRandomizedSpec` of /repo/u_parrots.go, draw for draw

`gen client w coin tbl t13 sni protos s sA` transcribes `generateRandomizedSpec(id, serverName, nextProtos)`
over the explicit SHAKE stream `s` of `newPRNGWithSeed(id.Seed)` and the stream `sA` of the salted
`newPRNGWithSaltedSeed(id.Seed, "ALPS")` (see `Prng`): the order of the PRNG draws is the order of the
code. `tbl` is the package-level `cipherSuites` table (id, "obsolete" = no `suiteTLS12` flag) in table
order and `t13` is `defaultCipherSuitesTLS13` (both regenerated from the code into `Gen.C09Suites`).

`FlipWeightedCoin(weight)` consumes one `Int63` draw `v` and returns `coin weight v`; the coin is a
parameter (`Coin`): theorems hold for every coin, the driver instantiates it with IEEE doubles.
A weight is either one of the 17 `Weights` fields (64-bit pattern of the `float64`) or the expression
`maxRemovalProbability * float64(i) / float64(len)` of `removeRandomCiphers` (`W.scaled`).

`sort.Sort(ciphers)` in `shuffledCiphers` is modelled by a sort on the random tag (the tags are a
permutation, `C30.perm_is_perm`, so the order `Less` defines is total and the result unique).
The model is the code *after* the D05 repair (hybrid key share offered iff the group is advertised).
-/
namespace Randomized
open Prng Wire

inductive Client where
  | randomized | alpn | noAlpn
  deriving DecidableEq, Repr

/-- `Weights`, each field as the bit pattern of its `float64`. -/
structure Weights where
  alpn : Nat
  tls13 : Nat
  removeCiphers : Nat
  sha1 : Nat
  p521sig : Nat
  pss256 : Nat
  pss384_512 : Nat
  x25519 : Nat
  p521 : Nat
  padding : Nat
  status : Nat
  sct : Nat
  reneg : Nat
  ems : Nat
  firstP256 : Nat
  randomGroups : Nat
  alps : Nat
  deriving DecidableEq, Repr

/-- the argument of one `FlipWeightedCoin` call. -/
inductive W where
  | bits (b : Nat)              -- a `Weights` field
  | scaled (b i n : Nat)        -- `float64frombits(b) * float64(i) / float64(n)`
  deriving DecidableEq, Repr

abbrev Coin := W → Nat → Bool

/-- `r.FlipWeightedCoin(w)`: one `Int63` draw. -/
def flip (coin : Coin) (w : W) (s : Stream) : Option (Bool × Stream) :=
  (int63 s).map fun (v, r) => (coin w v, r)

/-- sequencing of stream consumers. -/
def andThen {α β : Type} (x : Option (α × Stream)) (f : α → Stream → Option β) : Option β :=
  match x with
  | none => none
  | some (a, r) => f a r

/-- the extension values `generateRandomizedSpec` can emit, with every field of the Go structs. -/
inductive RExt where
  | sni (name : Bytes)
  | sessionTicket (ticket : Bytes) (session initialized : Bool)
  | sigAlgs (algs : List Nat)
  | points (ps : List Nat)
  | curves (ids : List Nat)
  | alpn (protos : List Bytes)
  /-- `policy`: 0 = `GetPaddingLen == nil`, 1 = `BoringPaddingStyle`, 2 = another function. -/
  | padding (len : Nat) (willPad : Bool) (policy : Nat)
  | statusRequest
  | sct
  | reneg (mode : Nat) (data : Bytes)
  | ems
  | keyShare (shares : List (Nat × Bytes))
  | pskModes (modes : List Nat)
  | versions (vs : List Nat)
  | alps (protos : List Bytes)
  /-- anything else (never produced by the model; lets the monitors run on any implementation output). -/
  | other (desc : String)
  deriving DecidableEq, Repr

structure Spec where
  suites : List Nat
  versMin : Nat
  versMax : Nat
  compression : List Nat
  exts : List RExt
  deriving DecidableEq, Repr

/-! ## constants of the code -/
def vTLS10 : Nat := 769
def vTLS12 : Nat := 771
def vTLS13 : Nat := 772
def gX25519 : Nat := 29
def gP256 : Nat := 23
def gP384 : Nat := 24
def gP521 : Nat := 25
def gX25519MLKEM768 : Nat := 4588
def gX25519Kyber768Draft00 : Nat := 25497
/-- TLS_ECDHE_ECDSA_WITH_RC4_128_SHA, TLS_ECDHE_RSA_WITH_RC4_128_SHA, TLS_RSA_WITH_RC4_128_SHA. -/
def rc4Ids : List Nat := [49159, 49169, 5]
def baseSigAlgs : List Nat := [1027, 1025, 1283, 1281, 513, 1537]
def sECDSAWithSHA1 : Nat := 515
def sECDSAWithP521AndSHA512 : Nat := 1539
def sPSSWithSHA256 : Nat := 2052
def sPSSWithSHA384 : Nat := 2053
def sPSSWithSHA512 : Nat := 2054
def protoH2 : Bytes := [0x68, 0x32]
def protoHttp11 : Bytes := [0x68, 0x74, 0x74, 0x70, 0x2f, 0x31, 0x2e, 0x31]

/-! ## cipher suites -/

/-- insertion into a list sorted by the first component (the random tag). -/
def insertTag (x : Nat × Nat) : List (Nat × Nat) → List (Nat × Nat)
  | [] => [x]
  | y :: ys => if x.1 < y.1 then x :: y :: ys else y :: insertTag x ys

def sortTag : List (Nat × Nat) → List (Nat × Nat)
  | [] => []
  | x :: xs => insertTag x (sortTag xs)

/-- `shuffledCiphers`: `Perm(len(cipherSuites))` as random tags, then sorted with the non-obsolete
suites first and by tag inside each class. -/
def shuffledCiphers (tbl : List (Nat × Bool)) (s : Stream) : Option (List Nat × Stream) :=
  andThen (perm tbl.length s) fun p r =>
    let tagged := tbl.zip p
    let cur := (tagged.filter fun x => !x.1.2).map fun x => (x.2, x.1.1)
    let old := (tagged.filter fun x => x.1.2).map fun x => (x.2, x.1.1)
    some (((sortTag cur) ++ (sortTag old)).map (·.2), r)

/-- `removeRC4Ciphers`. -/
def removeRC4 (cs : List Nat) : List Nat := cs.filter fun c => !rc4Ids.contains c

/-- the loop of `removeRandomCiphers` from index `i` on: the element at the current index is removed
when the coin with weight `w * i / n` says so (the index then stays), kept otherwise. -/
def removeLoop (coin : Coin) (wb n : Nat) : Nat → List Nat → Stream → Option (List Nat × Stream)
  | _, [], s => some ([], s)
  | i, x :: xs, s =>
    andThen (flip coin (.scaled wb i n) s) fun b r =>
      if b then removeLoop coin wb n i xs r
      else andThen (removeLoop coin wb n (i + 1) xs r) fun ys r' => some (x :: ys, r')

/-- `removeRandomCiphers`: never touches index 0; no draw for lists of length ≤ 1. -/
def removeRandom (coin : Coin) (wb : Nat) : List Nat → Stream → Option (List Nat × Stream)
  | [], s => some ([], s)
  | x :: xs, s => andThen (removeLoop coin wb (xs.length + 1) 1 xs s) fun ys r => some (x :: ys, r)

/-- cipher-suite part of the spec: `(TLSVersMax == 1.3, TLSVersMin, CipherSuites)`. -/
def stageSuites (coin : Coin) (w : Weights) (tbl : List (Nat × Bool)) (t13 : List Nat) (s : Stream) :
    Option ((Bool × Nat × List Nat) × Stream) :=
  andThen (shuffledCiphers tbl s) fun sh s =>
  andThen (flip coin (.bits w.tls13) s) fun b13 s =>
    if b13 then
      andThen (intn 2 s) fun i s =>
      andThen (shuffle t13 s) fun t s =>
      andThen (removeRandom coin w.removeCiphers (removeRC4 (t ++ sh)) s) fun out s =>
        some ((true, (if i = 0 then vTLS10 else vTLS12), out), s)
    else
      andThen (removeRandom coin w.removeCiphers sh s) fun out s =>
        some ((false, vTLS10, out), s)

/-! ## extensions -/

def sigList (b1 b2 b3 b4 : Bool) : List Nat :=
  baseSigAlgs ++ (if b1 then [sECDSAWithSHA1] else []) ++ (if b2 then [sECDSAWithP521AndSHA512] else []) ++
    (if b3 then sPSSWithSHA256 :: (if b4 then [sPSSWithSHA384, sPSSWithSHA512] else []) else [])

/-- signature algorithms (already shuffled). -/
def stageSig (coin : Coin) (w : Weights) (tls13 : Bool) (s : Stream) : Option (List Nat × Stream) :=
  andThen (flip coin (.bits w.sha1) s) fun b1 s =>
  andThen (flip coin (.bits w.p521sig) s) fun b2 s =>
  andThen (flip coin (.bits w.pss256) s) fun b3 s =>
    if b3 || tls13 then
      andThen (flip coin (.bits w.pss384_512) s) fun b4 s => shuffle (sigList b1 b2 true b4) s
    else shuffle (sigList b1 b2 false false) s

def curveList (tls13 a b c : Bool) : List Nat :=
  (if a && tls13 then [gX25519MLKEM768] else []) ++ (if b || tls13 then [gX25519] else []) ++ [gP256, gP384] ++
    (if c then [gP521] else [])

def stageCurves (coin : Coin) (w : Weights) (s : Stream) : Option ((Bool × Bool × Bool) × Stream) :=
  andThen (flip coin (.bits w.x25519) s) fun a s =>
  andThen (flip coin (.bits w.x25519) s) fun b s =>
  andThen (flip coin (.bits w.p521) s) fun c s => some ((a, b, c), s)

def ePadding : RExt := .padding 0 false 1
def eReneg : RExt := .reneg 1 []        -- RenegotiateOnceAsClient

def optList (tls13 p st sc rn em : Bool) : List RExt :=
  (if p || tls13 then [ePadding] else []) ++ (if st then [.statusRequest] else []) ++ (if sc then [.sct] else []) ++
    (if rn then [eReneg] else []) ++ (if em then [.ems] else [])

def stageOpt (coin : Coin) (w : Weights) (s : Stream) : Option ((Bool × Bool × Bool × Bool × Bool) × Stream) :=
  andThen (flip coin (.bits w.padding) s) fun p s =>
  andThen (flip coin (.bits w.status) s) fun st s =>
  andThen (flip coin (.bits w.sct) s) fun sc s =>
  andThen (flip coin (.bits w.reneg) s) fun rn s =>
  andThen (flip coin (.bits w.ems) s) fun em s => some ((p, st, sc, rn, em), s)

/-- `makeSupportedVersions(min, max)`: `[max, max-1, …, min]`. -/
def versRange (min max : Nat) : List Nat := (List.range (max - min + 1)).map fun i => max - i

/-- key-share groups: `hyb` = X25519MLKEM768 is in supported_groups, `first` = the legacy
`FirstKeyShare_Set_CurveP256` coin, `rg` = the first `KeyShare_Append_RandomGroups` coin. -/
def shareList (hyb first rg : Bool) : List Nat :=
  if first then gP256 :: (if hyb then [gX25519MLKEM768] else [])
  else (if hyb then [gX25519MLKEM768] else []) ++ gX25519 :: (if rg then [gP256] else [])

def tailList (vmin : Nat) (shares : List Nat) (alps : Bool) : List RExt :=
  [.keyShare (shares.map fun g => (g, [])), .pskModes [1], .versions (versRange vmin vTLS13)] ++
    (if alps then [.alps [protoH2]] else [])

/-- the coins of the TLS 1.3 block `(first, rg, alps)`: `FirstKeyShare_Set_CurveP256`, then (only when it
came up false) two `KeyShare_Append_RandomGroups` flips of which the second is drawn but unused since
the D05 repair, then (only with ALPN) the ALPS coin on the salted prng's stream `sA`. -/
def stage13 (coin : Coin) (w : Weights) (withAlpn : Bool) (s sA : Stream) :
    Option ((Bool × Bool × Bool) × Stream) :=
  andThen (flip coin (.bits w.firstP256) s) fun first s =>
    let fin := fun (rg : Bool) (s : Stream) =>
      if withAlpn then
        andThen (flip coin (.bits w.alps) sA) fun a _ => some ((first, rg, a), s)
      else some ((first, rg, false), s)
    if first then fin false s
    else
      andThen (flip coin (.bits w.randomGroups) s) fun rg s =>
      andThen (flip coin (.bits w.randomGroups) s) fun _ s => fin rg s

def stageAlpn (coin : Coin) (w : Weights) : Client → Stream → Option (Bool × Stream)
  | .alpn, s => some (true, s)
  | .noAlpn, s => some (false, s)
  | .randomized, s => flip coin (.bits w.alpn) s

/-- everything drawn before the final shuffle of the extension list. -/
structure Drawn where
  withAlpn : Bool
  tls13 : Bool
  vmin : Nat
  suites : List Nat
  algs : List Nat
  hyb : Bool
  x : Bool
  p521 : Bool
  pad : Bool
  st : Bool
  sc : Bool
  rn : Bool
  em : Bool
  first : Bool
  rg : Bool
  alps : Bool

def draw (client : Client) (w : Weights) (coin : Coin) (tbl : List (Nat × Bool)) (t13 : List Nat) (s sA : Stream) :
    Option (Drawn × Stream) :=
  andThen (stageAlpn coin w client s) fun withAlpn s =>
  andThen (stageSuites coin w tbl t13 s) fun su s =>
  andThen (stageSig coin w su.1 s) fun algs s =>
  andThen (stageCurves coin w s) fun cu s =>
  andThen (stageOpt coin w s) fun op s =>
    if su.1 then
      andThen (stage13 coin w withAlpn s sA) fun t s =>
        some (⟨withAlpn, true, su.2.1, su.2.2, algs, cu.1, cu.2.1, cu.2.2, op.1, op.2.1, op.2.2.1, op.2.2.2.1, op.2.2.2.2,
               t.1, t.2.1, t.2.2⟩, s)
    else some (⟨withAlpn, false, su.2.1, su.2.2, algs, cu.1, cu.2.1, cu.2.2, op.1, op.2.1, op.2.2.1, op.2.2.2.1, op.2.2.2.2,
                false, false, false⟩, s)

def Drawn.curves (d : Drawn) : List Nat := curveList d.tls13 d.hyb d.x d.p521
def Drawn.shares (d : Drawn) : List Nat := shareList (d.curves.contains gX25519MLKEM768) d.first d.rg

/-- `p.Extensions` right before `r.rand.Shuffle`. -/
def extsOf (sni : Bytes) (protos : List Bytes) (d : Drawn) : List RExt :=
  [.sni sni, .sessionTicket [] false false, .sigAlgs d.algs, .points [0], .curves d.curves] ++
    (if d.withAlpn then [.alpn (if protos.isEmpty then [protoH2, protoHttp11] else protos)] else []) ++
    optList d.tls13 d.pad d.st d.sc d.rn d.em ++
    (if d.tls13 then tailList d.vmin d.shares d.alps else [])

/-- **`generateRandomizedSpec`** (`none`: the supplied stream log ran out). -/
def gen (client : Client) (w : Weights) (coin : Coin) (tbl : List (Nat × Bool)) (t13 : List Nat)
    (sni : Bytes) (protos : List Bytes) (s sA : Stream) : Option Spec :=
  andThen (draw client w coin tbl t13 s sA) fun d s =>
  andThen (shuffle (extsOf sni protos d) s) fun exts _ =>
    some { suites := d.suites, versMin := d.vmin, versMax := if d.tls13 then vTLS13 else vTLS12,
           compression := [], exts := exts }

/-! ## the consistency predicates of the property (decidable; used by the theorems and as monitors) -/

def RExt.sigAlgIds : RExt → List Nat
  | .sigAlgs a => a
  | _ => []
def RExt.curveIds : RExt → List Nat
  | .curves c => c
  | _ => []
def RExt.shareGroups : RExt → List Nat
  | .keyShare sh => sh.map (·.1)
  | _ => []
def RExt.isAlpn : RExt → Bool
  | .alpn _ => true
  | _ => false
def RExt.isAlps : RExt → Bool
  | .alps _ => true
  | _ => false
def RExt.isPadding : RExt → Bool
  | .padding _ _ _ => true
  | _ => false

def Spec.sigAlgs (sp : Spec) : List Nat := sp.exts.flatMap RExt.sigAlgIds
def Spec.curves (sp : Spec) : List Nat := sp.exts.flatMap RExt.curveIds
def Spec.shareGroups (sp : Spec) : List Nat := sp.exts.flatMap RExt.shareGroups
def Spec.hasAlpn (sp : Spec) : Bool := sp.exts.any RExt.isAlpn
def Spec.hasAlps (sp : Spec) : Bool := sp.exts.any RExt.isAlps
def Spec.hasPadding (sp : Spec) : Bool := sp.exts.any RExt.isPadding

/-- class of a suite id: 0 = TLS 1.3 suite, 1 = TLS 1.2-only suite of the table, 2 = older / unknown. -/
def cls (tbl : List (Nat × Bool)) (t13 : List Nat) (id : Nat) : Nat :=
  if t13.contains id then 0 else if tbl.contains (id, false) then 1 else 2

/-- suites ordered TLS 1.3 first, then TLS 1.2-only, then older ones. -/
def suiteOrderOk (tbl : List (Nat × Bool)) (t13 : List Nat) (sp : Spec) : Bool :=
  decide ((sp.suites.map (cls tbl t13)).Pairwise (· ≤ ·))

/-- RSASSA-PSS schemes (rsa_pss_rsae_* and rsa_pss_pss_*). -/
def rsaPssSchemes : List Nat := [2052, 2053, 2054, 2057, 2058, 2059]

/-- a TLS 1.3 spec carries none of the suites `rc4`, includes an RSA-PSS scheme, a padding extension and
a supported_versions list `[max … min]`. -/
def tls13RulesOk (rc4 : List Nat) (sp : Spec) : Bool :=
  sp.versMax != vTLS13 ||
    (sp.suites.all (fun c => !rc4.contains c) && sp.sigAlgs.any (rsaPssSchemes.contains ·) && sp.hasPadding &&
      sp.exts.contains (.versions (versRange sp.versMin sp.versMax)))

def alpsNeedsAlpnOk (sp : Spec) : Bool := !sp.hasAlps || sp.hasAlpn

def keyShareSubsetOk (sp : Spec) : Bool := sp.shareGroups.all (sp.curves.contains ·)

def hybridGroups : List Nat := [gX25519MLKEM768, gX25519Kyber768Draft00]

def hybridHasShareOk (sp : Spec) : Bool :=
  sp.curves.all fun g => !hybridGroups.contains g || sp.shareGroups.contains g

/-- well-formedness of the suite tables the ordering theorem needs: table ids pairwise distinct and
disjoint from the TLS 1.3 list. -/
def TablesWF (tbl : List (Nat × Bool)) (t13 : List Nat) : Bool :=
  decide ((tbl.map (·.1)).Nodup) && tbl.all fun r => !t13.contains r.1

/-! ### weight corners
`off b` / `on b` say that the weight with bit pattern `b` is one whose coin never / always comes up
(0.0 and 1.0 in the driver). "Absent unless a TLS 1.3 rule forces it": the forced features are RSA-PSS,
X25519 and padding in a TLS 1.3 spec. -/

/-- number of suites offered when `removeRandomCiphers` removes nothing. -/
def fullSuiteCount (tbl : List (Nat × Bool)) (t13 : List Nat) (tls13 : Bool) : Nat :=
  if tls13 then (removeRC4 (t13 ++ tbl.map (·.1))).length else tbl.length

def imp (a b : Bool) : Bool := !a || b

def absentOk (off : Nat → Bool) (client : Client) (w : Weights) (tbl : List (Nat × Bool)) (t13 : List Nat)
    (sp : Spec) : Bool :=
  let is13 := sp.versMax == vTLS13
  imp (off w.alpn && client == .randomized) (!sp.hasAlpn) &&
  imp (off w.tls13) (sp.versMax == vTLS12) &&
  imp (off w.removeCiphers) (sp.suites.length == fullSuiteCount tbl t13 is13) &&
  imp (off w.sha1) (!sp.sigAlgs.contains sECDSAWithSHA1) &&
  imp (off w.p521sig) (!sp.sigAlgs.contains sECDSAWithP521AndSHA512) &&
  imp (off w.pss256 && !is13) (!sp.sigAlgs.contains sPSSWithSHA256) &&
  imp (off w.pss384_512) (!sp.sigAlgs.contains sPSSWithSHA384 && !sp.sigAlgs.contains sPSSWithSHA512) &&
  imp (off w.x25519) (!sp.curves.contains gX25519MLKEM768 && (is13 || !sp.curves.contains gX25519)) &&
  imp (off w.p521) (!sp.curves.contains gP521) &&
  imp (off w.padding && !is13) (!sp.hasPadding) &&
  imp (off w.status) (!sp.exts.contains .statusRequest) &&
  imp (off w.sct) (!sp.exts.contains .sct) &&
  imp (off w.reneg) (!sp.exts.contains eReneg) &&
  imp (off w.ems) (!sp.exts.contains .ems) &&
  imp (off w.firstP256 && is13) (sp.shareGroups.contains gX25519) &&
  imp (off w.firstP256 && off w.randomGroups) (!sp.shareGroups.contains gP256) &&
  imp (off w.alps) (!sp.hasAlps)

def presentOk (on : Nat → Bool) (client : Client) (w : Weights) (sp : Spec) : Bool :=
  let is13 := sp.versMax == vTLS13
  imp (on w.alpn && client == .randomized) sp.hasAlpn &&
  imp (on w.tls13) is13 &&
  imp (on w.sha1) (sp.sigAlgs.contains sECDSAWithSHA1) &&
  imp (on w.p521sig) (sp.sigAlgs.contains sECDSAWithP521AndSHA512) &&
  imp (on w.pss256) (sp.sigAlgs.contains sPSSWithSHA256) &&
  imp (on w.pss384_512 && sp.sigAlgs.contains sPSSWithSHA256)
    (sp.sigAlgs.contains sPSSWithSHA384 && sp.sigAlgs.contains sPSSWithSHA512) &&
  imp (on w.x25519) (sp.curves.contains gX25519 && (!is13 || sp.curves.contains gX25519MLKEM768)) &&
  imp (on w.p521) (sp.curves.contains gP521) &&
  imp (on w.padding) sp.hasPadding &&
  imp (on w.status) (sp.exts.contains .statusRequest) &&
  imp (on w.sct) (sp.exts.contains .sct) &&
  imp (on w.reneg) (sp.exts.contains eReneg) &&
  imp (on w.ems) (sp.exts.contains .ems) &&
  imp (on w.firstP256 && is13)
    ((sp.exts.all fun e => e.shareGroups.isEmpty || e.shareGroups.head? == some gP256) && sp.shareGroups.contains gP256) &&
  imp (on w.randomGroups && is13) (sp.shareGroups.contains gP256) &&
  imp (on w.alps && is13 && sp.hasAlpn) sp.hasAlps

end Randomized
