import UtlsVerif.Randomized
import UtlsVerif.Props.C30
/-!
# RandomizedLemmas — helper lemmas for C09 (core Lean only)

* every stream consumer returns a suffix of the stream it was given, so every `Int63` value a coin was
  flipped on is one of the draws of the original stream (`Flipped`);
* inversion lemmas for the stages of `Randomized.gen`.
-/
namespace Randomized
open Prng

theorem andThen_eq_some {α β : Type} {x : Option (α × Stream)} {f : α → Stream → Option β} {b : β} :
    andThen x f = some b ↔ ∃ a r, x = some (a, r) ∧ f a r = some b := by
  unfold andThen
  cases x with
  | none => simp
  | some p =>
    obtain ⟨a, r⟩ := p
    constructor
    · intro h; exact ⟨a, r, rfl, h⟩
    · rintro ⟨a', r', h1, h2⟩
      cases h1; exact h2

/-- the `Int63` values a stream will hand out. -/
def drawsOf (s : Stream) : List Nat := s.map fun u => u % 18446744073709551616 % two63

theorem drawsOf_mono {r s : Stream} (h : r <:+ s) : ∀ v, v ∈ drawsOf r → v ∈ drawsOf s := by
  intro v hv
  exact (List.IsSuffix.map _ h).subset hv

/-- `f` only consumes from the front of the stream. -/
def Suf {α : Type} (f : Stream → Option (α × Stream)) : Prop := ∀ s a r, f s = some (a, r) → r <:+ s

theorem int63_some {s : Stream} {v : Nat} {r : Stream} (h : int63 s = some (v, r)) :
    ∃ u, s = u :: r ∧ v = u % 18446744073709551616 % two63 := by
  cases s with
  | nil => simp [int63, uint64] at h
  | cons u t =>
    simp [int63, uint64] at h
    exact ⟨u, by rw [h.2], h.1.symm⟩

theorem int63_suf : Suf int63 := by
  intro s a r h
  obtain ⟨u, rfl, _⟩ := int63_some h
  exact List.suffix_cons _ _

theorem int63_mem {s : Stream} {v : Nat} {r : Stream} (h : int63 s = some (v, r)) : v ∈ drawsOf s := by
  obtain ⟨u, rfl, rfl⟩ := int63_some h
  simp [drawsOf]

theorem map_suf {α β : Type} {f : Stream → Option (α × Stream)} (hf : Suf f) (g : α → β) :
    Suf (fun s => (f s).map fun (p : α × Stream) => (g p.1, p.2)) := by
  intro s a r h
  simp only [Option.map_eq_some_iff] at h
  obtain ⟨⟨a', r'⟩, h1, h2⟩ := h
  simp only [Prod.mk.injEq] at h2
  obtain ⟨_, rfl⟩ := h2
  exact hf _ _ _ h1

theorem int31_suf : Suf int31 := by
  intro s a r h
  unfold int31 at h
  simp only [Option.map_eq_some_iff] at h
  obtain ⟨⟨a', r'⟩, h1, h2⟩ := h
  simp only [Prod.mk.injEq] at h2
  obtain ⟨_, rfl⟩ := h2
  exact int63_suf _ _ _ h1

theorem uint32_suf : Suf uint32 := by
  intro s a r h
  unfold uint32 at h
  simp only [Option.map_eq_some_iff] at h
  obtain ⟨⟨a', r'⟩, h1, h2⟩ := h
  simp only [Prod.mk.injEq] at h2
  obtain ⟨_, rfl⟩ := h2
  exact int63_suf _ _ _ h1

theorem rejectLoop_suf {draw : Stream → Option (Nat × Stream)} (hd : Suf draw) (max fuel : Nat) :
    Suf (rejectLoop draw max fuel) := by
  induction fuel with
  | zero => intro s a r h; simp [rejectLoop] at h
  | succ f ih =>
    intro s a r h
    unfold rejectLoop at h
    cases hd' : draw s with
    | none => simp [hd'] at h
    | some p =>
      obtain ⟨v, r'⟩ := p
      simp only [hd'] at h
      have h1 := hd _ _ _ hd'
      split at h
      · exact (ih _ _ _ h).trans h1
      · cases h; exact h1

theorem int63n_suf (n : Nat) : Suf (int63n n) := by
  intro s a r h
  unfold int63n at h
  split at h
  · simp only [Option.map_eq_some_iff] at h
    obtain ⟨⟨a', r'⟩, h1, h2⟩ := h
    simp only [Prod.mk.injEq] at h2
    obtain ⟨_, rfl⟩ := h2
    exact int63_suf _ _ _ h1
  · simp only [Option.map_eq_some_iff] at h
    obtain ⟨⟨a', r'⟩, h1, h2⟩ := h
    simp only [Prod.mk.injEq] at h2
    obtain ⟨_, rfl⟩ := h2
    exact rejectLoop_suf int63_suf _ _ _ _ _ h1

theorem int31n_suf (n : Nat) : Suf (int31n n) := by
  intro s a r h
  unfold int31n at h
  split at h
  · simp only [Option.map_eq_some_iff] at h
    obtain ⟨⟨a', r'⟩, h1, h2⟩ := h
    simp only [Prod.mk.injEq] at h2
    obtain ⟨_, rfl⟩ := h2
    exact int31_suf _ _ _ h1
  · simp only [Option.map_eq_some_iff] at h
    obtain ⟨⟨a', r'⟩, h1, h2⟩ := h
    simp only [Prod.mk.injEq] at h2
    obtain ⟨_, rfl⟩ := h2
    exact rejectLoop_suf int31_suf _ _ _ _ _ h1

theorem randIntn_suf (n : Nat) : Suf (randIntn n) := by
  intro s a r h
  unfold randIntn at h
  split at h
  · exact int31n_suf _ _ _ _ h
  · exact int63n_suf _ _ _ _ h

theorem intn_suf (n : Int) : Suf (intn n) := by
  intro s a r h
  unfold intn at h
  split at h
  · cases h; exact List.suffix_refl _
  · exact randIntn_suf _ _ _ _ h

theorem lemireLoop_suf (n thresh fuel : Nat) : Suf (lemireLoop n thresh fuel) := by
  induction fuel with
  | zero => intro s a r h; simp [lemireLoop] at h
  | succ f ih =>
    intro s a r h
    unfold lemireLoop at h
    cases hd' : uint32 s with
    | none => simp [hd'] at h
    | some p =>
      obtain ⟨v, r'⟩ := p
      simp only [hd'] at h
      have h1 := uint32_suf _ _ _ hd'
      split at h
      · exact (ih _ _ _ h).trans h1
      · cases h; exact h1

theorem lemire31n_suf (n : Nat) : Suf (lemire31n n) := by
  intro s a r h
  unfold lemire31n at h
  cases hd' : uint32 s with
  | none => simp [hd'] at h
  | some p =>
    obtain ⟨v, r'⟩ := p
    simp only [hd'] at h
    have h1 := uint32_suf _ _ _ hd'
    split at h
    · split at h
      · exact (lemireLoop_suf _ _ _ _ _ _ h).trans h1
      · cases h; exact h1
    · cases h; exact h1

theorem permLoop_suf (k : Nat) (m : List Nat) : Suf (permLoop k m) := by
  induction k generalizing m with
  | zero => intro s a r h; simp [permLoop] at h; rw [h.2]; exact List.suffix_refl _
  | succ k ih =>
    intro s a r h
    unfold permLoop at h
    cases hj : randIntn (m.length + 1) s with
    | none => simp [hj] at h
    | some p =>
      obtain ⟨j, r'⟩ := p
      simp only [hj] at h
      exact (ih _ _ _ _ h).trans (randIntn_suf _ _ _ _ hj)

theorem perm_suf (n : Nat) : Suf (perm n) := permLoop_suf n []

theorem shuffleLoop_suf {α : Type} (i : Nat) (xs : List α) : Suf (shuffleLoop i xs) := by
  induction i generalizing xs with
  | zero => intro s a r h; simp [shuffleLoop] at h; rw [h.2]; exact List.suffix_refl _
  | succ i ih =>
    intro s a r h
    unfold shuffleLoop at h
    cases hj : lemire31n (i + 2) s with
    | none => simp [hj] at h
    | some p =>
      obtain ⟨j, r'⟩ := p
      simp only [hj] at h
      exact (ih _ _ _ _ h).trans (lemire31n_suf _ _ _ _ hj)

theorem shuffle_suf {α : Type} (xs : List α) : Suf (shuffle xs) := shuffleLoop_suf _ xs

/-- `b` is the outcome of the coin with weight `w` on one of the `Int63` draws of `s`. -/
def Flipped (coin : Coin) (s : Stream) (w : W) (b : Bool) : Prop := ∃ v, v ∈ drawsOf s ∧ b = coin w v

theorem Flipped.mono {coin : Coin} {r s : Stream} {w : W} {b : Bool} (h : r <:+ s) (hf : Flipped coin r w b) :
    Flipped coin s w b := by
  obtain ⟨v, hv, rfl⟩ := hf
  exact ⟨v, drawsOf_mono h v hv, rfl⟩

/-- the coin with weight `w` gives `b` on every draw of the stream. -/
def CoinConst (coin : Coin) (s : Stream) (w : W) (b : Bool) : Prop := ∀ v, v ∈ drawsOf s → coin w v = b

theorem Flipped.eq_of_const {coin : Coin} {s : Stream} {w : W} {b c : Bool} (hf : Flipped coin s w b)
    (hc : CoinConst coin s w c) : b = c := by
  obtain ⟨v, hv, rfl⟩ := hf
  exact hc v hv

theorem flip_some {coin : Coin} {w : W} {s r : Stream} {b : Bool} (h : flip coin w s = some (b, r)) :
    r <:+ s ∧ Flipped coin s w b := by
  unfold flip at h
  simp only [Option.map_eq_some_iff] at h
  obtain ⟨⟨v, r'⟩, h1, h2⟩ := h
  simp only [Prod.mk.injEq] at h2
  obtain ⟨rfl, rfl⟩ := h2
  exact ⟨int63_suf _ _ _ h1, v, int63_mem h1, rfl⟩

/-! ## cipher suites -/

theorem insertTag_perm (x : Nat × Nat) (l : List (Nat × Nat)) : (insertTag x l).Perm (x :: l) := by
  induction l with
  | nil => exact List.Perm.refl _
  | cons y ys ih =>
    unfold insertTag
    split
    · exact List.Perm.refl _
    · exact (List.Perm.cons y ih).trans (List.Perm.swap x y ys)

theorem sortTag_perm (l : List (Nat × Nat)) : (sortTag l).Perm l := by
  induction l with
  | nil => exact List.Perm.refl _
  | cons x xs ih => exact (insertTag_perm x _).trans (List.Perm.cons x ih)

theorem shuffledCiphers_inv {tbl : List (Nat × Bool)} {s r : Stream} {sh : List Nat}
    (h : shuffledCiphers tbl s = some (sh, r)) :
    r <:+ s ∧ sh.Perm (tbl.map (·.1)) ∧
      ∃ A B, sh = A ++ B ∧ (∀ c, c ∈ A → (c, false) ∈ tbl) ∧ (∀ c, c ∈ B → (c, true) ∈ tbl) := by
  unfold shuffledCiphers at h
  rw [andThen_eq_some] at h
  obtain ⟨p, r', hp, h⟩ := h
  simp only [Option.some.injEq, Prod.mk.injEq] at h
  obtain ⟨rfl, rfl⟩ := h
  have hlen : p.length = tbl.length := by
    have := (C30.perm_is_perm _ _ _ _ hp).length_eq
    simpa using this
  refine ⟨perm_suf _ _ _ _ hp, ?_, _, _, List.map_append, ?_, ?_⟩
  · -- permutation of the table ids
    have h1 : ((sortTag ((tbl.zip p |>.filter fun x => !x.1.2).map fun x => (x.2, x.1.1))) ++
        (sortTag ((tbl.zip p |>.filter fun x => x.1.2).map fun x => (x.2, x.1.1)))).Perm
        (((tbl.zip p |>.filter fun x => !x.1.2).map fun x => (x.2, x.1.1)) ++
         ((tbl.zip p |>.filter fun x => x.1.2).map fun x => (x.2, x.1.1))) :=
      List.Perm.append (sortTag_perm _) (sortTag_perm _)
    refine (h1.map _).trans ?_
    rw [← List.map_append, List.map_map]
    have h2 : ((tbl.zip p |>.filter fun x => !x.1.2) ++ (tbl.zip p |>.filter fun x => x.1.2)).Perm (tbl.zip p) := by
      have := List.filter_append_perm (fun x : (Nat × Bool) × Nat => !x.1.2) (tbl.zip p)
      simpa using this
    refine (h2.map _).trans ?_
    have : (tbl.zip p).map ((fun x : Nat × Nat => x.2) ∘ fun x : (Nat × Bool) × Nat => (x.2, x.1.1)) =
        ((tbl.zip p).map (·.1)).map (·.1) := by
      rw [List.map_map]; rfl
    rw [this, List.map_fst_zip (by omega)]
  · intro c hc
    simp only [List.mem_map] at hc
    obtain ⟨x, hx, rfl⟩ := hc
    have hx' := (sortTag_perm _).mem_iff.mp hx
    simp only [List.mem_map, List.mem_filter] at hx'
    obtain ⟨y, ⟨hy, hb⟩, rfl⟩ := hx'
    have := (List.of_mem_zip hy).1
    obtain ⟨⟨c, b⟩, t⟩ := y
    simp at hb
    subst hb
    exact this
  · intro c hc
    simp only [List.mem_map] at hc
    obtain ⟨x, hx, rfl⟩ := hc
    have hx' := (sortTag_perm _).mem_iff.mp hx
    simp only [List.mem_map, List.mem_filter] at hx'
    obtain ⟨y, ⟨hy, hb⟩, rfl⟩ := hx'
    have := (List.of_mem_zip hy).1
    obtain ⟨⟨c, b⟩, t⟩ := y
    simp at hb
    subst hb
    exact this

theorem removeLoop_inv {coin : Coin} {wb n : Nat} (xs : List Nat) :
    ∀ (i : Nat) (s r : Stream) (ys : List Nat), removeLoop coin wb n i xs s = some (ys, r) →
      r <:+ s ∧ ys.Sublist xs ∧
        ((∀ j, CoinConst coin s (.scaled wb j n) false) → ys = xs) := by
  induction xs with
  | nil =>
    intro i s r ys h
    simp [removeLoop] at h
    obtain ⟨rfl, rfl⟩ := h
    exact ⟨List.suffix_refl _, List.Sublist.refl _, fun _ => rfl⟩
  | cons x xs ih =>
    intro i s r ys h
    unfold removeLoop at h
    rw [andThen_eq_some] at h
    obtain ⟨b, r1, hb, h⟩ := h
    obtain ⟨hs1, hf1⟩ := flip_some hb
    cases b with
    | true =>
      simp only [if_true] at h
      obtain ⟨hs2, hsub, _⟩ := ih _ _ _ _ h
      refine ⟨hs2.trans hs1, hsub.trans (List.sublist_cons_self _ _), ?_⟩
      intro hc
      exact absurd (hf1.eq_of_const (hc i)) (by decide)
    | false =>
      simp only [Bool.false_eq_true, if_false] at h
      rw [andThen_eq_some] at h
      obtain ⟨zs, r2, hz, h⟩ := h
      simp only [Option.some.injEq, Prod.mk.injEq] at h
      obtain ⟨rfl, rfl⟩ := h
      obtain ⟨hs2, hsub, hall⟩ := ih _ _ _ _ hz
      refine ⟨hs2.trans hs1, hsub.cons_cons _, ?_⟩
      intro hc
      rw [hall (fun j v hv => hc j v (drawsOf_mono hs1 v hv))]

theorem removeRandom_inv {coin : Coin} {wb : Nat} {pre ys : List Nat} {s r : Stream}
    (h : removeRandom coin wb pre s = some (ys, r)) :
    r <:+ s ∧ ys.Sublist pre ∧ ys.head? = pre.head? ∧
      ((∀ j n, CoinConst coin s (.scaled wb j n) false) → ys = pre) := by
  cases pre with
  | nil =>
    simp [removeRandom] at h
    obtain ⟨rfl, rfl⟩ := h
    exact ⟨List.suffix_refl _, List.Sublist.refl _, rfl, fun _ => rfl⟩
  | cons x xs =>
    unfold removeRandom at h
    rw [andThen_eq_some] at h
    obtain ⟨zs, r2, hz, h⟩ := h
    simp only [Option.some.injEq, Prod.mk.injEq] at h
    obtain ⟨rfl, rfl⟩ := h
    obtain ⟨hs, hsub, hall⟩ := removeLoop_inv xs _ _ _ _ hz
    exact ⟨hs, hsub.cons_cons _, rfl, fun hc => by rw [hall (fun j => hc j _)]⟩

/-! ## suite classes -/

theorem pw_of_all {α : Type} {R : α → α → Prop} {l : List α} (h : ∀ a, a ∈ l → ∀ b, b ∈ l → R a b) :
    l.Pairwise R := by
  induction l with
  | nil => exact List.Pairwise.nil
  | cons x xs ih =>
    refine List.pairwise_cons.2 ⟨fun b hb => h x (by simp) b (by simp [hb]), ih ?_⟩
    intro a ha b hb
    exact h a (by simp [ha]) b (by simp [hb])

theorem pw_classes {α : Type} (f : α → Nat) (T A B : List α) (hT : ∀ x, x ∈ T → f x = 0)
    (hA : ∀ x, x ∈ A → f x = 1) (hB : ∀ x, x ∈ B → f x = 2) :
    ((T ++ (A ++ B)).map f).Pairwise (· ≤ ·) := by
  rw [List.pairwise_map, List.pairwise_append, List.pairwise_append]
  refine ⟨pw_of_all ?_, ⟨pw_of_all ?_, pw_of_all ?_, ?_⟩, ?_⟩
  · intro a ha b hb; rw [hT a ha]; exact Nat.zero_le _
  · intro a ha b hb; rw [hA a ha, hA b hb]; exact Nat.le_refl _
  · intro a ha b hb; rw [hB a ha, hB b hb]; exact Nat.le_refl _
  · intro a ha b hb; rw [hA a ha, hB b hb]; decide
  · intro a ha b hb; rw [hT a ha]; exact Nat.zero_le _

theorem nodup_fst {tbl : List (Nat × Bool)} (h : (tbl.map (·.1)).Nodup) {c : Nat} {a b : Bool}
    (ha : (c, a) ∈ tbl) (hb : (c, b) ∈ tbl) : a = b := by
  induction tbl with
  | nil => simp at ha
  | cons x xs ih =>
    simp only [List.map_cons, List.nodup_cons, List.mem_map, not_exists, not_and] at h
    obtain ⟨hx, hn⟩ := h
    simp only [List.mem_cons] at ha hb
    rcases ha with ha | ha <;> rcases hb with hb | hb
    · rw [← ha] at hb; exact (by simpa using hb : b = a).symm
    · exact absurd (by rw [← ha]) (hx _ hb)
    · exact absurd (by rw [← hb]) (hx _ ha)
    · exact ih hn ha hb

theorem cls_t13 {tbl : List (Nat × Bool)} {t13 : List Nat} {c : Nat} (h : c ∈ t13) : cls tbl t13 c = 0 := by
  simp [cls, h]

theorem cls_cur {tbl : List (Nat × Bool)} {t13 : List Nat} {c : Nat} (hwf : TablesWF tbl t13 = true)
    (h : (c, false) ∈ tbl) : cls tbl t13 c = 1 := by
  simp only [TablesWF, Bool.and_eq_true, decide_eq_true_eq, List.all_eq_true] at hwf
  have := hwf.2 _ h
  simp at this
  simp [cls, this, h]

theorem cls_old {tbl : List (Nat × Bool)} {t13 : List Nat} {c : Nat} (hwf : TablesWF tbl t13 = true)
    (h : (c, true) ∈ tbl) : cls tbl t13 c = 2 := by
  simp only [TablesWF, Bool.and_eq_true, decide_eq_true_eq, List.all_eq_true] at hwf
  have h1 := hwf.2 _ h
  simp at h1
  have h2 : (c, false) ∉ tbl := fun hf => by
    have := nodup_fst hwf.1 hf h
    simp at this
  simp [cls, h1, h2]

theorem removeRC4_no {cs : List Nat} : ∀ c, c ∈ rc4Ids → c ∉ removeRC4 cs := by
  intro c hc hm
  simp only [removeRC4, List.mem_filter] at hm
  simp at hm
  exact hm.2 hc

theorem stageSuites_inv {coin : Coin} {w : Weights} {tbl : List (Nat × Bool)} {t13 : List Nat} {s r : Stream}
    {b13 : Bool} {vmin : Nat} {suites : List Nat}
    (h : stageSuites coin w tbl t13 s = some ((b13, vmin, suites), r)) :
    r <:+ s ∧ Flipped coin s (.bits w.tls13) b13 ∧
    (TablesWF tbl t13 = true → (suites.map (cls tbl t13)).Pairwise (· ≤ ·)) ∧
    (b13 = true → ∀ c, c ∈ rc4Ids → c ∉ suites) ∧
    ((∀ j n, CoinConst coin s (.scaled w.removeCiphers j n) false) →
      suites.length = fullSuiteCount tbl t13 b13) := by
  unfold stageSuites at h
  rw [andThen_eq_some] at h
  obtain ⟨sh, s1, hsh, h⟩ := h
  obtain ⟨hs1, hperm, A, B, rfl, hA, hB⟩ := shuffledCiphers_inv hsh
  rw [andThen_eq_some] at h
  obtain ⟨b, s2, hb, h⟩ := h
  obtain ⟨hs2, hf⟩ := flip_some hb
  have hs12 := hs2.trans hs1
  cases b with
  | true =>
    simp only [if_true] at h
    rw [andThen_eq_some] at h
    obtain ⟨i, s3, hi, h⟩ := h
    rw [andThen_eq_some] at h
    obtain ⟨t, s4, ht, h⟩ := h
    rw [andThen_eq_some] at h
    obtain ⟨out, s5, hout, h⟩ := h
    simp only [Option.some.injEq, Prod.mk.injEq] at h
    obtain ⟨⟨rfl, _, rfl⟩, rfl⟩ := h
    have hs3 := intn_suf _ _ _ _ hi
    have hs4 := shuffle_suf _ _ _ _ ht
    have htp := C30.shuffle_is_perm _ _ _ _ ht
    obtain ⟨hs5, hsub, _, hall⟩ := removeRandom_inv hout
    have hs14 := (hs4.trans hs3).trans hs12
    refine ⟨hs5.trans hs14, hf.mono hs1, ?_, ?_, ?_⟩
    · intro hwf
      have hpw := pw_classes (cls tbl t13) t A B (fun x hx => cls_t13 (htp.mem_iff.mp hx))
        (fun x hx => cls_cur hwf (hA x hx)) (fun x hx => cls_old hwf (hB x hx))
      exact hpw.sublist ((hsub.trans List.filter_sublist).map _)
    · intro _ c hc hm
      exact removeRC4_no c hc (hsub.subset hm)
    · intro hc
      rw [hall (fun j n v hv => hc j n v (drawsOf_mono hs14 v hv))]
      simp only [fullSuiteCount, if_true, removeRC4]
      exact ((htp.append hperm).filter _).length_eq
  | false =>
    simp only [Bool.false_eq_true, if_false] at h
    rw [andThen_eq_some] at h
    obtain ⟨out, s5, hout, h⟩ := h
    simp only [Option.some.injEq, Prod.mk.injEq] at h
    obtain ⟨⟨rfl, _, rfl⟩, rfl⟩ := h
    obtain ⟨hs5, hsub, _, hall⟩ := removeRandom_inv hout
    refine ⟨hs5.trans hs12, hf.mono hs1, ?_, ?_, ?_⟩
    · intro hwf
      have hpw := pw_classes (cls tbl t13) [] A B (fun x hx => by simp at hx)
        (fun x hx => cls_cur hwf (hA x hx)) (fun x hx => cls_old hwf (hB x hx))
      exact hpw.sublist (hsub.map _)
    · intro hc; simp at hc
    · intro hc
      rw [hall (fun j n v hv => hc j n v (drawsOf_mono hs12 v hv))]
      simp only [fullSuiteCount, Bool.false_eq_true, if_false]
      simpa using hperm.length_eq

/-! ## the other stages -/

theorem stageAlpn_inv {coin : Coin} {w : Weights} {client : Client} {s r : Stream} {b : Bool}
    (h : stageAlpn coin w client s = some (b, r)) :
    r <:+ s ∧ (client = .alpn → b = true) ∧ (client = .noAlpn → b = false) ∧
      (client = .randomized → Flipped coin s (.bits w.alpn) b) := by
  cases client with
  | alpn => simp [stageAlpn] at h; obtain ⟨rfl, rfl⟩ := h; simp
  | noAlpn => simp [stageAlpn] at h; obtain ⟨rfl, rfl⟩ := h; simp
  | randomized =>
    simp only [stageAlpn] at h
    obtain ⟨h1, h2⟩ := flip_some h
    exact ⟨h1, by simp, by simp, fun _ => h2⟩

theorem stageSig_inv {coin : Coin} {w : Weights} {t : Bool} {s r : Stream} {algs : List Nat}
    (h : stageSig coin w t s = some (algs, r)) :
    r <:+ s ∧ ∃ b1 b2 b3 b4, algs.Perm (sigList b1 b2 (b3 || t) b4) ∧
      Flipped coin s (.bits w.sha1) b1 ∧ Flipped coin s (.bits w.p521sig) b2 ∧
      Flipped coin s (.bits w.pss256) b3 ∧
      ((b3 || t) = true → Flipped coin s (.bits w.pss384_512) b4) ∧ ((b3 || t) = false → b4 = false) := by
  unfold stageSig at h
  rw [andThen_eq_some] at h
  obtain ⟨b1, s1, h1, h⟩ := h
  rw [andThen_eq_some] at h
  obtain ⟨b2, s2, h2, h⟩ := h
  rw [andThen_eq_some] at h
  obtain ⟨b3, s3, h3, h⟩ := h
  obtain ⟨u1, f1⟩ := flip_some h1
  obtain ⟨u2, f2⟩ := flip_some h2
  obtain ⟨u3, f3⟩ := flip_some h3
  have u12 := u2.trans u1
  have u13 := u3.trans u12
  by_cases hc : (b3 || t) = true
  · rw [if_pos hc] at h
    rw [andThen_eq_some] at h
    obtain ⟨b4, s4, h4, h⟩ := h
    obtain ⟨u4, f4⟩ := flip_some h4
    refine ⟨(shuffle_suf _ _ _ _ h).trans (u4.trans u13), b1, b2, b3, b4, ?_, f1, f2.mono u1, f3.mono u12,
      fun _ => f4.mono u13, (fun hf => by rw [hc] at hf; cases hf)⟩
    rw [hc]; exact C30.shuffle_is_perm _ _ _ _ h
  · rw [if_neg hc] at h
    have hc' : (b3 || t) = false := by simpa using hc
    refine ⟨(shuffle_suf _ _ _ _ h).trans u13, b1, b2, b3, false, ?_, f1, f2.mono u1, f3.mono u12,
      (fun hf => by rw [hc'] at hf; cases hf), fun _ => rfl⟩
    rw [hc']; exact C30.shuffle_is_perm _ _ _ _ h

theorem stageCurves_inv {coin : Coin} {w : Weights} {s r : Stream} {a b c : Bool}
    (h : stageCurves coin w s = some ((a, b, c), r)) :
    r <:+ s ∧ Flipped coin s (.bits w.x25519) a ∧ Flipped coin s (.bits w.x25519) b ∧
      Flipped coin s (.bits w.p521) c := by
  unfold stageCurves at h
  rw [andThen_eq_some] at h
  obtain ⟨b1, s1, h1, h⟩ := h
  rw [andThen_eq_some] at h
  obtain ⟨b2, s2, h2, h⟩ := h
  rw [andThen_eq_some] at h
  obtain ⟨b3, s3, h3, h⟩ := h
  simp only [Option.some.injEq, Prod.mk.injEq] at h
  obtain ⟨⟨rfl, rfl, rfl⟩, rfl⟩ := h
  obtain ⟨u1, f1⟩ := flip_some h1
  obtain ⟨u2, f2⟩ := flip_some h2
  obtain ⟨u3, f3⟩ := flip_some h3
  exact ⟨u3.trans (u2.trans u1), f1, f2.mono u1, f3.mono (u2.trans u1)⟩

theorem stageOpt_inv {coin : Coin} {w : Weights} {s r : Stream} {p st sc rn em : Bool}
    (h : stageOpt coin w s = some ((p, st, sc, rn, em), r)) :
    r <:+ s ∧ Flipped coin s (.bits w.padding) p ∧ Flipped coin s (.bits w.status) st ∧
      Flipped coin s (.bits w.sct) sc ∧ Flipped coin s (.bits w.reneg) rn ∧ Flipped coin s (.bits w.ems) em := by
  unfold stageOpt at h
  rw [andThen_eq_some] at h
  obtain ⟨b1, s1, h1, h⟩ := h
  rw [andThen_eq_some] at h
  obtain ⟨b2, s2, h2, h⟩ := h
  rw [andThen_eq_some] at h
  obtain ⟨b3, s3, h3, h⟩ := h
  rw [andThen_eq_some] at h
  obtain ⟨b4, s4, h4, h⟩ := h
  rw [andThen_eq_some] at h
  obtain ⟨b5, s5, h5, h⟩ := h
  simp only [Option.some.injEq, Prod.mk.injEq] at h
  obtain ⟨⟨rfl, rfl, rfl, rfl, rfl⟩, rfl⟩ := h
  obtain ⟨u1, f1⟩ := flip_some h1
  obtain ⟨u2, f2⟩ := flip_some h2
  obtain ⟨u3, f3⟩ := flip_some h3
  obtain ⟨u4, f4⟩ := flip_some h4
  obtain ⟨u5, f5⟩ := flip_some h5
  have u12 := u2.trans u1
  have u13 := u3.trans u12
  have u14 := u4.trans u13
  exact ⟨u5.trans u14, f1, f2.mono u1, f3.mono u12, f4.mono u13, f5.mono u14⟩

theorem stage13_inv {coin : Coin} {w : Weights} {withAlpn : Bool} {s sA r : Stream} {first rg a : Bool}
    (h : stage13 coin w withAlpn s sA = some ((first, rg, a), r)) :
    r <:+ s ∧ Flipped coin s (.bits w.firstP256) first ∧
      (first = false → Flipped coin s (.bits w.randomGroups) rg) ∧ (first = true → rg = false) ∧
      (withAlpn = true → Flipped coin sA (.bits w.alps) a) ∧ (withAlpn = false → a = false) := by
  unfold stage13 at h
  rw [andThen_eq_some] at h
  obtain ⟨b1, s1, h1, h⟩ := h
  obtain ⟨u1, f1⟩ := flip_some h1
  -- the common ending
  have fin : ∀ (rg' : Bool) (s' : Stream),
      (if withAlpn = true then andThen (flip coin (.bits w.alps) sA) fun a _ => some ((b1, rg', a), s')
        else some ((b1, rg', false), s')) = some ((first, rg, a), r) →
      b1 = first ∧ rg' = rg ∧ s' = r ∧ (withAlpn = true → Flipped coin sA (.bits w.alps) a) ∧
        (withAlpn = false → a = false) := by
    intro rg' s' hfin
    cases withAlpn with
    | true =>
      simp only [if_true] at hfin
      rw [andThen_eq_some] at hfin
      obtain ⟨a', r', ha, hfin⟩ := hfin
      simp only [Option.some.injEq, Prod.mk.injEq] at hfin
      obtain ⟨⟨rfl, rfl, rfl⟩, rfl⟩ := hfin
      exact ⟨rfl, rfl, rfl, fun _ => (flip_some ha).2, fun hf => by cases hf⟩
    | false =>
      simp only [Bool.false_eq_true, if_false, Option.some.injEq, Prod.mk.injEq] at hfin
      obtain ⟨⟨rfl, rfl, rfl⟩, rfl⟩ := hfin
      exact ⟨rfl, rfl, rfl, (fun hf => by cases hf), fun _ => rfl⟩
  cases b1 with
  | true =>
    simp only [if_true] at h
    obtain ⟨rfl, rfl, rfl, ha, ha'⟩ := fin false s1 h
    exact ⟨u1, f1, (fun hf => by cases hf), fun _ => rfl, ha, ha'⟩
  | false =>
    simp only [Bool.false_eq_true, if_false] at h
    rw [andThen_eq_some] at h
    obtain ⟨b2, s2, h2, h⟩ := h
    rw [andThen_eq_some] at h
    obtain ⟨b3, s3, h3, h⟩ := h
    obtain ⟨u2, f2⟩ := flip_some h2
    obtain ⟨u3, _⟩ := flip_some h3
    obtain ⟨rfl, rfl, rfl, ha, ha'⟩ := fin b2 s3 h
    exact ⟨u3.trans (u2.trans u1), f1, fun _ => f2.mono u1, (fun hf => by cases hf), ha, ha'⟩

/-- what is known about the choices `draw` made, in terms of coin outcomes on the draws of the two streams. -/
structure Facts (coin : Coin) (w : Weights) (client : Client) (tbl : List (Nat × Bool)) (t13 : List Nat)
    (s sA : Stream) (d : Drawn) : Prop where
  alpnA : client = .alpn → d.withAlpn = true
  alpnN : client = .noAlpn → d.withAlpn = false
  alpnR : client = .randomized → Flipped coin s (.bits w.alpn) d.withAlpn
  tls13 : Flipped coin s (.bits w.tls13) d.tls13
  order : TablesWF tbl t13 = true → (d.suites.map (cls tbl t13)).Pairwise (· ≤ ·)
  norc4 : d.tls13 = true → ∀ c, c ∈ rc4Ids → c ∉ d.suites
  full : (∀ j n, CoinConst coin s (.scaled w.removeCiphers j n) false) →
    d.suites.length = fullSuiteCount tbl t13 d.tls13
  sig : ∃ b1 b2 b3 b4, d.algs.Perm (sigList b1 b2 (b3 || d.tls13) b4) ∧
      Flipped coin s (.bits w.sha1) b1 ∧ Flipped coin s (.bits w.p521sig) b2 ∧
      Flipped coin s (.bits w.pss256) b3 ∧
      ((b3 || d.tls13) = true → Flipped coin s (.bits w.pss384_512) b4) ∧ ((b3 || d.tls13) = false → b4 = false)
  hyb : Flipped coin s (.bits w.x25519) d.hyb
  x : Flipped coin s (.bits w.x25519) d.x
  p521 : Flipped coin s (.bits w.p521) d.p521
  pad : Flipped coin s (.bits w.padding) d.pad
  st : Flipped coin s (.bits w.status) d.st
  sc : Flipped coin s (.bits w.sct) d.sc
  rn : Flipped coin s (.bits w.reneg) d.rn
  em : Flipped coin s (.bits w.ems) d.em
  first : d.tls13 = true → Flipped coin s (.bits w.firstP256) d.first
  rg : d.tls13 = true → d.first = false → Flipped coin s (.bits w.randomGroups) d.rg
  rg' : d.first = true → d.rg = false
  alps : d.tls13 = true → d.withAlpn = true → Flipped coin sA (.bits w.alps) d.alps
  alps' : d.withAlpn = false → d.alps = false
  tls12 : d.tls13 = false → d.first = false ∧ d.rg = false ∧ d.alps = false

theorem draw_inv {client : Client} {w : Weights} {coin : Coin} {tbl : List (Nat × Bool)} {t13 : List Nat}
    {s sA r : Stream} {d : Drawn} (h : draw client w coin tbl t13 s sA = some (d, r)) :
    r <:+ s ∧ Facts coin w client tbl t13 s sA d := by
  unfold draw at h
  rw [andThen_eq_some] at h
  obtain ⟨wa, s1, h1, h⟩ := h
  rw [andThen_eq_some] at h
  obtain ⟨⟨b13, vmin, suites⟩, s2, h2, h⟩ := h
  rw [andThen_eq_some] at h
  obtain ⟨algs, s3, h3, h⟩ := h
  rw [andThen_eq_some] at h
  obtain ⟨⟨ca, cb, cc⟩, s4, h4, h⟩ := h
  rw [andThen_eq_some] at h
  obtain ⟨⟨p, st, sc, rn, em⟩, s5, h5, h⟩ := h
  obtain ⟨u1, a1, a2, a3⟩ := stageAlpn_inv h1
  obtain ⟨u2, t1, t2, t3, t4⟩ := stageSuites_inv h2
  obtain ⟨u3, b1, b2, b3, b4, g0, g1, g2, g3, g4, g5⟩ := stageSig_inv h3
  obtain ⟨u4, c1, c2, c3⟩ := stageCurves_inv h4
  obtain ⟨u5, o1, o2, o3, o4, o5⟩ := stageOpt_inv h5
  have v2 := u2.trans u1
  have v3 := u3.trans v2
  have v4 := u4.trans v3
  have v5 := u5.trans v4
  have hfull : (∀ j n, CoinConst coin s (.scaled w.removeCiphers j n) false) →
      suites.length = fullSuiteCount tbl t13 b13 :=
    fun hc => t4 (fun j n v hv => hc j n v (drawsOf_mono u1 v hv))
  have hsig : ∃ b1 b2 b3 b4, algs.Perm (sigList b1 b2 (b3 || b13) b4) ∧
      Flipped coin s (.bits w.sha1) b1 ∧ Flipped coin s (.bits w.p521sig) b2 ∧
      Flipped coin s (.bits w.pss256) b3 ∧
      ((b3 || b13) = true → Flipped coin s (.bits w.pss384_512) b4) ∧ ((b3 || b13) = false → b4 = false) :=
    ⟨b1, b2, b3, b4, g0, g1.mono v2, g2.mono v2, g3.mono v2, fun hc => (g4 hc).mono v2, g5⟩
  cases b13 with
  | true =>
    simp only [if_true] at h
    rw [andThen_eq_some] at h
    obtain ⟨⟨first, rg, al⟩, s6, h6, h⟩ := h
    simp only [Option.some.injEq, Prod.mk.injEq] at h
    obtain ⟨rfl, rfl⟩ := h
    obtain ⟨u6, k1, k2, k3, k4, k5⟩ := stage13_inv h6
    exact ⟨u6.trans v5,
      { alpnA := a1, alpnN := a2, alpnR := a3, tls13 := t1.mono u1, order := t2, norc4 := t3, full := hfull,
        sig := hsig, hyb := c1.mono v3, x := c2.mono v3, p521 := c3.mono v3,
        pad := o1.mono v4, st := o2.mono v4, sc := o3.mono v4, rn := o4.mono v4, em := o5.mono v4,
        first := fun _ => k1.mono v5, rg := fun _ hf => (k2 hf).mono v5, rg' := k3,
        alps := fun _ ha => k4 ha, alps' := k5, tls12 := (fun hf => by cases hf) }⟩
  | false =>
    simp only [Bool.false_eq_true, if_false, Option.some.injEq, Prod.mk.injEq] at h
    obtain ⟨rfl, rfl⟩ := h
    exact ⟨v5,
      { alpnA := a1, alpnN := a2, alpnR := a3, tls13 := t1.mono u1, order := t2, norc4 := t3, full := hfull,
        sig := hsig, hyb := c1.mono v3, x := c2.mono v3, p521 := c3.mono v3,
        pad := o1.mono v4, st := o2.mono v4, sc := o3.mono v4, rn := o4.mono v4, em := o5.mono v4,
        first := (fun hf => by cases hf), rg := (fun hf => by cases hf), rg' := (fun hf => by cases hf),
        alps := (fun hf => by cases hf), alps' := fun _ => rfl, tls12 := fun _ => ⟨rfl, rfl, rfl⟩ }⟩

/-- inversion of `gen`: the spec is the drawn choices, its extension list a permutation of `extsOf`. -/
theorem gen_inv {client : Client} {w : Weights} {coin : Coin} {tbl : List (Nat × Bool)} {t13 : List Nat}
    {sni : Wire.Bytes} {protos : List Wire.Bytes} {s sA : Stream} {sp : Spec}
    (h : gen client w coin tbl t13 sni protos s sA = some sp) :
    ∃ d, Facts coin w client tbl t13 s sA d ∧ sp.exts.Perm (extsOf sni protos d) ∧ sp.suites = d.suites ∧
      sp.versMin = d.vmin ∧ sp.versMax = (if d.tls13 then vTLS13 else vTLS12) ∧ sp.compression = [] := by
  unfold gen at h
  rw [andThen_eq_some] at h
  obtain ⟨d, s1, h1, h⟩ := h
  rw [andThen_eq_some] at h
  obtain ⟨exts, s2, h2, h⟩ := h
  simp only [Option.some.injEq] at h
  subst h
  exact ⟨d, (draw_inv h1).2, C30.shuffle_is_perm _ _ _ _ h2, rfl, rfl, rfl, rfl⟩

end Randomized
