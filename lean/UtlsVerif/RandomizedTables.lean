import UtlsVerif.Randomized
import UtlsVerif.Gen.C09Suites
/-! The tables `generateRandomizedSpec` ranges over, as regenerated from the working tree
(`Gen.C09Suites`, written by harness/cmd/gen/c09.go), in the shape `Randomized.gen` takes. -/
namespace Randomized

/-- `cipherSuites`: (id, lacks `suiteTLS12`). -/
def realTbl : List (Nat × Bool) := Gen.C09Suites.table.map fun r => (r.1, r.2.1)
/-- `defaultCipherSuitesTLS13`. -/
def realT13 : List Nat := Gen.C09Suites.tls13
/-- ids of the table rows whose registered suite name says RC4. -/
def rc4Named : List Nat := (Gen.C09Suites.table.filter fun r => r.2.2).map (·.1)
/-- RC4 suites for the monitor: the ids `removeRC4Ciphers` names plus the RC4-named rows. -/
def rc4All : List Nat := rc4Ids ++ rc4Named

end Randomized
