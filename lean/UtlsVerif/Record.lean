import UtlsVerif.Wire
import UtlsVerif.Keystream
/-!
# Record — the TLS record layer after the handshake (conn.go, u_conn.go)

Transcribes, for a connection whose handshake is complete:

* `halfConn.encrypt` / `halfConn.decrypt` for the four cipher kinds the suite tables can produce
  (`prefixNonceAEAD`, `xorNonceAEAD`, `cbcMode` with MAC-then-encrypt, `cipher.Stream` = RC4),
  incl. the TLS 1.3 inner content type, the TLS 1.2 explicit nonce (= sequence number), explicit /
  chained CBC IVs, `extractPadding` and the combined MAC-and-padding check;
* `Conn.maxPayloadSizeForWrite` (dynamic record sizing), `writeRecordLocked` (fragmentation loop),
  `UConn.Write` / `Conn.Write` (1/n−1 split for TLS 1.0 block ciphers), `sendAlert`;
* `readRecordOrCCS` (handshake complete, no ChangeCipherSpec expected), `handlePostHandshakeMessage`
  / `handleKeyUpdate`, `UConn.Read` / `Conn.Read` incl. the close_notify peek;
* per-direction sequence numbers, TLS 1.3 KeyUpdate (sending side = what `handleKeyUpdate` does for
  its own response).

Cryptography is a parameter (`Crypto`): AEAD `aseal/aopen`, HMAC, CBC, RC4, `Config.rand()`, the
TLS 1.3 secret ratchet. Laws (`Crypto.Laws`) and authenticity enter the theorems as hypotheses.
The wire between two endpoints is the receiver's `raw` buffer (`c.rawInput` plus whatever the kernel
still holds); a read that needs bytes that are not there is `short` (the real code blocks, or fails
with an unexpected EOF once the peer is gone).

Not modelled: `incSeq`'s panic at 2^64 records (`seq` is an unbounded `Nat`, encoded mod 2^64);
renegotiation (a TLS ≤ 1.2 post-handshake handshake record is the terminal error `renego`);
the body of NewSessionTicket messages (a client ignores them, a server refuses them); QUIC.
Core Lean only.
-/
namespace Record
open Wire Keystream

abbrev maxPlaintext : Nat := 16384
abbrev maxCiphertext : Nat := 16384 + 2048
abbrev maxCiphertextTLS13 : Nat := 16384 + 256
abbrev tcpMSSEstimate : Nat := 1208
abbrev recordSizeBoostThreshold : Nat := 131072
abbrev maxUselessRecords : Nat := 32
abbrev maxHandshake : Nat := 65536

abbrev tCCS : Nat := 20
abbrev tAlert : Nat := 21
abbrev tHs : Nat := 22
abbrev tApp : Nat := 23

abbrev v10 : Nat := 0x0301
abbrev v11 : Nat := 0x0302
abbrev v12 : Nat := 0x0303
abbrev v13 : Nat := 0x0304

abbrev alertCloseNotify : Nat := 0
abbrev alertUnexpectedMessage : Nat := 10
abbrev alertBadRecordMAC : Nat := 20
abbrev alertRecordOverflow : Nat := 22
abbrev alertDecodeError : Nat := 50
abbrev alertProtocolVersion : Nat := 70
abbrev alertInternalError : Nat := 80
abbrev alertNoRenegotiation : Nat := 100

abbrev typeNewSessionTicket : Nat := 4
abbrev typeKeyUpdate : Nat := 24

/-- what `hc.cipher` is. -/
inductive Kind where
  | aead (w : Wrapper)
  | cbc
  | stream
  deriving DecidableEq, Repr

/-- the negotiated parameters both directions share. -/
structure Suite where
  vers : Nat
  kind : Kind
  /-- `hc.mac.Size()` (CBC, RC4) -/
  macLen : Nat := 0
  /-- `c.BlockSize()` (CBC) -/
  blockLen : Nat := 16
  /-- `c.Overhead()` (AEAD) -/
  tagLen : Nat := 16
  deriving DecidableEq, Repr

/-- per-endpoint parameters. -/
structure Params where
  s : Suite
  /-- `!Config.DynamicRecordSizingDisabled` -/
  dynamic : Bool := true
  /-- `UConn.Write` (`vers <= TLS10`) vs `Conn.Write` (`vers == TLS10`) -/
  uconn : Bool := false
  isClient : Bool := false
  deriving DecidableEq, Repr

/-- the primitives, uninterpreted. -/
structure Crypto where
  /-- inner `cipher.AEAD.Seal(key)(nonce12, plaintext, ad)` -/
  aseal : Bytes → Bytes → Bytes → Bytes → Bytes
  /-- inner `cipher.AEAD.Open` (argument order: key nonce ad ciphertext) -/
  aopen : Bytes → Bytes → Bytes → Bytes → Option Bytes
  /-- `tls10MAC` = HMAC(key)(seq ‖ header ‖ data) -/
  mac : Bytes → Bytes → Bytes
  /-- `SetIV(iv); CryptBlocks` of a CBC encrypter / decrypter (key iv data) -/
  cbcEnc : Bytes → Bytes → Bytes → Bytes
  cbcDec : Bytes → Bytes → Bytes → Bytes
  /-- RC4 `XORKeyStream` at keystream offset `off` (key off data) -/
  xorStream : Bytes → Nat → Bytes → Bytes
  /-- the `i`-th read of `n` bytes from `Config.rand()` by this writer -/
  rand : Nat → Nat → Bytes
  /-- `nextTrafficSecret`, and `trafficKey` split in two -/
  nextSecret : Bytes → Bytes
  keyOf : Bytes → Bytes
  ivOf : Bytes → Bytes

/-- the laws of the primitives that the round-trip proofs use. -/
structure Crypto.Laws (C : Crypto) (tagLen macLen : Nat) : Prop where
  mac_len : ∀ k m, (C.mac k m).length = macLen
  seal_len : ∀ k n ad p, (C.aseal k n ad p).length = p.length + tagLen
  open_seal : ∀ k n ad p, C.aopen k n ad (C.aseal k n ad p) = some p
  cbcEnc_len : ∀ k iv p, (C.cbcEnc k iv p).length = p.length
  cbcDec_enc : ∀ k iv p, C.cbcDec k iv (C.cbcEnc k iv p) = p
  xor_len : ∀ k o p, (C.xorStream k o p).length = p.length
  xor_invol : ∀ k o p, C.xorStream k o (C.xorStream k o p) = p
  rand_len : ∀ i n, (C.rand i n).length = n
  /-- `trafficKey` returns a 12-byte IV (the XOR wrapper's `nonceMask`) -/
  ivOf_len : ∀ s, (C.ivOf s).length = 12

/-- one direction's cipher state (`halfConn`). -/
structure Half where
  key : Bytes := []
  /-- AEAD: the wrapper's 12-byte array; CBC in TLS 1.0: the chained IV -/
  iv : Bytes := []
  macKey : Bytes := []
  /-- TLS 1.3 `trafficSecret` -/
  secret : Bytes := []
  seq : Nat := 0
  /-- RC4 keystream position -/
  soff : Nat := 0
  /-- number of `Config.rand()` draws so far (explicit CBC IVs) -/
  rctr : Nat := 0
  /-- ghost: number of key changes (KeyUpdates) -/
  epoch : Nat := 0
  deriving DecidableEq, Repr

def wireVers (v : Nat) : Nat := if v = v13 then v12 else v

/-- the 5-byte record header (`outBuf[0..4]`); both 16-bit fields truncate. -/
def hdr (typ vers len : Nat) : Bytes := b typ :: (u16 vers ++ u16 len)

@[simp] theorem hdr_length (t v l : Nat) : (hdr t v l).length = 5 := rfl

def explicitNonceLen (s : Suite) : Nat :=
  match s.kind with
  | .stream => 0
  | .aead .pfx => 8
  | .aead .xor => 0
  | .cbc => if s.vers ≥ v11 then s.blockLen else 0

/-- `paddingLen := blockSize - plaintextLen%blockSize`, every byte `paddingLen-1`. -/
def cbcPadding (bl n : Nat) : Bytes := List.replicate (bl - n % bl) (b (bl - n % bl - 1))

/-- `halfConn.encrypt(record = header, payload)`: the finished record and the next state. -/
def encrypt (C : Crypto) (s : Suite) (h : Half) (typ : Nat) (payload : Bytes) : Bytes × Half :=
  let rv := wireVers s.vers
  match s.kind with
  | .stream =>
    let mac := C.mac h.macKey (seq8 h.seq ++ hdr typ rv payload.length ++ payload)
    let body := C.xorStream h.key h.soff (payload ++ mac)
    (hdr typ rv body.length ++ body,
      { h with seq := h.seq + 1, soff := h.soff + (payload ++ mac).length })
  | .cbc =>
    let mac := C.mac h.macKey (seq8 h.seq ++ hdr typ rv payload.length ++ payload)
    let padded := payload ++ mac ++ cbcPadding s.blockLen (payload.length + mac.length)
    if s.vers ≥ v11 then
      let iv := C.rand h.rctr s.blockLen
      let body := iv ++ C.cbcEnc h.key iv padded
      (hdr typ rv body.length ++ body, { h with seq := h.seq + 1, rctr := h.rctr + 1 })
    else
      let ct := C.cbcEnc h.key h.iv padded
      (hdr typ rv ct.length ++ ct,
        { h with seq := h.seq + 1, iv := ct.drop (ct.length - s.blockLen) })
  | .aead w =>
    let n8 := seq8 h.seq
    let nonce := nonceFor w h.iv n8
    let explicit : Bytes := match w with | .pfx => n8 | .xor => []
    let h' := { h with seq := h.seq + 1, iv := stateAfter w h.iv n8 }
    if s.vers = v13 then
      let ad := hdr tApp rv (payload.length + 1 + s.tagLen)
      let body := explicit ++ C.aseal h.key nonce ad (payload ++ [b typ])
      (hdr tApp rv body.length ++ body, h')
    else
      let ad := n8 ++ hdr typ rv payload.length
      let body := explicit ++ C.aseal h.key nonce ad payload
      (hdr typ rv body.length ++ body, h')

def roundUp (a m : Nat) : Nat := a + (m - a % m) % m

/-- `extractPadding`: (bytes to remove, padding good). The constant-time loop checks the last
`paddingLen+1` bytes (at most 256, at most the payload) against `paddingLen`; on failure
`paddingLen` is zeroed, so one byte is removed. -/
def extractPadding (pl : Bytes) : Nat × Bool :=
  match pl.getLast? with
  | none => (0, false)
  | some last =>
    let good := decide (last.toNat + 1 ≤ pl.length) &&
      (pl.drop (pl.length - (last.toNat + 1))).all (· == last)
    (if good then last.toNat + 1 else 1, good)

/-- the `hc.mac != nil` block of `decrypt`: `n` is clamped at 0 (`ConstantTimeSelect`), the header
length bytes are replaced by `n` before the MAC is computed. -/
def checkMac (C : Crypto) (s : Suite) (h : Half) (record pl : Bytes) (paddingLen : Nat)
    (paddingGood : Bool) : Except Nat Bytes :=
  if pl.length < s.macLen then .error alertBadRecordMAC
  else
    let n := pl.length - s.macLen - paddingLen
    let remote := (pl.drop n).take s.macLen
    let localMac := C.mac h.macKey (seq8 h.seq ++ record.take 3 ++ u16 n ++ pl.take n)
    if localMac = remote ∧ paddingGood = true then .ok (pl.take n) else .error alertBadRecordMAC

/-- TLS 1.3: strip zero padding from the end and take the last non-zero byte as the content type.
An empty plaintext leaves the outer type (application_data) and no data. -/
def stripInner (pt : Bytes) : Option (Nat × Bytes) :=
  if pt = [] then some (tApp, [])
  else
    match pt.reverse.dropWhile (· == 0) with
    | [] => none
    | t :: rest => some (t.toNat, rest.reverse)

/-- `halfConn.decrypt(record)`: plaintext, content type and next state, or the alert. -/
def decrypt (C : Crypto) (s : Suite) (h : Half) (record : Bytes) : Except Nat (Bytes × Nat × Half) :=
  let typ := (record.headD 0).toNat
  let payload := record.drop 5
  if s.vers = v13 ∧ typ = tCCS then .ok (payload, typ, h)
  else
    match s.kind with
    | .stream =>
      let pl := C.xorStream h.key h.soff payload
      match checkMac C s h record pl 0 true with
      | .error a => .error a
      | .ok pt => .ok (pt, typ, { h with seq := h.seq + 1, soff := h.soff + payload.length })
    | .cbc =>
      let enl := explicitNonceLen s
      if payload.length % s.blockLen ≠ 0 ∨ payload.length < enl + roundUp (s.macLen + 1) s.blockLen then
        .error alertBadRecordMAC
      else
        let iv := if enl > 0 then payload.take enl else h.iv
        let ct := payload.drop enl
        let pl := C.cbcDec h.key iv ct
        let pg := extractPadding pl
        match checkMac C s h record pl pg.1 pg.2 with
        | .error a => .error a
        | .ok pt =>
          .ok (pt, typ, { h with seq := h.seq + 1,
                                 iv := if enl > 0 then h.iv else ct.drop (ct.length - s.blockLen) })
    | .aead w =>
      let enl := explicitNonceLen s
      if payload.length < enl then .error alertBadRecordMAC
      else
        let n8 := if enl = 0 then seq8 h.seq else payload.take enl
        let ct := payload.drop enl
        let ad := if s.vers = v13 then record.take 5
                  else seq8 h.seq ++ record.take 3 ++ u16 (ct.length + 65536 - s.tagLen)
        match C.aopen h.key (nonceFor w h.iv n8) ad ct with
        | none => .error alertBadRecordMAC
        | some pt =>
          let h' := { h with seq := h.seq + 1, iv := stateAfter w h.iv n8 }
          if s.vers = v13 then
            if typ ≠ tApp then .error alertUnexpectedMessage
            else if pt.length > maxPlaintext + 1 then .error alertRecordOverflow
            else
              match stripInner pt with
              | none => .error alertUnexpectedMessage
              | some (t, d) => .ok (d, t, h')
          else .ok (pt, typ, h')

/-! ### connection state, writing -/

inductive Err where
  | alert (code : Nat)      -- local error, this alert was sent
  | version                 -- RecordHeaderError "received record with version …" (protocol_version sent)
  | oversized               -- RecordHeaderError "oversized record received" (record_overflow sent)
  | eof                     -- close_notify received
  | remote (code : Nat)     -- remote error alert
  | tooMany                 -- too many ignored / non-advancing records
  | renego                  -- TLS ≤ 1.2 post-handshake handshake data (renegotiation path, not modelled further)
  | hsTooLong               -- post-handshake message longer than maxHandshake
  | ticketFromClient        -- a server received NewSessionTicket
  deriving DecidableEq, Repr

structure Conn where
  p : Params
  inn : Half
  out : Half
  /-- received, not yet parsed bytes (`rawInput` + in flight) -/
  raw : Bytes := []
  /-- decrypted application data not yet returned (`c.input`) -/
  input : Bytes := []
  /-- `c.hand` -/
  hand : Bytes := []
  retry : Nat := 0
  bytesSent : Nat := 0
  packetsSent : Nat := 0
  inErr : Option Err := none
  outErr : Option Err := none
  deriving Repr

/-- the per-record payload budget before the arithmetic progression (`payloadBytes`); `& ^(bs-1)`
is rounding down to a multiple of the block size (8 or 16). -/
def payloadBytes (s : Suite) : Nat :=
  let base := tcpMSSEstimate - 5 - explicitNonceLen s
  let x := match s.kind with
    | .stream => base - s.macLen
    | .aead _ => base - s.tagLen
    | .cbc => base / s.blockLen * s.blockLen - 1 - s.macLen
  if s.vers = v13 then x - 1 else x

/-- `maxPayloadSizeForWrite(typ)`; increments `packetsSent` as a side effect. -/
def maxPayload (c : Conn) (typ : Nat) : Nat × Conn :=
  if !c.p.dynamic || typ ≠ tApp then (maxPlaintext, c)
  else if c.bytesSent ≥ recordSizeBoostThreshold then (maxPlaintext, c)
  else
    let pkt := c.packetsSent
    let c' := { c with packetsSent := pkt + 1 }
    if pkt > 1000 then (maxPlaintext, c')
    else (min (payloadBytes c.p.s * (pkt + 1)) maxPlaintext, c')

/-- the loop of `writeRecordLocked`; the fuel is the data length (every round consumes ≥ 1 byte). -/
def writeLoop (C : Crypto) : Nat → Conn → Nat → Bytes → List Bytes × Conn
  | 0, c, _, _ => ([], c)
  | f + 1, c, typ, data =>
    if data = [] then ([], c)
    else
      let mp := maxPayload c typ
      let m := min data.length mp.1
      let e := encrypt C c.p.s mp.2.out typ (data.take m)
      let c2 := { mp.2 with out := e.2, bytesSent := mp.2.bytesSent + e.1.length }
      let r := writeLoop C f c2 typ (data.drop m)
      (e.1 :: r.1, r.2)

/-- `writeRecordLocked(typ, data)` for alert / handshake / application data. -/
def writeRecord (C : Crypto) (c : Conn) (typ : Nat) (data : Bytes) : List Bytes × Conn :=
  writeLoop C data.length c typ data

/-- does the 1/n−1 split condition on the version hold. -/
def splitVers (p : Params) : Bool :=
  if p.uconn then decide (p.s.vers ≤ v10) else decide (p.s.vers = v10)

/-- `UConn.Write(b)` / `Conn.Write(b)` after the handshake: records put on the wire. With a
pending write error nothing is written. -/
def write (C : Crypto) (c : Conn) (data : Bytes) : List Bytes × Conn :=
  if c.outErr.isSome then ([], c)
  else if data.length > 1 ∧ splitVers c.p = true ∧ c.p.s.kind = .cbc then
    let r1 := writeRecord C c tApp (data.take 1)
    let r2 := writeRecord C r1.2 tApp (data.drop 1)
    (r1.1 ++ r2.1, r2.2)
  else writeRecord C c tApp data

def keyUpdateMsg (req : Bool) : Bytes := [24, 0, 0, 1, if req then 1 else 0]

/-- `setTrafficSecret(nextTrafficSecret(secret))`. -/
def rekey (C : Crypto) (h : Half) : Half :=
  let s := C.nextSecret h.secret
  { h with secret := s, key := C.keyOf s, iv := C.ivOf s, seq := 0, epoch := h.epoch + 1 }

/-- sending a KeyUpdate: the record goes out under the old key, then the direction is re-keyed. -/
def sendKeyUpdate (C : Crypto) (c : Conn) (req : Bool) : List Bytes × Conn :=
  let r := writeRecord C c tHs (keyUpdateMsg req)
  (r.1, { r.2 with out := rekey C r.2.out })

/-- `sendAlertLocked`. -/
def sendAlert (C : Crypto) (c : Conn) (code : Nat) : List Bytes × Conn :=
  let level := if code = alertNoRenegotiation ∨ code = alertCloseNotify then 1 else 2
  let r := writeRecord C c tAlert [b level, b code]
  (r.1, if code = alertCloseNotify then r.2 else { r.2 with outErr := some (.alert code) })

/-! ### reading -/

inductive Step where
  /-- not enough bytes for the next header / record: the real code blocks -/
  | short
  | fail (e : Err) (c : Conn) (sent : List Bytes)
  | next (c : Conn) (sent : List Bytes)
  deriving Repr

def failAlert (C : Crypto) (c : Conn) (code : Nat) : Step :=
  let r := sendAlert C c code
  .fail (.alert code) { r.2 with inErr := some (.alert code) } r.1

def failWith (e : Err) (c : Conn) (sent : List Bytes) : Step :=
  .fail e { c with inErr := some e } sent

/-- `retryReadRecord`: the dropped record counts against `maxUselessRecords`. -/
def retryStep (C : Crypto) (c : Conn) : Step :=
  let c1 := { c with retry := c.retry + 1 }
  if c1.retry > maxUselessRecords then
    let r := sendAlert C c1 alertUnexpectedMessage
    failWith .tooMany r.2 r.1
  else .next c1 []

/-- the switch on the content type at the end of `readRecordOrCCS` (handshake complete, no
ChangeCipherSpec expected). -/
def dispatch (C : Crypto) (c3 : Conn) (typ : Nat) (data : Bytes) : Step :=
  if typ = tAlert then
    match data with
    | [lvl, code] =>
      if code.toNat = alertCloseNotify then failWith .eof c3 []
      else if c3.p.s.vers = v13 then failWith (.remote code.toNat) c3 []
      else if lvl.toNat = 1 then retryStep C c3
      else if lvl.toNat = 2 then failWith (.remote code.toNat) c3 []
      else failAlert C c3 alertUnexpectedMessage
    | _ => failAlert C c3 alertUnexpectedMessage
  else if typ = tCCS then
    if data ≠ [1] then failAlert C c3 alertDecodeError
    else failAlert C c3 alertUnexpectedMessage
  else if typ = tApp then
    if data = [] then retryStep C c3 else .next { c3 with input := data } []
  else if typ = tHs then
    if data = [] then failAlert C c3 alertUnexpectedMessage
    else .next { c3 with hand := c3.hand ++ data } []
  else failAlert C c3 alertUnexpectedMessage

/-- `readRecordOrCCS` after a successful `decrypt`: `c1` is the connection with the record removed
from `raw`. -/
def afterDecrypt (C : Crypto) (c1 : Conn) (data : Bytes) (typ : Nat) (inn' : Half) : Step :=
  let c2 := { c1 with inn := inn' }
  if data.length > maxPlaintext then failAlert C c2 alertRecordOverflow
  else
    let c3 := if typ ≠ tAlert ∧ typ ≠ tCCS ∧ data.length > 0 then { c2 with retry := 0 } else c2
    if c1.p.s.vers = v13 ∧ typ ≠ tHs ∧ c3.hand.length > 0 then failAlert C c3 alertUnexpectedMessage
    else dispatch C c3 typ data

/-- the record header at the start of `raw`: (version, length, bytes after the header). -/
def parseHeader (raw : Bytes) : Option (Nat × Nat × Bytes) :=
  match raw with
  | _ :: va :: vb :: la :: lb :: rest => some (va.toNat * 256 + vb.toNat, la.toNat * 256 + lb.toNat, rest)
  | _ => none

/-- one pass of `readRecordOrCCS(false)` with the handshake complete: consumes one record. -/
def readRecord (C : Crypto) (c : Conn) : Step :=
  match c.inErr with
  | some e => .fail e c []
  | none =>
    match parseHeader c.raw with
    | none => .short
    | some (vers, n, rest) =>
      if vers ≠ wireVers c.p.s.vers then
        let r := sendAlert C c alertProtocolVersion
        failWith .version r.2 r.1
      else if (c.p.s.vers = v13 ∧ n > maxCiphertextTLS13) ∨ n > maxCiphertext then
        let r := sendAlert C c alertRecordOverflow
        failWith .oversized r.2 r.1
      else if rest.length < n then .short
      else
        match decrypt C c.p.s c.inn (c.raw.take (5 + n)) with
        | .error a => failAlert C { c with raw := c.raw.drop (5 + n) } a
        | .ok (data, typ, inn') => afterDecrypt C { c with raw := c.raw.drop (5 + n) } data typ inn'

/-- outcome of handling one complete post-handshake message. -/
inductive MsgRes where
  | cont (c : Conn) (sent : List Bytes)
  | fail (e : Err) (c : Conn) (sent : List Bytes)

def msgAlert (C : Crypto) (c : Conn) (code : Nat) : MsgRes :=
  let r := sendAlert C c code
  .fail (.alert code) { r.2 with inErr := some (.alert code) } r.1

/-- the body of `handlePostHandshakeMessage` (TLS 1.3) for one complete message of type `t`:
`unmarshal`, the `retryCount` check, then `handleKeyUpdate` / `handleNewSessionTicket` / refusal.
`c1` is the connection with the message already removed from `hand`. -/
def handleMsg (C : Crypto) (c1 : Conn) (t : Nat) (body : Bytes) : MsgRes :=
  if t = typeKeyUpdate then
    match body with
    | [x] =>
      if x.toNat > 1 then msgAlert C c1 alertUnexpectedMessage
      else
        let c2 := { c1 with retry := c1.retry + 1 }
        if c2.retry > maxUselessRecords then
          let r := sendAlert C c2 alertUnexpectedMessage
          .fail .tooMany { r.2 with inErr := some .tooMany } r.1
        else
          -- handleKeyUpdate
          let c3 := { c2 with inn := rekey C c2.inn }
          if x.toNat = 1 then
            let r := sendKeyUpdate C c3 false
            .cont r.2 r.1
          else .cont c3 []
    | _ => msgAlert C c1 alertUnexpectedMessage
  else if t = typeNewSessionTicket then
    let c2 := { c1 with retry := c1.retry + 1 }
    if c2.retry > maxUselessRecords then
      let r := sendAlert C c2 alertUnexpectedMessage
      .fail .tooMany { r.2 with inErr := some .tooMany } r.1
    else if c1.p.isClient then .cont c2 []
    else
      let r := sendAlert C c2 alertUnexpectedMessage
      .fail .ticketFromClient r.2 r.1
  else msgAlert C c1 alertUnexpectedMessage

/-- `for c.hand.Len() > 0 { handlePostHandshakeMessage() }`: every complete message in `hand` is
handled; an incomplete one is left for the caller's loop to complete by reading more records (the
real code does that from inside `readHandshakeBytes`). Fuel: the length of `hand`. -/
def drainHand (C : Crypto) : Nat → Conn → List Bytes → Step
  | 0, c, sent => .next c sent
  | f + 1, c, sent =>
    match c.hand with
    | [] => .next c sent
    | t :: la :: lb :: lc :: rest =>
      if c.p.s.vers ≠ v13 then failWith .renego c sent
      else
        let n := la.toNat * 65536 + lb.toNat * 256 + lc.toNat
        if n > maxHandshake then
          let r := sendAlert C c alertInternalError
          failWith .hsTooLong r.2 (sent ++ r.1)
        else if rest.length < n then .next c sent
        else
          match handleMsg C { c with hand := rest.drop n } t.toNat (rest.take n) with
          | .cont c2 s2 => drainHand C f c2 (sent ++ s2)
          | .fail e c2 s2 => .fail e c2 (sent ++ s2)
    | _ => if c.p.s.vers ≠ v13 then failWith .renego c sent else .next c sent

inductive Fill where
  | ready (c : Conn) (sent : List Bytes)
  | short (c : Conn) (sent : List Bytes)
  | fail (e : Err) (c : Conn) (sent : List Bytes)

/-- `for c.input.Len() == 0 { readRecord(); for c.hand.Len() > 0 { handlePostHandshakeMessage() } }`.
Fuel: every round consumes a record (≥ 5 bytes of `raw`). -/
def fill (C : Crypto) : Nat → Conn → List Bytes → Fill
  | 0, c, sent => .short c sent
  | f + 1, c, sent =>
    if c.input ≠ [] then .ready c sent
    else
      match readRecord C c with
      | .short => .short c sent
      | .fail e c1 s1 => .fail e c1 (sent ++ s1)
      | .next c1 s1 =>
        match drainHand C c1.hand.length c1 (sent ++ s1) with
        | .short => .short c1 (sent ++ s1)
        | .fail e c2 s2 => .fail e c2 s2
        | .next c2 s2 => fill C f c2 s2

structure ReadRes where
  data : Bytes
  err : Option Err
  /-- blocked waiting for bytes that have not arrived -/
  short : Bool
  c : Conn
  /-- records this endpoint wrote while reading (KeyUpdate response, alerts) -/
  sent : List Bytes

/-- `UConn.Read(buf)` / `Conn.Read(buf)` with `len(buf) = n`, handshake complete. -/
def read (C : Crypto) (c : Conn) (n : Nat) : ReadRes :=
  if n = 0 then ⟨[], none, false, c, []⟩
  else
    match fill C (c.raw.length + 1) c [] with
    | .short c1 s => ⟨[], none, true, c1, s⟩
    | .fail e c1 s => ⟨[], some e, false, c1, s⟩
    | .ready c1 s =>
      let d := c1.input.take n
      let c2 := { c1 with input := c1.input.drop n }
      -- "if a close-notify alert is waiting, read it so that we can return (n, EOF)"
      if d ≠ [] ∧ c2.input = [] ∧ c2.raw.head? = some (b tAlert) then
        match readRecord C c2 with
        | .fail e c3 s3 => ⟨d, some e, false, c3, s ++ s3⟩
        | .short => ⟨d, none, true, c2, s⟩
        | .next c3 s3 => ⟨d, none, false, c3, s ++ s3⟩
      else ⟨d, none, false, c2, s⟩

/-- a `Crypto` whose AEAD is the keystream-and-tag construction of `Keystream` (AES-GCM,
ChaCha20-Poly1305); everything else comes from `base`. -/
def withPrim (P : Prim) (base : Crypto) : Crypto :=
  { base with aseal := Keystream.aseal P, aopen := Keystream.aopen P }

/-- what `GetOutKeystream` sees of a connection's outgoing half. -/
def outView (s : Suite) (h : Half) : Keystream.Out :=
  { cipher := match s.kind with
      | .aead w => .aead w h.key h.iv
      | _ => .other,
    seq := h.seq }

end Record
