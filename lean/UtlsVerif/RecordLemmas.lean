import UtlsVerif.Record
/-!
# RecordLemmas — helper lemmas for the record-layer theorems (C25)

Part 1: well-formedness of suites, the lockstep relation `Sync` between a writer's outgoing half and
the peer's incoming half, and the single-record round trip `decrypt (encrypt …)` for the four cipher
kinds together with the framing facts `readRecord` relies on.
-/
namespace Record
open Wire Keystream

/-- parameters the suite tables can produce: TLS 1.0–1.3; TLS 1.3 ⇒ XOR-nonce AEAD; AEAD tag 16;
CBC block 8 or 16; MAC at most 48 bytes. -/
def Suite.WF (s : Suite) : Prop :=
  (s.vers = v10 ∨ s.vers = v11 ∨ s.vers = v12 ∨ s.vers = v13) ∧
  (s.vers = v13 → s.kind = .aead .xor) ∧
  (s.kind = .cbc → (s.blockLen = 8 ∨ s.blockLen = 16)) ∧
  s.tagLen = 16 ∧ s.macLen ≤ 48

instance (s : Suite) : Decidable s.WF := by unfold Suite.WF; infer_instance

/-- the writer's outgoing half `w` and the reader's incoming half `r` are in lockstep. -/
def Sync (s : Suite) (r w : Half) : Prop :=
  r.key = w.key ∧ r.macKey = w.macKey ∧ r.secret = w.secret ∧ r.seq = w.seq ∧ r.soff = w.soff ∧
  (match s.kind with
   | .aead .pfx => r.iv.take 4 = w.iv.take 4 ∧ r.iv.length = 12 ∧ w.iv.length = 12
   | .aead .xor => r.iv = w.iv ∧ w.iv.length = 12
   | .cbc => s.vers ≥ v11 ∨ r.iv = w.iv
   | .stream => True)

/-- `omega` after unfolding the numeric constants of the record layer. -/
macro "rec_omega" : tactic =>
  `(tactic| ((try simp only [maxPlaintext, maxCiphertext, maxCiphertextTLS13, tcpMSSEstimate,
      recordSizeBoostThreshold, maxUselessRecords, maxHandshake, tCCS, tAlert, tHs, tApp, v10, v11, v12, v13] at *); omega))

/-! ### small facts -/

theorem b_toNat_of_lt (n : Nat) (h : n < 256) : (b n).toNat = n := by
  rw [b_toNat]; exact Nat.mod_eq_of_lt h

theorem u16_pair_toNat (l : Nat) (h : l < 65536) : (b (l / 256)).toNat * 256 + (b l).toNat = l := by
  rw [b_toNat, b_toNat]; omega

theorem u16_add_65536 (l : Nat) : u16 (l + 65536) = u16 l := by
  have h1 : (l + 65536) / 256 % 256 = l / 256 % 256 := by omega
  have h2 : (l + 65536) % 256 = l % 256 := by omega
  simp only [u16, b, h1, h2]

theorem hdr_split (t v l : Nat) : hdr t v l = (b t :: u16 v) ++ u16 l := rfl

theorem wireVers_lt (s : Suite) (h : s.WF) : wireVers s.vers < 65536 := by
  obtain ⟨hv, _⟩ := h
  unfold wireVers
  rcases hv with h | h | h | h <;> (rw [h]; decide)

theorem wireVers_bytes (v : Nat) (h : v < 65536) : (b (v / 256)).toNat * 256 + (b v).toNat = v :=
  u16_pair_toNat v h

theorem copyInto_same_len (d n : Bytes) (h : d.length = n.length) : copyInto d n = n := by
  induction d generalizing n with
  | nil => cases n with
    | nil => rfl
    | cons => simp at h
  | cons x xs ih =>
    cases n with
    | nil => simp at h
    | cons y ys => simp [copyInto, ih ys (by simpa using h)]

theorem xorInto_twice (m n : Bytes) (h : n.length ≤ m.length) : xorInto (xorInto m n) n = m := by
  induction m generalizing n with
  | nil => cases n with
    | nil => rfl
    | cons => simp at h
  | cons x xs ih =>
    cases n with
    | nil => rfl
    | cons y ys =>
      simp only [xorInto]
      rw [ih ys (by simpa using h)]
      simp [UInt8.xor_assoc]

/-- prefix wrapper: with a 12-byte array and an 8-byte argument the nonce is prefix ‖ argument. -/
theorem nonceFor_pfx (iv n8 : Bytes) (hiv : iv.length = 12) (hn : n8.length = 8) :
    nonceFor .pfx iv n8 = iv.take 4 ++ n8 := by
  simp only [nonceFor]
  rw [copyInto_same_len _ _ (by simp [hiv, hn])]

theorem stateAfter_pfx (iv n8 : Bytes) (hiv : iv.length = 12) (hn : n8.length = 8) :
    stateAfter .pfx iv n8 = iv.take 4 ++ n8 := by
  simp only [stateAfter]; exact nonceFor_pfx iv n8 hiv hn

theorem stateAfter_xor (iv n8 : Bytes) (hiv : iv.length = 12) (hn : n8.length = 8) :
    stateAfter .xor iv n8 = iv := by
  simp only [stateAfter]
  rw [xorInto_twice _ _ (by simp [hiv, hn])]
  simp

theorem take4_append (iv x : Bytes) (hiv : iv.length = 12) : (iv.take 4 ++ x).take 4 = iv.take 4 := by
  rw [List.take_append_of_le_length (l₁ := iv.take 4) (by simp [hiv])]; simp [List.take_take]

/-! ### `stripInner` on what the writer produces -/

theorem dropWhile_zero_cons_ne (t : UInt8) (l : Bytes) (h : t ≠ 0) :
    (t :: l).dropWhile (· == 0) = t :: l := by
  have : (t == 0) = false := by simpa using h
  simp [List.dropWhile, this]

theorem stripInner_append_type (payload : Bytes) (typ : Nat) (h0 : 0 < typ) (h1 : typ < 256) :
    stripInner (payload ++ [b typ]) = some (typ, payload) := by
  unfold stripInner
  have hne : payload ++ [b typ] ≠ [] := by simp
  rw [if_neg hne]
  have hb : b typ ≠ 0 := by
    intro h
    have := congrArg UInt8.toNat h
    rw [b_toNat_of_lt typ h1] at this
    simp at this; omega
  simp only [List.reverse_append, List.reverse_cons, List.reverse_nil, List.nil_append, List.singleton_append]
  rw [dropWhile_zero_cons_ne _ _ hb]
  simp [b_toNat_of_lt typ h1]

/-! ### `extractPadding` on what the writer produces -/

theorem cbcPadding_length (bl n : Nat) : (cbcPadding bl n).length = bl - n % bl := by
  simp [cbcPadding]

theorem extractPadding_padded (x : Bytes) (bl : Nat) (hbl : bl = 8 ∨ bl = 16) :
    extractPadding (x ++ cbcPadding bl x.length) = (bl - x.length % bl, true) := by
  have hpos : 0 < bl - x.length % bl := by
    rcases hbl with h | h <;> subst h <;> omega
  have hle : bl - x.length % bl ≤ 16 := by
    rcases hbl with h | h <;> subst h <;> omega
  obtain ⟨k, hk⟩ : ∃ k, bl - x.length % bl = k + 1 := ⟨bl - x.length % bl - 1, by omega⟩
  have hk16 : k < 256 := by omega
  unfold extractPadding cbcPadding
  rw [hk]
  have hlast : (x ++ List.replicate (k + 1) (b (k + 1 - 1))).getLast? = some (b k) := by
    simp [List.replicate_succ', List.getLast?_append]
  rw [hlast]
  simp only [Nat.add_sub_cancel, b_toNat_of_lt k hk16]
  have hlen : (x ++ List.replicate (k + 1) (b k)).length = x.length + (k + 1) := by simp
  rw [hlen]
  have hdrop : (x ++ List.replicate (k + 1) (b k)).drop (x.length + (k + 1) - (k + 1)) = List.replicate (k + 1) (b k) := by
    rw [Nat.add_sub_cancel, List.drop_left]
  rw [hdrop]
  have hall : (List.replicate (k + 1) (b k)).all (· == b k) = true := by
    simp [List.all_replicate]
  rw [hall]
  simp

/-! ### framing of what `encrypt` produces -/

@[simp] theorem hdr_append_headD (t v n : Nat) (x : Bytes) : (hdr t v n ++ x).headD 0 = b t := rfl
@[simp] theorem hdr_append_drop5 (t v n : Nat) (x : Bytes) : (hdr t v n ++ x).drop 5 = x := rfl
@[simp] theorem hdr_append_take3 (t v n : Nat) (x : Bytes) : (hdr t v n ++ x).take 3 = b t :: u16 v := rfl
@[simp] theorem hdr_append_take5 (t v n : Nat) (x : Bytes) : (hdr t v n ++ x).take 5 = hdr t v n := rfl

/-- limit `readRecord` applies to the length field. -/
def lenLimit (s : Suite) : Nat := if s.vers = v13 then maxCiphertextTLS13 else maxCiphertext

/-- what the reader needs to know about the next record on the wire: it is a well-framed record
whose length field is its body length and within the limit, whose outer type is not `alert`, and
which decrypts, in reader state `r`, to content type `typ` and plaintext `d`, leaving state `r'`. -/
structure Genuine (C : Crypto) (s : Suite) (r : Half) (rec : Bytes) (typ : Nat) (d : Bytes) (r' : Half) : Prop where
  framed : ∃ t body, rec = hdr t (wireVers s.vers) body.length ++ body ∧ body.length ≤ lenLimit s ∧
    t < 256 ∧ t ≠ tAlert
  dec : decrypt C s r rec = .ok (d, typ, r')

theorem not_v13_of_kind (s : Suite) (hs : s.WF) (hk : s.kind ≠ .aead .xor) : s.vers ≠ v13 := by
  intro h; exact hk (hs.2.1 h)

/-- **stream (RC4) round trip.** -/
theorem genuine_stream (C : Crypto) (s : Suite) (hs : s.WF) (hC : C.Laws s.tagLen s.macLen) (hk : s.kind = .stream)
    (r w : Half) (hsy : Sync s r w) (typ : Nat) (ht : typ < 256) (hta : typ ≠ tAlert) (d : Bytes) (hd : d.length ≤ maxPlaintext) :
    ∃ r', Genuine C s r (encrypt C s w typ d).1 typ d r' ∧ Sync s r' (encrypt C s w typ d).2 := by
  obtain ⟨hkey, hmk, hsec, hseq, hsoff, _⟩ := hsy
  have hv : s.vers ≠ v13 := not_v13_of_kind s hs (by rw [hk]; simp)
  have hml : s.macLen ≤ 48 := hs.2.2.2.2
  let mac := C.mac w.macKey (seq8 w.seq ++ hdr typ (wireVers s.vers) d.length ++ d)
  have hmac : mac.length = s.macLen := hC.mac_len _ _
  let body := C.xorStream w.key w.soff (d ++ mac)
  have hbody : body.length = d.length + s.macLen := by
    show (C.xorStream w.key w.soff (d ++ mac)).length = _
    rw [hC.xor_len]; simp [hmac]
  have henc : encrypt C s w typ d = (hdr typ (wireVers s.vers) body.length ++ body,
      { w with seq := w.seq + 1, soff := w.soff + (d ++ mac).length }) := by
    simp only [encrypt, hk]; rfl
  rw [henc]
  refine ⟨{ r with seq := r.seq + 1, soff := r.soff + body.length }, ⟨⟨typ, body, rfl, ?_, ht, hta⟩, ?_⟩, ?_⟩
  · rw [hbody]; unfold lenLimit; simp only [hv, if_false]; rec_omega
  · unfold decrypt
    simp only [hdr_append_headD, hdr_append_drop5, b_toNat_of_lt typ ht, hk]
    rw [if_neg (by intro h; exact hv h.1)]
    have hpl : C.xorStream r.key r.soff body = d ++ mac := by
      show C.xorStream r.key r.soff (C.xorStream w.key w.soff (d ++ mac)) = _
      rw [hkey, hsoff, hC.xor_invol]
    rw [hpl]
    unfold checkMac
    have hlen : (d ++ mac).length = d.length + s.macLen := by simp [hmac]
    rw [if_neg (by rw [hlen]; omega)]
    have hn : (d ++ mac).length - s.macLen - 0 = d.length := by rw [hlen]; omega
    simp only [hn, List.drop_left, List.take_left, hdr_append_take3]
    have htk : mac.take s.macLen = mac := List.take_of_length_le (by omega)
    rw [htk]
    have hloc : C.mac r.macKey (seq8 r.seq ++ b typ :: u16 (wireVers s.vers) ++ u16 d.length ++ d) = mac := by
      show _ = C.mac w.macKey (seq8 w.seq ++ hdr typ (wireVers s.vers) d.length ++ d)
      rw [hmk, hseq, hdr_split]
      simp [List.append_assoc]
    rw [hloc]
    simp
  · refine ⟨hkey, hmk, hsec, by simp [hseq], ?_, by rw [hk]; trivial⟩
    show r.soff + body.length = w.soff + (d ++ mac).length
    rw [hbody, hsoff]; simp [hmac]

/-- the MAC check accepts `data ‖ MAC ‖ padding` and returns the data. -/
theorem checkMac_genuine (C : Crypto) (s : Suite) (r w : Half) (hmk : r.macKey = w.macKey) (hseq : r.seq = w.seq)
    (typ n : Nat) (body d pad : Bytes)
    (hmac : (C.mac w.macKey (seq8 w.seq ++ hdr typ (wireVers s.vers) d.length ++ d)).length = s.macLen) :
    checkMac C s r (hdr typ (wireVers s.vers) n ++ body)
      (d ++ C.mac w.macKey (seq8 w.seq ++ hdr typ (wireVers s.vers) d.length ++ d) ++ pad) pad.length true = .ok d := by
  generalize hm : C.mac w.macKey (seq8 w.seq ++ hdr typ (wireVers s.vers) d.length ++ d) = mac at *
  unfold checkMac
  have hlen : (d ++ mac ++ pad).length = d.length + s.macLen + pad.length := by simp [hmac]; omega
  rw [if_neg (by rw [hlen]; omega)]
  have hn : (d ++ mac ++ pad).length - s.macLen - pad.length = d.length := by rw [hlen]; omega
  simp only [hn, hdr_append_take3]
  have h1 : (d ++ mac ++ pad).drop d.length = mac ++ pad := by rw [List.append_assoc, List.drop_left]
  have h2 : (mac ++ pad).take s.macLen = mac := by rw [← hmac, List.take_left]
  have h3 : (d ++ mac ++ pad).take d.length = d := by rw [List.append_assoc, List.take_left]
  rw [h1, h2, h3]
  have hloc : C.mac r.macKey (seq8 r.seq ++ b typ :: u16 (wireVers s.vers) ++ u16 d.length ++ d) = mac := by
    rw [← hm, hmk, hseq, hdr_split]
    simp [List.append_assoc]
  rw [hloc]
  simp

theorem roundUp_le_padded (x m bl : Nat) (hbl : bl = 8 ∨ bl = 16) (hm : m ≤ x) :
    (x + (bl - x % bl)) % bl = 0 ∧ roundUp (m + 1) bl ≤ x + (bl - x % bl) := by
  unfold roundUp
  rcases hbl with h | h <;> subst h <;> omega

/-- **CBC round trip** (explicit IV from TLS 1.1, chained IV in TLS 1.0). -/
theorem genuine_cbc (C : Crypto) (s : Suite) (hs : s.WF) (hC : C.Laws s.tagLen s.macLen) (hk : s.kind = .cbc)
    (r w : Half) (hsy : Sync s r w) (typ : Nat) (ht : typ < 256) (hta : typ ≠ tAlert) (d : Bytes) (hd : d.length ≤ maxPlaintext) :
    ∃ r', Genuine C s r (encrypt C s w typ d).1 typ d r' ∧ Sync s r' (encrypt C s w typ d).2 := by
  obtain ⟨hkey, hmk, hsec, hseq, hsoff, hiv⟩ := hsy
  rw [hk] at hiv
  have hv : s.vers ≠ v13 := not_v13_of_kind s hs (by rw [hk]; simp)
  have hml : s.macLen ≤ 48 := hs.2.2.2.2
  have hbl : s.blockLen = 8 ∨ s.blockLen = 16 := hs.2.2.1 hk
  generalize hm : C.mac w.macKey (seq8 w.seq ++ hdr typ (wireVers s.vers) d.length ++ d) = mac
  have hmac : mac.length = s.macLen := by rw [← hm]; exact hC.mac_len _ _
  have hmac' : (C.mac w.macKey (seq8 w.seq ++ hdr typ (wireVers s.vers) d.length ++ d)).length = s.macLen := hC.mac_len _ _
  have hpadlen : (cbcPadding s.blockLen (d.length + mac.length)).length = s.blockLen - (d.length + s.macLen) % s.blockLen := by
    rw [cbcPadding_length, hmac]
  generalize hpd : d ++ mac ++ cbcPadding s.blockLen (d.length + mac.length) = padded
  have hplen : padded.length = (d.length + s.macLen) + (s.blockLen - (d.length + s.macLen) % s.blockLen) := by
    rw [← hpd]; simp [hmac, cbcPadding_length]; omega
  obtain ⟨hmod, hru⟩ := roundUp_le_padded (d.length + s.macLen) s.macLen s.blockLen hbl (by omega)
  have hpl16 : padded.length ≤ d.length + s.macLen + 16 := by
    rw [hplen]; rcases hbl with h | h <;> rw [h] <;> omega
  have hblpos : 0 < s.blockLen := by rcases hbl with h | h <;> omega
  have hexp : extractPadding padded = ((cbcPadding s.blockLen (d.length + mac.length)).length, true) := by
    rw [← hpd, cbcPadding_length]
    have := extractPadding_padded (d ++ mac) s.blockLen hbl
    simpa [List.length_append] using this
  by_cases hv11 : s.vers ≥ v11
  · -- explicit IV
    generalize hivr : C.rand w.rctr s.blockLen = iv
    have hivl : iv.length = s.blockLen := by rw [← hivr]; exact hC.rand_len _ _
    have henc : encrypt C s w typ d = (hdr typ (wireVers s.vers) (iv ++ C.cbcEnc w.key iv padded).length ++ (iv ++ C.cbcEnc w.key iv padded),
        { w with seq := w.seq + 1, rctr := w.rctr + 1 }) := by
      simp only [encrypt, hk, hv11, if_true, hm, hpd, hivr]
    rw [henc]
    have hbody : (iv ++ C.cbcEnc w.key iv padded).length = s.blockLen + padded.length := by
      simp [hivl, hC.cbcEnc_len]
    refine ⟨{ r with seq := r.seq + 1 }, ⟨⟨typ, _, rfl, ?_, ht, hta⟩, ?_⟩, ?_⟩
    · rw [hbody]; unfold lenLimit; simp only [hv, if_false]
      rcases hbl with h | h <;> rw [h] <;> rec_omega
    · unfold decrypt
      simp only [hdr_append_headD, hdr_append_drop5, b_toNat_of_lt typ ht, hk]
      rw [if_neg (by intro h; exact hv h.1)]
      have henl : explicitNonceLen s = s.blockLen := by simp [explicitNonceLen, hk, hv11]
      rw [henl]
      rw [if_neg (by
        rw [hbody]; intro h
        rcases h with h | h
        · apply h; rw [Nat.add_mod, hplen, hmod]; simp
        · rw [hplen] at h; omega)]
      simp only [hblpos, if_true]
      have htk : (iv ++ C.cbcEnc w.key iv padded).take s.blockLen = iv := by rw [← hivl, List.take_left]
      have hdr' : (iv ++ C.cbcEnc w.key iv padded).drop s.blockLen = C.cbcEnc w.key iv padded := by rw [← hivl, List.drop_left]
      rw [htk, hdr', hkey, hC.cbcDec_enc, hexp]
      simp only
      rw [← hpd, ← hm, checkMac_genuine C s r w hmk hseq typ _ _ d _ hmac']
    · refine ⟨hkey, hmk, hsec, by simp [hseq], hsoff, ?_⟩
      rw [hk]; exact Or.inl hv11
  · -- chained IV (TLS 1.0)
    have hiveq : r.iv = w.iv := by rcases hiv with h | h; exact absurd h hv11; exact h
    have henc : encrypt C s w typ d = (hdr typ (wireVers s.vers) (C.cbcEnc w.key w.iv padded).length ++ C.cbcEnc w.key w.iv padded,
        { w with seq := w.seq + 1, iv := (C.cbcEnc w.key w.iv padded).drop ((C.cbcEnc w.key w.iv padded).length - s.blockLen) }) := by
      simp only [encrypt, hk, hv11, if_false, hm, hpd]
    rw [henc]
    have hbody : (C.cbcEnc w.key w.iv padded).length = padded.length := hC.cbcEnc_len _ _ _
    refine ⟨{ r with seq := r.seq + 1, iv := (C.cbcEnc w.key w.iv padded).drop ((C.cbcEnc w.key w.iv padded).length - s.blockLen) },
      ⟨⟨typ, _, rfl, ?_, ht, hta⟩, ?_⟩, ?_⟩
    · rw [hbody]; unfold lenLimit; simp only [hv, if_false]; rec_omega
    · unfold decrypt
      simp only [hdr_append_headD, hdr_append_drop5, b_toNat_of_lt typ ht, hk]
      rw [if_neg (by intro h; exact hv h.1)]
      have henl : explicitNonceLen s = 0 := by simp [explicitNonceLen, hk, hv11]
      rw [henl]
      rw [if_neg (by
        rw [hbody]; intro h
        rcases h with h | h
        · apply h; rw [hplen, hmod]
        · rw [hplen] at h; omega)]
      simp only [Nat.lt_irrefl, if_false, List.drop_zero]
      rw [hiveq, hkey, hC.cbcDec_enc, hexp]
      simp only
      rw [← hpd, ← hm, checkMac_genuine C s r w hmk hseq typ _ _ d _ hmac']
    · refine ⟨hkey, hmk, hsec, by simp [hseq], hsoff, ?_⟩
      rw [hk]; exact Or.inr rfl

/-- **AEAD round trip**: TLS 1.2 AES-GCM (explicit nonce = sequence number), TLS 1.2
ChaCha20-Poly1305 and the TLS 1.3 suites (implicit nonce, inner content type). -/
theorem genuine_aead (C : Crypto) (s : Suite) (hs : s.WF) (hC : C.Laws s.tagLen s.macLen) (wr : Wrapper) (hk : s.kind = .aead wr)
    (r w : Half) (hsy : Sync s r w) (typ : Nat) (ht0 : 0 < typ) (ht : typ < 256) (hta : typ ≠ tAlert) (d : Bytes)
    (hd : d.length ≤ maxPlaintext) :
    ∃ r', Genuine C s r (encrypt C s w typ d).1 typ d r' ∧ Sync s r' (encrypt C s w typ d).2 := by
  obtain ⟨hkey, hmk, hsec, hseq, hsoff, hiv⟩ := hsy
  rw [hk] at hiv
  have htag : s.tagLen = 16 := hs.2.2.2.1
  cases wr with
  | pfx =>
    have hv : s.vers ≠ v13 := not_v13_of_kind s hs (by rw [hk]; simp)
    obtain ⟨hiv4, hrl, hwl⟩ := hiv
    generalize hct : C.aseal w.key (w.iv.take 4 ++ seq8 w.seq) (seq8 w.seq ++ hdr typ (wireVers s.vers) d.length) d = ct
    have hctl : ct.length = d.length + s.tagLen := by rw [← hct]; exact hC.seal_len _ _ _ _
    have henc : encrypt C s w typ d = (hdr typ (wireVers s.vers) (seq8 w.seq ++ ct).length ++ (seq8 w.seq ++ ct),
        { w with seq := w.seq + 1, iv := w.iv.take 4 ++ seq8 w.seq }) := by
      simp only [encrypt, hk, hv, if_false, nonceFor_pfx w.iv _ hwl (seq8_length _), stateAfter_pfx w.iv _ hwl (seq8_length _), hct]
    rw [henc]
    refine ⟨{ r with seq := r.seq + 1, iv := r.iv.take 4 ++ seq8 w.seq }, ⟨⟨typ, _, rfl, ?_, ht, hta⟩, ?_⟩, ?_⟩
    · simp only [List.length_append, seq8_length, hctl]; unfold lenLimit; simp only [hv, if_false]; rec_omega
    · unfold decrypt
      simp only [hdr_append_headD, hdr_append_drop5, b_toNat_of_lt typ ht, hk, hdr_append_take3]
      rw [if_neg (by intro h; exact hv h.1)]
      have henl : explicitNonceLen s = 8 := by simp [explicitNonceLen, hk]
      rw [henl]
      rw [if_neg (by simp)]
      have htk : (seq8 w.seq ++ ct).take 8 = seq8 w.seq := by rw [← seq8_length w.seq, List.take_left]
      have hdp : (seq8 w.seq ++ ct).drop 8 = ct := by rw [← seq8_length w.seq, List.drop_left]
      simp only [htk, hdp, hv, if_false, Nat.reduceEqDiff]
      rw [nonceFor_pfx r.iv _ hrl (seq8_length _), stateAfter_pfx r.iv _ hrl (seq8_length _)]
      have hadl : u16 (ct.length + 65536 - s.tagLen) = u16 d.length := by
        rw [hctl, show d.length + s.tagLen + 65536 - s.tagLen = d.length + 65536 by omega, u16_add_65536]
      rw [hadl, hkey, hiv4, hseq]
      have hadeq : seq8 w.seq ++ b typ :: u16 (wireVers s.vers) ++ u16 d.length = seq8 w.seq ++ hdr typ (wireVers s.vers) d.length := by
        rw [hdr_split]; simp [List.append_assoc]
      rw [hadeq, ← hct, hC.open_seal]
    · refine ⟨hkey, hmk, hsec, by simp [hseq], hsoff, ?_⟩
      rw [hk]
      refine ⟨?_, by simp [hrl], by simp [hwl]⟩
      rw [take4_append _ _ hrl, take4_append _ _ hwl, hiv4]
  | xor =>
    obtain ⟨hiveq, hwl⟩ := hiv
    have hrl : r.iv.length = 12 := by rw [hiveq]; exact hwl
    by_cases hv : s.vers = v13
    · -- TLS 1.3
      generalize hct : C.aseal w.key (nonceFor .xor w.iv (seq8 w.seq))
        (hdr tApp (wireVers s.vers) (d.length + 1 + s.tagLen)) (d ++ [b typ]) = ct
      have hctl : ct.length = d.length + 1 + s.tagLen := by
        rw [← hct, hC.seal_len]; simp
      have henc : encrypt C s w typ d = (hdr tApp (wireVers s.vers) ct.length ++ ct, { w with seq := w.seq + 1, iv := w.iv }) := by
        simp only [encrypt, hk, hv, if_true, stateAfter_xor w.iv _ hwl (seq8_length _), List.nil_append]
        rw [← hv, hct]
      rw [henc]
      refine ⟨{ r with seq := r.seq + 1, iv := r.iv }, ⟨⟨tApp, _, rfl, ?_, by decide, by decide⟩, ?_⟩, ?_⟩
      · rw [hctl]; unfold lenLimit; simp only [hv, if_true]; rec_omega
      · unfold decrypt
        simp only [hdr_append_headD, hdr_append_drop5, hk, hdr_append_take5]
        have hb23 : (b tApp).toNat = tApp := by decide
        simp only [hb23]
        rw [if_neg (by intro h; exact absurd h.2 (by decide))]
        have henl : explicitNonceLen s = 0 := by simp [explicitNonceLen, hk]
        rw [henl]
        simp only [Nat.not_lt_zero, if_false, if_true, List.drop_zero, hv]
        rw [stateAfter_xor r.iv _ hrl (seq8_length _)]
        have hct' := hct
        rw [hv] at hct'
        rw [hctl, hiveq, hkey, hseq, ← hct', hC.open_seal]
        simp only [ne_eq, not_true_eq_false, if_false]
        rw [if_neg (by simp; rec_omega)]
        rw [stripInner_append_type d typ ht0 ht]
      · exact ⟨hkey, hmk, hsec, by simp [hseq], hsoff, by rw [hk]; exact ⟨hiveq, hwl⟩⟩
    · -- TLS 1.2 ChaCha20-Poly1305
      generalize hct : C.aseal w.key (nonceFor .xor w.iv (seq8 w.seq)) (seq8 w.seq ++ hdr typ (wireVers s.vers) d.length) d = ct
      have hctl : ct.length = d.length + s.tagLen := by rw [← hct]; exact hC.seal_len _ _ _ _
      have henc : encrypt C s w typ d = (hdr typ (wireVers s.vers) ct.length ++ ct, { w with seq := w.seq + 1, iv := w.iv }) := by
        simp only [encrypt, hk, hv, if_false, stateAfter_xor w.iv _ hwl (seq8_length _), List.nil_append, hct]
      rw [henc]
      refine ⟨{ r with seq := r.seq + 1, iv := r.iv }, ⟨⟨typ, _, rfl, ?_, ht, hta⟩, ?_⟩, ?_⟩
      · rw [hctl]; unfold lenLimit; simp only [hv, if_false]; rec_omega
      · unfold decrypt
        simp only [hdr_append_headD, hdr_append_drop5, b_toNat_of_lt typ ht, hk, hdr_append_take3]
        rw [if_neg (by intro h; exact hv h.1)]
        have henl : explicitNonceLen s = 0 := by simp [explicitNonceLen, hk]
        rw [henl]
        simp only [Nat.not_lt_zero, if_false, if_true, List.drop_zero, hv]
        rw [stateAfter_xor r.iv _ hrl (seq8_length _)]
        have hadl : u16 (ct.length + 65536 - s.tagLen) = u16 d.length := by
          rw [hctl, show d.length + s.tagLen + 65536 - s.tagLen = d.length + 65536 by omega, u16_add_65536]
        rw [hadl, hkey, hiveq, hseq]
        have hadeq : seq8 w.seq ++ b typ :: u16 (wireVers s.vers) ++ u16 d.length = seq8 w.seq ++ hdr typ (wireVers s.vers) d.length := by
          rw [hdr_split]; simp [List.append_assoc]
        rw [hadeq, ← hct, hC.open_seal]
      · exact ⟨hkey, hmk, hsec, by simp [hseq], hsoff, by rw [hk]; exact ⟨hiveq, hwl⟩⟩

/-- **single-record round trip, all cipher kinds.** If the writer's outgoing half `w` and the
reader's incoming half `r` are in lockstep, the record `encrypt` produces for content type `typ`
(handshake or application data) and at most 2^14 bytes is framed correctly, within the reader's
limit, decrypts to exactly (`typ`, payload), and leaves the two halves in lockstep again. -/
theorem genuine_encrypt (C : Crypto) (s : Suite) (hs : s.WF) (hC : C.Laws s.tagLen s.macLen)
    (r w : Half) (hsy : Sync s r w) (typ : Nat) (ht0 : 0 < typ) (ht : typ < 256) (hta : typ ≠ tAlert) (d : Bytes)
    (hd : d.length ≤ maxPlaintext) :
    ∃ r', Genuine C s r (encrypt C s w typ d).1 typ d r' ∧ Sync s r' (encrypt C s w typ d).2 := by
  cases hk : s.kind with
  | aead wr => exact genuine_aead C s hs hC wr hk r w hsy typ ht0 ht hta d hd
  | cbc => exact genuine_cbc C s hs hC hk r w hsy typ ht hta d hd
  | stream => exact genuine_stream C s hs hC hk r w hsy typ ht hta d hd

end Record
