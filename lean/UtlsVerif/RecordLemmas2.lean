import UtlsVerif.RecordLemmas
/-!
# RecordLemmas2 — records in flight, the writer loop and the reader loop

`Flight C s r raw items w`: the bytes `raw` waiting at a reader whose incoming half is `r` are a
sequence of genuine records carrying `items` (application-data chunks and KeyUpdates), and after
consuming all of them the reader is in lockstep with the writer's outgoing half `w`.
-/
namespace Record
open Wire Keystream

inductive Item where
  | app (d : Bytes)
  | ku (req : Bool)
  /-- an ignorable record: application data of length zero -/
  | skip
  deriving DecidableEq, Repr

def appBytes : List Item → Bytes
  | [] => []
  | .app d :: is => d ++ appBytes is
  | .ku _ :: is => appBytes is
  | .skip :: is => appBytes is

/-- `retryCount` along a flight: non-empty application data resets it to 0, a KeyUpdate record resets
it and its message counts once, an ignorable record counts once and must stay within
`maxUselessRecords`. `okRuns r items`: starting from counter value `r` the limit is never exceeded. -/
def okRuns : Nat → List Item → Prop
  | _, [] => True
  | _, .app _ :: is => okRuns 0 is
  | _, .ku _ :: is => okRuns 1 is
  | r, .skip :: is => r + 1 ≤ maxUselessRecords ∧ okRuns (r + 1) is

/-- no ignorable records (what `Write` and KeyUpdates produce). -/
def NoSkip : List Item → Prop
  | [] => True
  | .skip :: _ => False
  | _ :: is => NoSkip is

theorem okRuns_of_noSkip (items : List Item) (h : NoSkip items) : ∀ r, okRuns r items := by
  induction items with
  | nil => intro _; trivial
  | cons i is ih =>
    intro r
    cases i with
    | app d => exact ih h 0
    | ku q => exact ih h 1
    | skip => exact absurd h (by simp [NoSkip])

theorem noSkip_suffix (a c : List Item) (h : NoSkip (a ++ c)) : NoSkip c := by
  induction a with
  | nil => exact h
  | cons i is ih => cases i <;> simp_all [NoSkip]

theorem noSkip_append (a c : List Item) (ha : NoSkip a) (hc : NoSkip c) : NoSkip (a ++ c) := by
  induction a with
  | nil => exact hc
  | cons i is ih => cases i <;> simp_all [NoSkip]

theorem appBytes_append (a c : List Item) : appBytes (a ++ c) = appBytes a ++ appBytes c := by
  induction a with
  | nil => rfl
  | cons i is ih => cases i <;> simp [appBytes, ih]

inductive Flight (C : Crypto) (s : Suite) : Half → Bytes → List Item → Half → Prop where
  | nil {r w : Half} : Sync s r w → Flight C s r [] [] w
  | app {r r' w : Half} {rec raw : Bytes} {items : List Item} {d : Bytes} :
      Genuine C s r rec tApp d r' → d ≠ [] → d.length ≤ maxPlaintext →
      Flight C s r' raw items w → Flight C s r (rec ++ raw) (.app d :: items) w
  | ku {r r' w : Half} {rec raw : Bytes} {items : List Item} {req : Bool} :
      s.vers = v13 → Genuine C s r rec tHs (keyUpdateMsg req) r' →
      Flight C s (rekey C r') raw items w → Flight C s r (rec ++ raw) (.ku req :: items) w
  | skip {r r' w : Half} {rec raw : Bytes} {items : List Item} :
      Genuine C s r rec tApp [] r' → Flight C s r' raw items w → Flight C s r (rec ++ raw) (.skip :: items) w

theorem sync_rekey (C : Crypto) (s : Suite) (hs : s.WF) (hv : s.vers = v13) (tl ml : Nat) (hC : C.Laws tl ml) (r w : Half)
    (h : Sync s r w) : Sync s (rekey C r) (rekey C w) := by
  obtain ⟨_, hmk, hsec, _, hsoff, _⟩ := h
  have hk : s.kind = .aead .xor := hs.2.1 hv
  refine ⟨by simp [rekey, hsec], hmk, by simp [rekey, hsec], rfl, hsoff, ?_⟩
  rw [hk]
  exact ⟨by simp [rekey, hsec], hC.ivOf_len _⟩

/-- appending one more genuine application-data record at the writer's end. -/
theorem Flight.snoc_app (C : Crypto) (s : Suite) (hs : s.WF) (hC : C.Laws s.tagLen s.macLen)
    {r : Half} {raw : Bytes} {items : List Item} {w : Half} (hF : Flight C s r raw items w)
    (d : Bytes) (hne : d ≠ []) (hd : d.length ≤ maxPlaintext) :
    Flight C s r (raw ++ (encrypt C s w tApp d).1) (items ++ [.app d]) (encrypt C s w tApp d).2 := by
  induction hF with
  | nil hsy =>
    obtain ⟨r', hg, hsy'⟩ := genuine_encrypt C s hs hC _ _ hsy tApp (by decide) (by decide) (by decide) d hd
    have := Flight.app hg hne hd (Flight.nil hsy')
    simpa using this
  | app hg hne' hd' _ ih =>
    have := Flight.app hg hne' hd' ih
    simpa [List.append_assoc] using this
  | ku hv hg _ ih =>
    have := Flight.ku hv hg ih
    simpa [List.append_assoc] using this
  | skip hg _ ih =>
    have := Flight.skip hg ih
    simpa [List.append_assoc] using this

/-- appending an ignorable (empty application-data) record at the writer's end. -/
theorem Flight.snoc_skip (C : Crypto) (s : Suite) (hs : s.WF) (hC : C.Laws s.tagLen s.macLen)
    {r : Half} {raw : Bytes} {items : List Item} {w : Half} (hF : Flight C s r raw items w) :
    Flight C s r (raw ++ (encrypt C s w tApp []).1) (items ++ [.skip]) (encrypt C s w tApp []).2 := by
  induction hF with
  | nil hsy =>
    obtain ⟨r', hg, hsy'⟩ := genuine_encrypt C s hs hC _ _ hsy tApp (by decide) (by decide) (by decide) [] (by decide)
    have := Flight.skip hg (Flight.nil hsy')
    simpa using this
  | app hg hne' hd' _ ih =>
    have := Flight.app hg hne' hd' ih
    simpa [List.append_assoc] using this
  | ku hv hg _ ih =>
    have := Flight.ku hv hg ih
    simpa [List.append_assoc] using this
  | skip hg _ ih =>
    have := Flight.skip hg ih
    simpa [List.append_assoc] using this

/-- appending a KeyUpdate record and re-keying the writer. -/
theorem Flight.snoc_ku (C : Crypto) (s : Suite) (hs : s.WF) (hC : C.Laws s.tagLen s.macLen) (hv : s.vers = v13)
    {r : Half} {raw : Bytes} {items : List Item} {w : Half} (hF : Flight C s r raw items w) (req : Bool) :
    Flight C s r (raw ++ (encrypt C s w tHs (keyUpdateMsg req)).1) (items ++ [.ku req])
      (rekey C (encrypt C s w tHs (keyUpdateMsg req)).2) := by
  induction hF with
  | nil hsy =>
    obtain ⟨r', hg, hsy'⟩ := genuine_encrypt C s hs hC _ _ hsy tHs (by decide) (by decide) (by decide)
      (keyUpdateMsg req) (by simp [keyUpdateMsg]; decide)
    have := Flight.ku hv hg (Flight.nil (sync_rekey C s hs hv _ _ hC _ _ hsy'))
    simpa using this
  | app hg hne' hd' _ ih =>
    have := Flight.app hg hne' hd' ih
    simpa [List.append_assoc] using this
  | ku hv' hg _ ih =>
    have := Flight.ku hv' hg ih
    simpa [List.append_assoc] using this
  | skip hg _ ih =>
    have := Flight.skip hg ih
    simpa [List.append_assoc] using this

/-! ### the writer -/

/-- `c'` differs from `c` at most in the outgoing half and the two send counters. -/
structure OutOnly (c c' : Conn) : Prop where
  p : c'.p = c.p
  inn : c'.inn = c.inn
  raw : c'.raw = c.raw
  input : c'.input = c.input
  hand : c'.hand = c.hand
  retry : c'.retry = c.retry
  inErr : c'.inErr = c.inErr
  outErr : c'.outErr = c.outErr

theorem OutOnly.refl (c : Conn) : OutOnly c c := ⟨rfl, rfl, rfl, rfl, rfl, rfl, rfl, rfl⟩

theorem OutOnly.trans {a c d : Conn} (h1 : OutOnly a c) (h2 : OutOnly c d) : OutOnly a d :=
  ⟨h2.p.trans h1.p, h2.inn.trans h1.inn, h2.raw.trans h1.raw, h2.input.trans h1.input, h2.hand.trans h1.hand,
   h2.retry.trans h1.retry, h2.inErr.trans h1.inErr, h2.outErr.trans h1.outErr⟩

theorem explicitNonceLen_le (s : Suite) (hs : s.WF) : explicitNonceLen s ≤ 16 := by
  unfold explicitNonceLen
  cases hk : s.kind with
  | stream => simp
  | aead w => cases w <;> simp
  | cbc =>
    have := hs.2.2.1 hk
    by_cases hv : s.vers ≥ v11 <;> simp [hv] <;> omega

theorem payloadBytes_pos (s : Suite) (hs : s.WF) : 1 ≤ payloadBytes s := by
  have henl := explicitNonceLen_le s hs
  have hml : s.macLen ≤ 48 := hs.2.2.2.2
  have htl : s.tagLen = 16 := hs.2.2.2.1
  unfold payloadBytes
  cases hk : s.kind with
  | stream => by_cases hv : s.vers = v13 <;> simp [hv] <;> rec_omega
  | aead w => by_cases hv : s.vers = v13 <;> simp [hv] <;> rec_omega
  | cbc =>
    have hbl := hs.2.2.1 hk
    have : explicitNonceLen s = s.blockLen ∨ explicitNonceLen s = 0 := by
      unfold explicitNonceLen; rw [hk]; by_cases hv : s.vers ≥ v11 <;> simp [hv]
    by_cases hv : s.vers = v13 <;> simp only [hv, if_true, if_false] <;>
      rcases hbl with hb | hb <;> rcases this with he | he <;> rw [he] <;> rw [hb] <;> rec_omega

theorem maxPayload_spec (c : Conn) (typ : Nat) (hs : c.p.s.WF) :
    1 ≤ (maxPayload c typ).1 ∧ (maxPayload c typ).1 ≤ maxPlaintext ∧ OutOnly c (maxPayload c typ).2 ∧
    (maxPayload c typ).2.out = c.out := by
  have hpb := payloadBytes_pos c.p.s hs
  have h16 : (1 : Nat) ≤ maxPlaintext := by decide
  by_cases h1 : (!c.p.dynamic || decide (typ ≠ tApp)) = true
  · have hval : maxPayload c typ = (maxPlaintext, c) := by unfold maxPayload; rw [if_pos h1]
    rw [hval]; exact ⟨h16, Nat.le_refl _, OutOnly.refl c, rfl⟩
  · by_cases h2 : c.bytesSent ≥ recordSizeBoostThreshold
    · have hval : maxPayload c typ = (maxPlaintext, c) := by unfold maxPayload; rw [if_neg h1, if_pos h2]
      rw [hval]; exact ⟨h16, Nat.le_refl _, OutOnly.refl c, rfl⟩
    · by_cases h3 : c.packetsSent > 1000
      · have hval : maxPayload c typ = (maxPlaintext, { c with packetsSent := c.packetsSent + 1 }) := by
          unfold maxPayload; rw [if_neg h1, if_neg h2]; simp only [h3, if_true]
        rw [hval]; exact ⟨h16, Nat.le_refl _, ⟨rfl, rfl, rfl, rfl, rfl, rfl, rfl, rfl⟩, rfl⟩
      · have hval : maxPayload c typ = (min (payloadBytes c.p.s * (c.packetsSent + 1)) maxPlaintext,
            { c with packetsSent := c.packetsSent + 1 }) := by
          unfold maxPayload; rw [if_neg h1, if_neg h2]; simp only [h3, if_false]
        rw [hval]
        refine ⟨?_, Nat.min_le_right _ _, ⟨rfl, rfl, rfl, rfl, rfl, rfl, rfl, rfl⟩, rfl⟩
        have : 1 ≤ payloadBytes c.p.s * (c.packetsSent + 1) := Nat.mul_pos hpb (Nat.succ_pos _)
        exact Nat.le_min.mpr ⟨this, h16⟩

/-- **fragmentation loop**: writing application data appends, to whatever is in flight, genuine
records whose chunks concatenate to exactly the data written; nothing but the outgoing half and the
send counters changes. -/
theorem writeLoop_app (C : Crypto) (f : Nat) : ∀ (c : Conn) (data : Bytes), data.length ≤ f → c.p.s.WF →
    C.Laws c.p.s.tagLen c.p.s.macLen → ∀ (r : Half) (raw : Bytes) (items : List Item),
    Flight C c.p.s r raw items c.out →
    ∃ items', Flight C c.p.s r (raw ++ (writeLoop C f c tApp data).1.flatten) (items ++ items')
        (writeLoop C f c tApp data).2.out ∧
      appBytes items' = data ∧ OutOnly c (writeLoop C f c tApp data).2 ∧ NoSkip items' := by
  induction f with
  | zero =>
    intro c data hf _ _ r raw items hF
    have : data = [] := List.eq_nil_of_length_eq_zero (by omega)
    subst this
    exact ⟨[], by simpa [writeLoop] using hF, rfl, OutOnly.refl c, trivial⟩
  | succ f ih =>
    intro c data hf hs hC r raw items hF
    by_cases hd : data = []
    · subst hd
      exact ⟨[], by simpa [writeLoop] using hF, rfl, OutOnly.refl c, trivial⟩
    · obtain ⟨hm1, hm2, hoo, hout⟩ := maxPayload_spec c tApp hs
      simp only [writeLoop, hd, if_false]
      generalize hmp : maxPayload c tApp = mp at hm1 hm2 hoo hout
      have hdl : 0 < data.length := List.length_pos_iff.mpr hd
      have hmpos : 1 ≤ min data.length mp.1 := Nat.le_min.mpr ⟨hdl, hm1⟩
      have hfrag_ne : data.take (min data.length mp.1) ≠ [] := by
        intro h
        rcases List.take_eq_nil_iff.mp h with h0 | h0
        · omega
        · exact hd h0
      have hfrag_le : (data.take (min data.length mp.1)).length ≤ maxPlaintext := by
        rw [List.length_take]
        exact Nat.le_trans (Nat.min_le_left _ _) (Nat.le_trans (Nat.min_le_right _ _) hm2)
      rw [hout]
      have hF1 := Flight.snoc_app C c.p.s hs hC hF _ hfrag_ne hfrag_le
      generalize hce : encrypt C c.p.s c.out tApp (data.take (min data.length mp.1)) = e at hF1
      have hc2p : ({ mp.2 with out := e.2, bytesSent := mp.2.bytesSent + e.1.length } : Conn).p = c.p := hoo.p
      have hrest : (data.drop (min data.length mp.1)).length ≤ f := by
        rw [List.length_drop]
        rcases Nat.le_total data.length mp.1 with h | h
        · rw [Nat.min_eq_left h]; omega
        · rw [Nat.min_eq_right h]; omega
      obtain ⟨items', hF2, hab, hoo2, hns⟩ := ih { mp.2 with out := e.2, bytesSent := mp.2.bytesSent + e.1.length }
        (data.drop (min data.length mp.1)) hrest (by rw [hc2p]; exact hs)
        (by rw [hc2p]; exact hC) r (raw ++ e.1) (items ++ [.app (data.take (min data.length mp.1))])
        (by rw [hc2p]; exact hF1)
      refine ⟨.app (data.take (min data.length mp.1)) :: items', ?_, ?_, ?_, hns⟩
      · rw [hc2p] at hF2
        simpa [List.append_assoc] using hF2
      · simp [appBytes, hab]
      · refine OutOnly.trans (OutOnly.trans hoo ?_) hoo2
        exact ⟨rfl, rfl, rfl, rfl, rfl, rfl, rfl, rfl⟩

/-- `Write(data)` with no pending write error (incl. the 1/n−1 split). -/
theorem write_flight (C : Crypto) (c : Conn) (data : Bytes) (hs : c.p.s.WF) (hC : C.Laws c.p.s.tagLen c.p.s.macLen)
    (he : c.outErr = none) (r : Half) (raw : Bytes) (items : List Item) (hF : Flight C c.p.s r raw items c.out) :
    ∃ items', Flight C c.p.s r (raw ++ (write C c data).1.flatten) (items ++ items') (write C c data).2.out ∧
      appBytes items' = data ∧ OutOnly c (write C c data).2 ∧ NoSkip items' := by
  unfold write
  rw [he]
  simp only [Option.isSome_none, Bool.false_eq_true, if_false]
  by_cases hsp : data.length > 1 ∧ splitVers c.p = true ∧ c.p.s.kind = .cbc
  · rw [if_pos hsp]
    unfold writeRecord
    obtain ⟨i1, hF1, ha1, ho1, hn1⟩ := writeLoop_app C _ c (data.take 1) (Nat.le_refl _) hs hC r raw items hF
    generalize writeLoop C (data.take 1).length c tApp (data.take 1) = r1 at hF1 ho1
    obtain ⟨i2, hF2, ha2, ho2, hn2⟩ := writeLoop_app C _ r1.2 (data.drop 1) (Nat.le_refl _) (by rw [ho1.p]; exact hs)
      (by rw [ho1.p]; exact hC) r _ _ (by rw [ho1.p]; exact hF1)
    refine ⟨i1 ++ i2, ?_, ?_, OutOnly.trans ho1 ho2, noSkip_append _ _ hn1 hn2⟩
    · rw [ho1.p] at hF2
      simpa [List.append_assoc] using hF2
    · rw [appBytes_append, ha1, ha2, List.take_append_drop]
  · rw [if_neg hsp]
    unfold writeRecord
    exact writeLoop_app C _ c data (Nat.le_refl _) hs hC r raw items hF

/-- a handshake/alert-type record of at most 2^14 bytes goes out as exactly one record. -/
theorem writeRecord_single (C : Crypto) (c : Conn) (typ : Nat) (ht : typ ≠ tApp) (data : Bytes) (hne : data ≠ [])
    (hle : data.length ≤ maxPlaintext) :
    writeRecord C c typ data = ([(encrypt C c.p.s c.out typ data).1],
      { c with out := (encrypt C c.p.s c.out typ data).2,
               bytesSent := c.bytesSent + (encrypt C c.p.s c.out typ data).1.length }) := by
  unfold writeRecord
  obtain ⟨n, hn⟩ : ∃ n, data.length = n + 1 := ⟨data.length - 1, by
    have := List.length_pos_iff.mpr hne; omega⟩
  rw [hn]
  have hmp : maxPayload c typ = (maxPlaintext, c) := by
    unfold maxPayload
    rw [if_pos (by simp [ht])]
  simp only [writeLoop, hne, if_false, hmp]
  have hmin : min data.length maxPlaintext = data.length := Nat.min_eq_left hle
  rw [hmin, List.take_length, List.drop_length]
  cases n <;> simp [writeLoop]

/-- sending a KeyUpdate extends the flight by one KeyUpdate item and re-keys the writer. -/
theorem sendKeyUpdate_flight (C : Crypto) (c : Conn) (req : Bool) (hs : c.p.s.WF) (hC : C.Laws c.p.s.tagLen c.p.s.macLen)
    (hv : c.p.s.vers = v13) (r : Half) (raw : Bytes) (items : List Item) (hF : Flight C c.p.s r raw items c.out) :
    Flight C c.p.s r (raw ++ (sendKeyUpdate C c req).1.flatten) (items ++ [.ku req]) (sendKeyUpdate C c req).2.out ∧
      OutOnly c (sendKeyUpdate C c req).2 := by
  unfold sendKeyUpdate
  rw [writeRecord_single C c tHs (by decide) (keyUpdateMsg req) (by simp [keyUpdateMsg]) (by simp [keyUpdateMsg]; decide)]
  refine ⟨?_, ⟨rfl, rfl, rfl, rfl, rfl, rfl, rfl, rfl⟩⟩
  have := Flight.snoc_ku C c.p.s hs hC hv hF req
  simpa using this

/-! ### the reader -/

theorem lenLimit_lt (s : Suite) : lenLimit s < 65536 := by
  unfold lenLimit; by_cases h : s.vers = v13 <;> simp [h] <;> decide

theorem parseHeader_hdr (t v n : Nat) (X : Bytes) (hv : v < 65536) (hn : n < 65536) :
    parseHeader (hdr t v n ++ X) = some (v, n, X) := by
  show some ((b (v / 256)).toNat * 256 + (b v).toNat, (b (n / 256)).toNat * 256 + (b n).toNat, X) = _
  rw [u16_pair_toNat v hv, u16_pair_toNat n hn]

theorem afterDecrypt_app (C : Crypto) (c1 : Conn) (d : Bytes) (r' : Half) (hdl : d.length ≤ maxPlaintext) (hdne : d ≠ [])
    (hh : c1.p.s.vers = v13 → c1.hand = []) :
    afterDecrypt C c1 d tApp r' = .next { c1 with inn := r', retry := 0, input := d } [] := by
  have hdpos : 0 < d.length := List.length_pos_iff.mpr hdne
  have hnl : ¬ (d.length > maxPlaintext) := Nat.not_lt.mpr hdl
  by_cases hv : c1.p.s.vers = v13
  · simp [afterDecrypt, dispatch, hdne, hdpos, hnl, hh hv, hv, tApp, tAlert, tCCS, tHs]
  · simp [afterDecrypt, dispatch, hdne, hdpos, hnl, hv, tApp, tAlert, tCCS, tHs]

/-- an empty application-data record is dropped through `retryReadRecord`. -/
theorem afterDecrypt_app_empty (C : Crypto) (c1 : Conn) (r' : Half) (hh : c1.p.s.vers = v13 → c1.hand = []) :
    afterDecrypt C c1 [] tApp r' = retryStep C { c1 with inn := r' } := by
  by_cases hv : c1.p.s.vers = v13
  · simp [afterDecrypt, dispatch, hh hv, hv, tApp, tAlert, tCCS, tHs]
  · simp [afterDecrypt, dispatch, hv, tApp, tAlert, tCCS, tHs]

theorem retryStep_ok (C : Crypto) (c : Conn) (h : c.retry + 1 ≤ maxUselessRecords) :
    retryStep C c = .next { c with retry := c.retry + 1 } [] := by
  unfold retryStep
  simp only
  rw [if_neg (by simp; omega)]

theorem afterDecrypt_hs (C : Crypto) (c1 : Conn) (d : Bytes) (r' : Half) (hdl : d.length ≤ maxPlaintext) (hdne : d ≠ []) :
    afterDecrypt C c1 d tHs r' = .next { c1 with inn := r', retry := 0, hand := c1.hand ++ d } [] := by
  have hdpos : 0 < d.length := List.length_pos_iff.mpr hdne
  have hnl : ¬ (d.length > maxPlaintext) := Nat.not_lt.mpr hdl
  simp [afterDecrypt, dispatch, hdne, hdpos, hnl, tApp, tAlert, tCCS, tHs]

/-- `readRecord` on a genuine record at the head of `raw`: the record is removed and handed, with
its decrypted content, to `afterDecrypt`. -/
theorem readRecord_genuine (C : Crypto) (c : Conn) (rec rest d : Bytes) (typ : Nat) (r' : Half) (hs : c.p.s.WF)
    (hg : Genuine C c.p.s c.inn rec typ d r') (hraw : c.raw = rec ++ rest) (herr : c.inErr = none) :
    readRecord C c = afterDecrypt C { c with raw := rest } d typ r' := by
  obtain ⟨t, body, hrec, hlim, _, _⟩ := hg.framed
  have hdec := hg.dec
  have hrv := wireVers_lt c.p.s hs
  have hn : body.length < 65536 := Nat.lt_of_le_of_lt hlim (lenLimit_lt _)
  have hreclen : rec.length = 5 + body.length := by rw [hrec]; simp
  have hph : parseHeader c.raw = some (wireVers c.p.s.vers, body.length, body ++ rest) := by
    rw [hraw, hrec, List.append_assoc]; exact parseHeader_hdr _ _ _ _ hrv hn
  have htake : c.raw.take (5 + body.length) = rec := by rw [hraw, ← hreclen, List.take_left]
  have hdrop : c.raw.drop (5 + body.length) = rest := by rw [hraw, ← hreclen, List.drop_left]
  unfold readRecord
  rw [herr]
  simp only [hph]
  rw [if_neg (by simp)]
  rw [if_neg (by
    intro h
    unfold lenLimit at hlim
    rcases h with ⟨hv, h⟩ | h
    · rw [if_pos hv] at hlim; omega
    · by_cases hv : c.p.s.vers = v13
      · rw [if_pos hv] at hlim; rec_omega
      · rw [if_neg hv] at hlim; omega)]
  rw [if_neg (by simp)]
  rw [htake, hdrop]
  simp only [hdec]

theorem sendKeyUpdate_eq (C : Crypto) (c : Conn) (req : Bool) :
    sendKeyUpdate C c req = ([(encrypt C c.p.s c.out tHs (keyUpdateMsg req)).1],
      { c with out := rekey C (encrypt C c.p.s c.out tHs (keyUpdateMsg req)).2,
               bytesSent := c.bytesSent + (encrypt C c.p.s c.out tHs (keyUpdateMsg req)).1.length }) := by
  unfold sendKeyUpdate
  rw [writeRecord_single C c tHs (by decide) (keyUpdateMsg req) (by simp [keyUpdateMsg]) (by simp [keyUpdateMsg]; decide)]

theorem sendKeyUpdate_outOnly (C : Crypto) (c : Conn) (req : Bool) : OutOnly c (sendKeyUpdate C c req).2 := by
  rw [sendKeyUpdate_eq]; exact ⟨rfl, rfl, rfl, rfl, rfl, rfl, rfl, rfl⟩

theorem handleMsg_ku (C : Crypto) (c1 : Conn) (req : Bool) (hr : c1.retry = 0) :
    handleMsg C c1 typeKeyUpdate [if req then 1 else 0] =
      (if req = true then
        .cont (sendKeyUpdate C { c1 with retry := 1, inn := rekey C c1.inn } false).2
          (sendKeyUpdate C { c1 with retry := 1, inn := rekey C c1.inn } false).1
      else .cont { c1 with retry := 1, inn := rekey C c1.inn } []) := by
  unfold handleMsg
  rw [if_pos rfl]
  cases req with
  | false =>
    simp only [Bool.false_eq_true, if_false]
    rw [if_neg (by decide), hr]
    simp only [Nat.zero_add, if_neg (show ¬ (1 > maxUselessRecords) by decide), if_neg (show ¬ ((0 : UInt8).toNat = 1) by decide)]
  | true =>
    simp only [if_true]
    rw [if_neg (by decide), hr]
    simp only [Nat.zero_add, if_neg (show ¬ (1 > maxUselessRecords) by decide), if_pos (show (1 : UInt8).toNat = 1 by decide)]

/-- `handlePostHandshakeMessage` on exactly one KeyUpdate message in `hand`. -/
theorem drainHand_ku (C : Crypto) (c : Conn) (req : Bool) (sent : List Bytes) (f : Nat) (hv : c.p.s.vers = v13)
    (hh : c.hand = keyUpdateMsg req) (hr : c.retry = 0) :
    drainHand C (f + 2) c sent =
      (if req = true then
        .next (sendKeyUpdate C { c with hand := [], retry := 1, inn := rekey C c.inn } false).2
          (sent ++ (sendKeyUpdate C { c with hand := [], retry := 1, inn := rekey C c.inn } false).1)
      else .next { c with hand := [], retry := 1, inn := rekey C c.inn } sent) := by
  have hstep : drainHand C (f + 2) c sent =
      (match handleMsg C { c with hand := [] } typeKeyUpdate [if req then 1 else 0] with
       | .cont c2 s2 => drainHand C (f + 1) c2 (sent ++ s2)
       | .fail e c2 s2 => .fail e c2 (sent ++ s2)) := by
    rw [drainHand, hh]
    simp only [keyUpdateMsg]
    rw [if_neg (by simp [hv])]
    simp only [show ((0 : UInt8).toNat * 65536 + (0 : UInt8).toNat * 256 + (1 : UInt8).toNat) = 1 by decide]
    rw [if_neg (by decide), if_neg (by simp)]
    rfl
  rw [hstep, handleMsg_ku C { c with hand := [] } req hr]
  cases req with
  | false =>
    simp only [Bool.false_eq_true, if_false]
    rw [drainHand]; simp
  | true =>
    simp only [if_true]
    have hho := (sendKeyUpdate_outOnly C ({ c with hand := [], retry := 1, inn := rekey C c.inn } : Conn) false).hand
    rw [drainHand]
    simp only at hho ⊢
    rw [hho]

end Record
