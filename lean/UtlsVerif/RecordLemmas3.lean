import UtlsVerif.RecordLemmas2
import UtlsVerif.RecordSys
/-!
# RecordLemmas3 — the reader loop (`fill`, `read`) over records in flight
-/
namespace Record
open Wire Keystream

theorem flight_items_le_raw {C : Crypto} {s : Suite} {r : Half} {raw : Bytes} {items : List Item} {w : Half}
    (hF : Flight C s r raw items w) : items.length ≤ raw.length := by
  induction hF with
  | nil _ => simp
  | app hg _ _ _ ih =>
    obtain ⟨t, body, hrec, _⟩ := hg.framed
    simp [hrec]; omega
  | ku _ hg _ ih =>
    obtain ⟨t, body, hrec, _⟩ := hg.framed
    simp [hrec]; omega
  | skip hg _ ih =>
    obtain ⟨t, body, hrec, _⟩ := hg.framed
    simp [hrec]; omega

/-- the first byte of the bytes in flight is never the `alert` content type. -/
theorem flight_head_not_alert {C : Crypto} {s : Suite} {r : Half} {raw : Bytes} {items : List Item} {w : Half}
    (hF : Flight C s r raw items w) : raw.head? ≠ some (b tAlert) := by
  have key : ∀ t : Nat, t < 256 → t ≠ tAlert → b t ≠ b tAlert := by
    intro t ht hne h
    have := congrArg UInt8.toNat h
    rw [b_toNat_of_lt t ht, b_toNat_of_lt tAlert (by decide)] at this
    exact hne this
  cases hF with
  | nil _ => simp
  | app hg _ _ _ =>
    obtain ⟨t, body, hrec, _, ht, hta⟩ := hg.framed
    rw [hrec]
    show some (b t) ≠ _
    intro h; exact key t ht hta (Option.some.inj h)
  | ku _ hg _ =>
    obtain ⟨t, body, hrec, _, ht, hta⟩ := hg.framed
    rw [hrec]
    show some (b t) ≠ _
    intro h; exact key t ht hta (Option.some.inj h)
  | skip hg _ =>
    obtain ⟨t, body, hrec, _, ht, hta⟩ := hg.framed
    rw [hrec]
    show some (b t) ≠ _
    intro h; exact key t ht hta (Option.some.inj h)

theorem readRecord_empty (C : Crypto) (c : Conn) (hraw : c.raw = []) (herr : c.inErr = none) : readRecord C c = .short := by
  unfold readRecord; rw [herr, hraw]; rfl

theorem fill_succ_empty (C : Crypto) (f : Nat) (c : Conn) (acc : List Bytes) (hin : c.input = []) :
    fill C (f + 1) c acc =
      (match readRecord C c with
       | .short => .short c acc
       | .fail e c1 s1 => .fail e c1 (acc ++ s1)
       | .next c1 s1 =>
         match drainHand C c1.hand.length c1 (acc ++ s1) with
         | .short => .short c1 (acc ++ s1)
         | .fail e c2 s2 => .fail e c2 s2
         | .next c2 s2 => fill C f c2 s2) := by
  simp only [fill, hin, ne_eq, not_true_eq_false, if_false]
  cases readRecord C c with
  | short => rfl
  | fail e c1 s1 => rfl
  | next c1 s1 => cases drainHand C c1.hand.length c1 (acc ++ s1) <;> rfl

theorem fill_succ_ready (C : Crypto) (f : Nat) (c : Conn) (acc : List Bytes) (hin : c.input ≠ []) :
    fill C (f + 1) c acc = .ready c acc := by
  simp [fill, hin]

/-- the outcome of the reader loop over a flight carrying `items`, for a reader with parameters
`p0` and write-error state `oe`. -/
def FillOK (C : Crypto) (s : Suite) (Q : Half → List Bytes → Prop) (wout : Half) (items : List Item)
    (p0 : Params) (oe : Option Err) (res : Fill) : Prop :=
  (∃ rd' sent rest, res = .ready rd' sent ∧ rd'.input ≠ [] ∧
      appBytes items = rd'.input ++ appBytes rest ∧ Flight C s rd'.inn rd'.raw rest wout ∧ rd'.hand = [] ∧
      rd'.inErr = none ∧ rd'.p = p0 ∧ rd'.outErr = oe ∧ Q rd'.out sent ∧ okRuns rd'.retry rest ∧
      ∃ pre, items = pre ++ rest) ∨
  (∃ rd' sent, res = .short rd' sent ∧ appBytes items = [] ∧ rd'.input = [] ∧ rd'.raw = [] ∧
      Sync s rd'.inn wout ∧ rd'.hand = [] ∧ rd'.inErr = none ∧ rd'.p = p0 ∧ rd'.outErr = oe ∧ Q rd'.out sent)

/-- an item that carries no application bytes in front of the flight does not change the outcome. -/
theorem FillOK.cons {C : Crypto} {s : Suite} {Q : Half → List Bytes → Prop} {wout : Half} {items : List Item}
    {p0 : Params} {oe : Option Err} {res : Fill} (i : Item) (hi : appBytes [i] = [])
    (h : FillOK C s Q wout items p0 oe res) : FillOK C s Q wout (i :: items) p0 oe res := by
  have hab : appBytes (i :: items) = appBytes items := by
    have := appBytes_append [i] items
    simpa [hi] using this
  rcases h with ⟨rd', sent, rest, h1, h2, h3, h4, h5, h6, h7, h8, h9, h10, pre, hpre⟩ | ⟨rd', sent, h1, h2, h3⟩
  · exact Or.inl ⟨rd', sent, rest, h1, h2, by rw [hab]; exact h3, h4, h5, h6, h7, h8, h9, h10, i :: pre, by rw [hpre]; rfl⟩
  · exact Or.inr ⟨rd', sent, h1, by rw [hab]; exact h2, h3⟩

/-- **the reader loop over a flight.** `Q` is any property of (this endpoint's outgoing half, the
records it has emitted) that sending a KeyUpdate response preserves. The loop never fails: it ends
`ready` with the first application-data chunk in `input`, or `short` when only KeyUpdates were
waiting — then the reader is in lockstep with the writer. -/
theorem fill_flight (C : Crypto) (s : Suite) (hs : s.WF) (Q : Half → List Bytes → Prop)
    (hQ : s.vers = v13 → ∀ out sent, Q out sent → Q (rekey C (encrypt C s out tHs (keyUpdateMsg false)).2)
      (sent ++ [(encrypt C s out tHs (keyUpdateMsg false)).1]))
    {r : Half} {raw : Bytes} {items : List Item} {wout : Half} (hF : Flight C s r raw items wout) :
    ∀ (f : Nat) (rd : Conn) (acc : List Bytes), rd.inn = r → rd.raw = raw → items.length < f → rd.input = [] →
      rd.hand = [] → rd.inErr = none → rd.p.s = s → Q rd.out acc → okRuns rd.retry items →
      FillOK C s Q wout items rd.p rd.outErr (fill C f rd acc) := by
  induction hF with
  | nil hsy =>
    intro f rd acc hinn hraw hf hin hh he hp hq _
    obtain ⟨f', rfl⟩ : ∃ f', f = f' + 1 := ⟨f - 1, by omega⟩
    right
    refine ⟨rd, acc, ?_, rfl, hin, hraw, by rw [hinn]; exact hsy, hh, he, rfl, rfl, hq⟩
    rw [fill_succ_empty C f' rd acc hin, readRecord_empty C rd hraw he]
  | @app r0 r' w rec raw' items' d hg hne hd hF' ih =>
    intro f rd acc hinn hraw hf hin hh he hp hq hok
    obtain ⟨f', rfl⟩ : ∃ f', f = f' + 2 := ⟨f - 2, by simp at hf; omega⟩
    left
    have hrr := readRecord_genuine C rd rec raw' d tApp r' (by rw [hp]; exact hs) (by rw [hp, hinn]; exact hg) hraw he
    rw [afterDecrypt_app C _ d r' hd hne (by intro _; exact hh)] at hrr
    refine ⟨{ rd with raw := raw', inn := r', retry := 0, input := d }, acc ++ [], items', ?_, hne, rfl, hF', hh, he, rfl, rfl,
      by simpa using hq, hok, [.app d], rfl⟩
    rw [fill_succ_empty C (f' + 1) rd acc hin, hrr]
    simp only [hh, List.length_nil, drainHand]
    rw [fill_succ_ready C f' _ _ hne]
  | @ku r0 r' w rec raw' items' req hv hg hF' ih =>
    intro f rd acc hinn hraw hf hin hh he hp hq hok
    obtain ⟨f', rfl⟩ : ∃ f', f = f' + 1 := ⟨f - 1, by omega⟩
    have hrr := readRecord_genuine C rd rec raw' (keyUpdateMsg req) tHs r' (by rw [hp]; exact hs) (by rw [hp, hinn]; exact hg) hraw he
    rw [afterDecrypt_hs C _ _ r' (by simp [keyUpdateMsg]; decide) (by simp [keyUpdateMsg])] at hrr
    -- the connection after the record, before the message is handled
    generalize hc1 : ({ rd with raw := raw', inn := r', retry := 0, hand := rd.hand ++ keyUpdateMsg req } : Conn) = c1 at hrr
    have hc1hand : c1.hand = keyUpdateMsg req := by rw [← hc1, hh]; rfl
    have hc1v : c1.p.s.vers = v13 := by rw [← hc1]; show rd.p.s.vers = v13; rw [hp]; exact hv
    have hc1r : c1.retry = 0 := by rw [← hc1]
    have hdr := drainHand_ku C c1 req (acc ++ []) 3 hc1v hc1hand hc1r
    have hlen : c1.hand.length = 3 + 2 := by rw [hc1hand]; simp [keyUpdateMsg]
    rw [fill_succ_empty C f' rd acc hin, hrr]
    simp only [hlen, hdr]
    generalize hc2 : ({ c1 with hand := [], retry := 1, inn := rekey C c1.inn } : Conn) = c2
    have hc2p : c2.p = rd.p := by rw [← hc2, ← hc1]
    have hc2out : c2.out = rd.out := by rw [← hc2, ← hc1]
    have hc2oe : c2.outErr = rd.outErr := by rw [← hc2, ← hc1]
    have hc2r : c2.retry = 1 := by rw [← hc2]
    cases req with
    | false =>
      simp only [Bool.false_eq_true, if_false]
      have := ih f' c2 (acc ++ [])
        (by rw [← hc2, ← hc1]) (by rw [← hc2, ← hc1]) (by simp at hf; omega) (by rw [← hc2, ← hc1]; exact hin) (by rw [← hc2])
        (by rw [← hc2, ← hc1]; exact he) (by rw [hc2p]; exact hp) (by rw [hc2out]; simpa using hq)
        (by rw [hc2r]; exact hok)
      rw [hc2p, hc2oe] at this
      exact FillOK.cons _ rfl this
    | true =>
      simp only [if_true]
      have hoo := sendKeyUpdate_outOnly C c2 false
      have hsk := sendKeyUpdate_eq C c2 false
      have hq' : Q (sendKeyUpdate C c2 false).2.out (acc ++ [] ++ (sendKeyUpdate C c2 false).1) := by
        rw [hsk]
        show Q (rekey C (encrypt C c2.p.s c2.out tHs (keyUpdateMsg false)).2) _
        rw [hc2p, hp, hc2out]
        simpa using hQ hv _ _ hq
      generalize sendKeyUpdate C c2 false = sk at hoo hq'
      have := ih f' sk.2 (acc ++ [] ++ sk.1)
        (by rw [hoo.inn, ← hc2, ← hc1]) (by rw [hoo.raw, ← hc2, ← hc1]) (by simp at hf; omega)
        (by rw [hoo.input, ← hc2, ← hc1]; exact hin) (by rw [hoo.hand, ← hc2]) (by rw [hoo.inErr, ← hc2, ← hc1]; exact he)
        (by rw [hoo.p, hc2p]; exact hp) hq' (by rw [hoo.retry, hc2r]; exact hok)
      rw [hoo.p, hc2p, hoo.outErr, hc2oe] at this
      exact FillOK.cons _ rfl this
  | @skip r0 r' w rec raw' items' hg hF' ih =>
    intro f rd acc hinn hraw hf hin hh he hp hq hok
    obtain ⟨f', rfl⟩ : ∃ f', f = f' + 1 := ⟨f - 1, by omega⟩
    have hrr := readRecord_genuine C rd rec raw' [] tApp r' (by rw [hp]; exact hs) (by rw [hp, hinn]; exact hg) hraw he
    rw [afterDecrypt_app_empty C _ r' (by intro _; exact hh)] at hrr
    rw [retryStep_ok C ({ ({ rd with raw := raw' } : Conn) with inn := r' }) hok.1] at hrr
    rw [fill_succ_empty C f' rd acc hin, hrr]
    simp only [hh, List.length_nil, drainHand]
    have := ih f' { rd with raw := raw', inn := r', retry := rd.retry + 1, hand := [] } (acc ++ [])
      rfl rfl (by simp at hf; omega) hin rfl he hp (by simpa using hq) hok.2
    exact FillOK.cons _ rfl this

/-- **`Read(buf)` over a flight**: no error; the bytes returned are the next bytes of
(`input` ‖ chunks in flight); what is left is again a flight; progress when anything is pending. -/
theorem read_flight (C : Crypto) (s : Suite) (hs : s.WF) (Q : Half → List Bytes → Prop)
    (hQ : s.vers = v13 → ∀ out sent, Q out sent → Q (rekey C (encrypt C s out tHs (keyUpdateMsg false)).2)
      (sent ++ [(encrypt C s out tHs (keyUpdateMsg false)).1]))
    (rd : Conn) (n : Nat) (items : List Item) (wout : Half) (hF : Flight C s rd.inn rd.raw items wout)
    (hh : rd.hand = []) (he : rd.inErr = none) (hp : rd.p.s = s) (hq : Q rd.out []) (hok : okRuns rd.retry items) :
    (read C rd n).err = none ∧
    ∃ rest, rd.input ++ appBytes items = (read C rd n).data ++ (read C rd n).c.input ++ appBytes rest ∧
      Flight C s (read C rd n).c.inn (read C rd n).c.raw rest wout ∧ (read C rd n).c.hand = [] ∧
      (read C rd n).c.inErr = none ∧ (read C rd n).c.p = rd.p ∧ (read C rd n).c.outErr = rd.outErr ∧
      Q (read C rd n).c.out (read C rd n).sent ∧ okRuns (read C rd n).c.retry rest ∧ (∃ pre, items = pre ++ rest) ∧
      (0 < n → rd.input ++ appBytes items ≠ [] → (read C rd n).data ≠ []) ∧
      ((read C rd n).c.raw = [] → (read C rd n).c.input = [] → Sync s (read C rd n).c.inn wout) := by
  have hsyncOf : ∀ {r : Half} {raw : Bytes} {it : List Item}, Flight C s r raw it wout → raw = [] → Sync s r wout := by
    intro r raw it hFl hraw
    cases hFl with
    | nil h => exact h
    | app hg _ _ _ =>
      obtain ⟨t, body, hrec, _⟩ := hg.framed
      rw [hrec] at hraw; simp [hdr] at hraw
    | ku _ hg _ =>
      obtain ⟨t, body, hrec, _⟩ := hg.framed
      rw [hrec] at hraw; simp [hdr] at hraw
    | skip hg _ =>
      obtain ⟨t, body, hrec, _⟩ := hg.framed
      rw [hrec] at hraw; simp [hdr] at hraw
  by_cases hn : n = 0
  · subst hn
    have hres : read C rd 0 = ⟨[], none, false, rd, []⟩ := by simp [read]
    rw [hres]
    exact ⟨rfl, items, by simp, hF, hh, he, rfl, rfl, hq, hok, ⟨[], rfl⟩, fun h => absurd h (Nat.lt_irrefl 0),
      fun hr _ => hsyncOf hF hr⟩
  · have hnpos : 0 < n := Nat.pos_of_ne_zero hn
    -- the tail of `read` once the loop has produced a connection with non-empty input
    have tail : ∀ (c1 : Conn) (sent : List Bytes) (rest : List Item), c1.input ≠ [] →
        Flight C s c1.inn c1.raw rest wout →
        (if c1.input.take n ≠ [] ∧ ({ c1 with input := c1.input.drop n } : Conn).input = [] ∧
            ({ c1 with input := c1.input.drop n } : Conn).raw.head? = some (b tAlert) then
          (match readRecord C { c1 with input := c1.input.drop n } with
           | .fail e c3 s3 => (⟨c1.input.take n, some e, false, c3, sent ++ s3⟩ : ReadRes)
           | .short => ⟨c1.input.take n, none, true, { c1 with input := c1.input.drop n }, sent⟩
           | .next c3 s3 => ⟨c1.input.take n, none, false, c3, sent ++ s3⟩)
        else ⟨c1.input.take n, none, false, { c1 with input := c1.input.drop n }, sent⟩) =
        ⟨c1.input.take n, none, false, { c1 with input := c1.input.drop n }, sent⟩ := by
      intro c1 sent rest _ hFl
      rw [if_neg]
      intro ⟨_, _, h3⟩
      exact flight_head_not_alert hFl h3
    by_cases hin : rd.input = []
    · have hfo := fill_flight C s hs Q hQ hF (rd.raw.length + 1) rd [] rfl rfl
        (Nat.lt_succ_of_le (flight_items_le_raw hF)) hin hh he hp hq hok
      rcases hfo with ⟨rd', sent, rest, hfill, hne, hab, hF', hh', he', hp', hoe', hq', hok', hsuf⟩ |
        ⟨rd', sent, hfill, hab, hin', hraw', hsy', hh', he', hp', hoe', hq'⟩
      · have hres : read C rd n = ⟨rd'.input.take n, none, false, { rd' with input := rd'.input.drop n }, sent⟩ := by
          simp only [read, hn, if_false, hfill]
          exact tail rd' sent rest hne hF'
        rw [hres]
        refine ⟨rfl, rest, ?_, hF', hh', he', hp', hoe', hq', hok', hsuf, ?_, fun hr _ => hsyncOf hF' hr⟩
        · show rd.input ++ appBytes items = rd'.input.take n ++ rd'.input.drop n ++ appBytes rest
          rw [hin, List.nil_append, hab, List.take_append_drop]
        · intro _ _ h
          rcases List.take_eq_nil_iff.mp h with h0 | h0
          · omega
          · exact hne h0
      · have hres : read C rd n = ⟨[], none, true, rd', sent⟩ := by
          simp only [read, hn, if_false, hfill]
        rw [hres]
        refine ⟨rfl, [], ?_, by rw [hraw']; exact Flight.nil hsy', hh', he', hp', hoe', hq', trivial, ⟨items, by simp⟩, ?_, fun _ _ => hsy'⟩
        · simp [hin, hab, hin', appBytes]
        · intro _ hne; rw [hin, hab] at hne; exact absurd rfl hne
    · have hfill : fill C (rd.raw.length + 1) rd [] = .ready rd [] := fill_succ_ready C _ rd [] hin
      have hres : read C rd n = ⟨rd.input.take n, none, false, { rd with input := rd.input.drop n }, []⟩ := by
        simp only [read, hn, if_false, hfill]
        exact tail rd [] items hin hF
      rw [hres]
      refine ⟨rfl, items, ?_, hF, hh, he, rfl, rfl, hq, hok, ⟨[], rfl⟩, ?_, fun hr _ => hsyncOf hF hr⟩
      · show rd.input ++ appBytes items = rd.input.take n ++ rd.input.drop n ++ appBytes items
        rw [List.take_append_drop]
      · intro _ _ h
        rcases List.take_eq_nil_iff.mp h with h0 | h0
        · omega
        · exact hin h0

end Record
