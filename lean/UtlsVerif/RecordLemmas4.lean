import UtlsVerif.RecordLemmas3
/-!
# RecordLemmas4 — the two-endpoint invariant and its preservation by every operation
-/
namespace Record
open Wire Keystream

/-- direction `w → rd`: what `rd` has not yet parsed is a flight written by `w`; the bytes written
are the bytes read, then `rd`'s buffered plaintext, then the chunks in flight. -/
def DirInv (C : Crypto) (s : Suite) (w rd : Conn) (sent recv : Bytes) : Prop :=
  ∃ items, Flight C s rd.inn rd.raw items w.out ∧ sent = recv ++ rd.input ++ appBytes items ∧
    rd.hand = [] ∧ rd.inErr = none ∧ rd.p.s = s ∧ w.p.s = s ∧ w.outErr = none ∧ NoSkip items

def Inv (C : Crypto) (s : Suite) (σ : Sys) : Prop :=
  DirInv C s σ.a σ.b σ.sentAB σ.recvAB ∧ DirInv C s σ.b σ.a σ.sentBA σ.recvBA ∧ σ.ok = true

/-- only the fields the direction `w → rd` depends on. -/
theorem DirInv.congr {C : Crypto} {s : Suite} {w rd w' rd' : Conn} {sent recv : Bytes}
    (h : DirInv C s w rd sent recv) (h1 : w'.out = w.out) (h2 : w'.p = w.p) (h3 : w'.outErr = w.outErr)
    (h4 : rd'.inn = rd.inn) (h5 : rd'.raw = rd.raw) (h6 : rd'.input = rd.input) (h7 : rd'.hand = rd.hand)
    (h8 : rd'.inErr = rd.inErr) (h9 : rd'.p = rd.p) : DirInv C s w' rd' sent recv := by
  obtain ⟨items, hF, hs, hh, he, hp, hwp, hwe, hns⟩ := h
  exact ⟨items, by rw [h4, h5, h1]; exact hF, by rw [h6]; exact hs, by rw [h7]; exact hh, by rw [h8]; exact he,
    by rw [h9]; exact hp, by rw [h2]; exact hwp, by rw [h3]; exact hwe, hns⟩

/-- `Write(d)` by `w`. -/
theorem dir_write (C : Crypto) (s : Suite) (hs : s.WF) (hC : C.Laws s.tagLen s.macLen) (w rd : Conn)
    (sent recv sent2 recv2 d : Bytes) (h1 : DirInv C s w rd sent recv) (h2 : DirInv C s rd w sent2 recv2) :
    DirInv C s (write C w d).2 (deliver rd (write C w d).1) (sent ++ d) recv ∧
    DirInv C s (deliver rd (write C w d).1) (write C w d).2 sent2 recv2 := by
  obtain ⟨items, hF, hsent, hh, he, hp, hwp, hwe, hns⟩ := h1
  obtain ⟨items', hF', hab, hoo, hns'⟩ := write_flight C w d (by rw [hwp]; exact hs) (by rw [hwp]; exact hC) hwe rd.inn rd.raw items
    (by rw [hwp]; exact hF)
  rw [hwp] at hF'
  constructor
  · exact ⟨items ++ items', hF', by rw [appBytes_append, hab, hsent]; simp [deliver, List.append_assoc], hh, he, hp,
      by rw [hoo.p]; exact hwp, by rw [hoo.outErr]; exact hwe, noSkip_append _ _ hns hns'⟩
  · exact h2.congr rfl rfl rfl hoo.inn hoo.raw hoo.input hoo.hand hoo.inErr hoo.p

/-- sending a KeyUpdate by `w` (TLS 1.3). -/
theorem dir_keyUpdate (C : Crypto) (s : Suite) (hs : s.WF) (hC : C.Laws s.tagLen s.macLen) (hv : s.vers = v13) (w rd : Conn)
    (sent recv sent2 recv2 : Bytes) (req : Bool) (h1 : DirInv C s w rd sent recv) (h2 : DirInv C s rd w sent2 recv2) :
    DirInv C s (sendKeyUpdate C w req).2 (deliver rd (sendKeyUpdate C w req).1) sent recv ∧
    DirInv C s (deliver rd (sendKeyUpdate C w req).1) (sendKeyUpdate C w req).2 sent2 recv2 := by
  obtain ⟨items, hF, hsent, hh, he, hp, hwp, hwe, hns⟩ := h1
  obtain ⟨hF', hoo⟩ := sendKeyUpdate_flight C w req (by rw [hwp]; exact hs) (by rw [hwp]; exact hC) (by rw [hwp]; exact hv)
    rd.inn rd.raw items (by rw [hwp]; exact hF)
  rw [hwp] at hF'
  constructor
  · exact ⟨items ++ [Item.ku req], hF', by rw [appBytes_append, hsent]; simp [appBytes, deliver], hh, he, hp,
      by rw [hoo.p]; exact hwp, by rw [hoo.outErr]; exact hwe, noSkip_append _ _ hns (by simp [NoSkip])⟩
  · exact h2.congr rfl rfl rfl hoo.inn hoo.raw hoo.input hoo.hand hoo.inErr hoo.p

/-- `Read(buf)` with `len(buf) = n` by `rd`: no error; the bytes returned extend what was received
in this direction; KeyUpdate responses go out in the other direction without disturbing it. -/
theorem dir_read (C : Crypto) (s : Suite) (hs : s.WF) (hC : C.Laws s.tagLen s.macLen) (w rd : Conn)
    (sent recv sent2 recv2 : Bytes) (n : Nat) (h1 : DirInv C s w rd sent recv) (h2 : DirInv C s rd w sent2 recv2) :
    (read C rd n).err = none ∧
    DirInv C s (deliver w (read C rd n).sent) (read C rd n).c sent (recv ++ (read C rd n).data) ∧
    DirInv C s (read C rd n).c (deliver w (read C rd n).sent) sent2 recv2 ∧
    (0 < n → sent ≠ recv → (read C rd n).data ≠ []) := by
  obtain ⟨items, hF, hsent, hh, he, hp, hwp, hwe, hns⟩ := h1
  obtain ⟨ritems, hRF, hrsent, hrh, hre, hrp, hrwp, hrwe, hrns⟩ := h2
  -- the other direction as a property of (rd's outgoing half, records rd emitted while reading)
  let Q : Half → List Bytes → Prop := fun out snt =>
    ∃ it, Flight C s w.inn (w.raw ++ snt.flatten) it out ∧ appBytes it = appBytes ritems ∧ NoSkip it
  have hQ : s.vers = v13 → ∀ out snt, Q out snt → Q (rekey C (encrypt C s out tHs (keyUpdateMsg false)).2)
      (snt ++ [(encrypt C s out tHs (keyUpdateMsg false)).1]) := by
    intro hv out snt ⟨it, hFl, hab, hnsi⟩
    refine ⟨it ++ [.ku false], ?_, by rw [appBytes_append, hab]; simp [appBytes], noSkip_append _ _ hnsi (by simp [NoSkip])⟩
    have := Flight.snoc_ku C s hs hC hv hFl false
    simpa [List.append_assoc] using this
  have hq : Q rd.out [] := ⟨ritems, by simpa using hRF, rfl, hrns⟩
  obtain ⟨herr, rest, hdata, hF', hh', he', hp', hoe', ⟨it, hFl, hab, hnsi⟩, _, ⟨pre, hpre⟩, hprog, _⟩ :=
    read_flight C s hs Q hQ rd n items w.out hF hh he hp hq (okRuns_of_noSkip items hns _)
  refine ⟨herr, ?_, ?_, ?_⟩
  · exact ⟨rest, hF', by rw [hsent, List.append_assoc recv, hdata]; simp [List.append_assoc], hh', he',
      by rw [hp']; exact hp, hwp, hwe, noSkip_suffix pre rest (by rw [← hpre]; exact hns)⟩
  · exact ⟨it, hFl, by rw [hrsent, hab]; rfl, hrh, hre, hrp, by rw [hp']; exact hp, by rw [hoe']; exact hrwe, hnsi⟩
  · intro hn hne
    apply hprog hn
    intro h
    apply hne
    rw [hsent, List.append_assoc, h]; simp

/-- **every operation preserves the invariant.** -/
theorem step_inv (C : Crypto) (s : Suite) (hs : s.WF) (hC : C.Laws s.tagLen s.macLen) (σ : Sys) (op : Op)
    (h : Inv C s σ) : Inv C s (step C σ op) := by
  obtain ⟨hab, hba, hok⟩ := h
  have haoe : σ.a.outErr = none := hab.choose_spec.2.2.2.2.2.2.1
  have hboe : σ.b.outErr = none := hba.choose_spec.2.2.2.2.2.2.1
  have haps : σ.a.p.s = s := hab.choose_spec.2.2.2.2.2.1
  have hbps : σ.b.p.s = s := hba.choose_spec.2.2.2.2.2.1
  cases op with
  | write side d =>
    cases side with
    | A =>
      obtain ⟨h1, h2⟩ := dir_write C s hs hC σ.a σ.b _ _ _ _ d hab hba
      simp only [step, haoe, Option.isSome_none, Bool.false_eq_true, if_false]
      exact ⟨h1, h2, hok⟩
    | B =>
      obtain ⟨h1, h2⟩ := dir_write C s hs hC σ.b σ.a _ _ _ _ d hba hab
      simp only [step, hboe, Option.isSome_none, Bool.false_eq_true, if_false]
      exact ⟨h2, h1, hok⟩
  | read side n =>
    cases side with
    | A =>
      obtain ⟨he, h1, h2, _⟩ := dir_read C s hs hC σ.b σ.a _ _ _ _ n hba hab
      simp only [step]
      exact ⟨h2, h1, by simp [hok, he]⟩
    | B =>
      obtain ⟨he, h1, h2, _⟩ := dir_read C s hs hC σ.a σ.b _ _ _ _ n hab hba
      simp only [step]
      exact ⟨h1, h2, by simp [hok, he]⟩
  | keyUpdate side req =>
    cases side with
    | A =>
      by_cases hv : s.vers = v13
      · obtain ⟨h1, h2⟩ := dir_keyUpdate C s hs hC hv σ.a σ.b _ _ _ _ req hab hba
        have : ¬ (σ.a.outErr.isSome = true ∨ σ.a.p.s.vers ≠ v13) := by rw [haoe, haps]; simp [hv]
        simp only [step, this, if_false]
        exact ⟨h1, h2, hok⟩
      · have : (σ.a.outErr.isSome = true ∨ σ.a.p.s.vers ≠ v13) := Or.inr (by rw [haps]; exact hv)
        simp only [step, this, if_true]
        exact ⟨hab, hba, hok⟩
    | B =>
      by_cases hv : s.vers = v13
      · obtain ⟨h1, h2⟩ := dir_keyUpdate C s hs hC hv σ.b σ.a _ _ _ _ req hba hab
        have : ¬ (σ.b.outErr.isSome = true ∨ σ.b.p.s.vers ≠ v13) := by rw [hboe, hbps]; simp [hv]
        simp only [step, this, if_false]
        exact ⟨h2, h1, hok⟩
      · have : (σ.b.outErr.isSome = true ∨ σ.b.p.s.vers ≠ v13) := Or.inr (by rw [hbps]; exact hv)
        simp only [step, this, if_true]
        exact ⟨hab, hba, hok⟩

theorem run_inv (C : Crypto) (s : Suite) (hs : s.WF) (hC : C.Laws s.tagLen s.macLen) (ops : List Op) :
    ∀ σ : Sys, Inv C s σ → Inv C s (run C σ ops) := by
  induction ops with
  | nil => intro σ h; exact h
  | cons op ops ih => intro σ h; exact ih _ (step_inv C s hs hC σ op h)

/-- a connection right after the handshake, as far as the record layer is concerned. -/
def Fresh (s : Suite) (c : Conn) : Prop :=
  c.raw = [] ∧ c.input = [] ∧ c.hand = [] ∧ c.inErr = none ∧ c.outErr = none ∧ c.p.s = s

theorem inv_init (C : Crypto) (s : Suite) (a b : Conn) (ha : Fresh s a) (hb : Fresh s b)
    (hab : Sync s b.inn a.out) (hba : Sync s a.inn b.out) :
    Inv C s { a := a, b := b } := by
  obtain ⟨ar, ai, ah, aie, aoe, ap⟩ := ha
  obtain ⟨br, bi, bh, bie, boe, bp⟩ := hb
  refine ⟨⟨[], ?_, ?_, bh, bie, bp, ap, aoe, trivial⟩, ⟨[], ?_, ?_, ah, aie, ap, bp, boe, trivial⟩, rfl⟩
  · show Flight C s b.inn b.raw [] a.out; rw [br]; exact Flight.nil hab
  · show ([] : Bytes) = [] ++ b.input ++ appBytes []; rw [bi]; rfl
  · show Flight C s a.inn a.raw [] b.out; rw [ar]; exact Flight.nil hba
  · show ([] : Bytes) = [] ++ a.input ++ appBytes []; rw [ai]; rfl

end Record
