import UtlsVerif.RecordLemmas2
/-!
# RecordLemmas5 — predicted record sizes, sequence-number bookkeeping
-/
namespace Record
open Wire Keystream

/-- the length on the wire (header included) of the record protecting `m` plaintext bytes. -/
def recLen (s : Suite) (m : Nat) : Nat :=
  5 + explicitNonceLen s +
    (match s.kind with
     | .aead _ => m + s.tagLen + (if s.vers = v13 then 1 else 0)
     | .cbc => (m + s.macLen) + (s.blockLen - (m + s.macLen) % s.blockLen)
     | .stream => m + s.macLen)

/-- **predicted size of one record**: it depends only on the suite parameters and the number of
plaintext bytes. -/
theorem encrypt_length (C : Crypto) (s : Suite) (hC : C.Laws s.tagLen s.macLen) (h : Half) (typ : Nat) (d : Bytes) :
    (encrypt C s h typ d).1.length = recLen s d.length := by
  unfold encrypt recLen explicitNonceLen
  cases hk : s.kind with
  | stream =>
    simp only [List.length_append, hdr_length, hC.xor_len, hC.mac_len]; try omega
  | cbc =>
    by_cases hv : s.vers ≥ v11
    · simp only [hv, if_true, List.length_append, hdr_length, hC.cbcEnc_len, hC.mac_len, hC.rand_len, cbcPadding_length]; try omega
    · simp only [hv, if_false, List.length_append, hdr_length, hC.cbcEnc_len, hC.mac_len, cbcPadding_length]; try omega
  | aead w =>
    cases w <;> by_cases hv : s.vers = v13 <;>
      simp only [hv, if_true, if_false, List.length_append, hdr_length, hC.seal_len, seq8_length, List.length_nil,
        List.length_singleton, List.length_cons] <;> try omega

/-- `maxPayloadSizeForWrite` as a function of the three things it reads. -/
def maxPayloadN (p : Params) (bytesSent packetsSent typ : Nat) : Nat × Nat :=
  if !p.dynamic || typ ≠ tApp then (maxPlaintext, packetsSent)
  else if bytesSent ≥ recordSizeBoostThreshold then (maxPlaintext, packetsSent)
  else if packetsSent > 1000 then (maxPlaintext, packetsSent + 1)
  else (min (payloadBytes p.s * (packetsSent + 1)) maxPlaintext, packetsSent + 1)

theorem maxPayload_eq (c : Conn) (typ : Nat) :
    maxPayload c typ = ((maxPayloadN c.p c.bytesSent c.packetsSent typ).1,
      { c with packetsSent := (maxPayloadN c.p c.bytesSent c.packetsSent typ).2 }) := by
  unfold maxPayload maxPayloadN
  by_cases h1 : (!c.p.dynamic || decide (typ ≠ tApp)) = true
  · simp only [h1, if_true]
  · by_cases h2 : c.bytesSent ≥ recordSizeBoostThreshold
    · simp only [h1, h2, if_true]; simp
    · by_cases h3 : c.packetsSent > 1000
      · simp only [h1, h2, h3, if_true]; simp
      · simp only [h1, h2, h3, if_false]; simp

/-- the plaintext fragment sizes `writeRecordLocked` cuts `len` bytes into: a function of the
parameters, `bytesSent` and `packetsSent` only (the dynamic record sizing progression, capped at
2^14, switching to 2^14 after 128 KiB). -/
def fragSizes (p : Params) (typ : Nat) : Nat → Nat → Nat → Nat → List Nat
  | 0, _, _, _ => []
  | f + 1, bytesSent, packetsSent, len =>
    if len = 0 then []
    else
      let mp := maxPayloadN p bytesSent packetsSent typ
      let m := min len mp.1
      m :: fragSizes p typ f (bytesSent + recLen p.s m) mp.2 (len - m)

/-- **predicted sizes of all records of a write**. -/
theorem writeLoop_sizes (C : Crypto) (f : Nat) : ∀ (c : Conn) (typ : Nat) (data : Bytes), C.Laws c.p.s.tagLen c.p.s.macLen →
    (writeLoop C f c typ data).1.map List.length =
      (fragSizes c.p typ f c.bytesSent c.packetsSent data.length).map (recLen c.p.s) := by
  induction f with
  | zero => intro c typ data _; rfl
  | succ f ih =>
    intro c typ data hC
    by_cases hd : data = []
    · subst hd; simp [writeLoop, fragSizes]
    · have hl : data.length ≠ 0 := by intro h; exact hd (List.eq_nil_of_length_eq_zero h)
      simp only [writeLoop, hd, if_false, fragSizes, hl, maxPayload_eq, List.map_cons]
      have hel := encrypt_length C c.p.s hC c.out typ (data.take (min data.length (maxPayloadN c.p c.bytesSent c.packetsSent typ).1))
      have htl : (data.take (min data.length (maxPayloadN c.p c.bytesSent c.packetsSent typ).1)).length =
          min data.length (maxPayloadN c.p c.bytesSent c.packetsSent typ).1 := by
        rw [List.length_take]; exact Nat.min_eq_left (Nat.min_le_left _ _)
      rw [htl] at hel
      rw [hel, ih _ typ _ (by exact hC)]
      simp [List.length_drop]

/-- every fragment is at least one byte and at most 2^14 bytes. -/
theorem fragSizes_bounds (p : Params) (hs : p.s.WF) (typ : Nat) (f bs ps len : Nat) :
    ∀ m ∈ fragSizes p typ f bs ps len, 1 ≤ m ∧ m ≤ maxPlaintext := by
  induction f generalizing bs ps len with
  | zero => intro m hm; simp [fragSizes] at hm
  | succ f ih =>
    intro m hm
    by_cases hl : len = 0
    · simp [fragSizes, hl] at hm
    · simp only [fragSizes, hl, if_false, List.mem_cons] at hm
      have hmp := maxPayload_spec { p := p, inn := {}, out := {}, bytesSent := bs, packetsSent := ps } typ hs
      rw [maxPayload_eq] at hmp
      rcases hm with rfl | hm
      · exact ⟨Nat.le_min.mpr ⟨Nat.pos_of_ne_zero hl, hmp.1⟩, Nat.le_trans (Nat.min_le_right _ _) hmp.2.1⟩
      · exact ih _ _ _ m hm

/-! ### sequence numbers -/

/-- every record advances the sequence number by exactly one and never changes the epoch. -/
theorem encrypt_seq (C : Crypto) (s : Suite) (h : Half) (typ : Nat) (d : Bytes) :
    (encrypt C s h typ d).2.seq = h.seq + 1 ∧ (encrypt C s h typ d).2.epoch = h.epoch ∧
    (encrypt C s h typ d).2.key = h.key ∧ (encrypt C s h typ d).2.secret = h.secret := by
  unfold encrypt
  cases s.kind with
  | stream => exact ⟨rfl, rfl, rfl, rfl⟩
  | cbc => by_cases hv : s.vers ≥ v11 <;> simp [hv]
  | aead w => by_cases hv : s.vers = v13 <;> simp [hv]

/-- a key change restarts the sequence at zero in a new epoch. -/
theorem rekey_seq (C : Crypto) (h : Half) : (rekey C h).seq = 0 ∧ (rekey C h).epoch = h.epoch + 1 := ⟨rfl, rfl⟩

end Record
