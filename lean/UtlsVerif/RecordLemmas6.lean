import UtlsVerif.RecordLemmas2
/-!
# RecordLemmas6 — tampering: what `readRecord` hands to `decrypt`, and authenticity
-/
namespace Record
open Wire Keystream

/-- a byte string that `readRecord` can have cut off the wire: five header bytes whose length field
is the length of what follows. -/
def Framed (rec : Bytes) : Prop :=
  ∃ t va vb la lb body, rec = t :: va :: vb :: la :: lb :: body ∧ body.length = la.toNat * 256 + lb.toNat

theorem failAlert_ne_next (C : Crypto) (c : Conn) (a : Nat) (c' : Conn) (s : List Bytes) : failAlert C c a ≠ .next c' s := by
  unfold failAlert; intro h; cases h

theorem failWith_ne_next (e : Err) (c : Conn) (s0 : List Bytes) (c' : Conn) (s : List Bytes) : failWith e c s0 ≠ .next c' s := by
  unfold failWith; intro h; cases h

/-- **inversion of `readRecord`**: a record is consumed successfully only if the bytes cut off the
wire according to their own length field decrypt successfully and pass `afterDecrypt`. -/
theorem readRecord_next_inv (C : Crypto) (c c' : Conn) (sent : List Bytes) (h : readRecord C c = .next c' sent) :
    ∃ n d typ r'', Framed (c.raw.take (5 + n)) ∧ n ≤ (c.raw.drop 5).length ∧
      decrypt C c.p.s c.inn (c.raw.take (5 + n)) = .ok (d, typ, r'') ∧
      afterDecrypt C { c with raw := c.raw.drop (5 + n) } d typ r'' = .next c' sent := by
  unfold readRecord at h
  cases hie : c.inErr with
  | some e => rw [hie] at h; cases h
  | none =>
    rw [hie] at h
    simp only at h
    rcases hr : c.raw with _ | ⟨t, _ | ⟨va, _ | ⟨vb, _ | ⟨la, _ | ⟨lb, rest⟩⟩⟩⟩⟩
    all_goals rw [hr] at h
    all_goals simp only [parseHeader] at h
    all_goals try (cases h)
    -- the only remaining case: at least five bytes
    by_cases h1 : va.toNat * 256 + vb.toNat ≠ wireVers c.p.s.vers
    · rw [if_pos h1] at h; exact absurd h (failWith_ne_next _ _ _ _ _)
    · rw [if_neg h1] at h
      by_cases h2 : (c.p.s.vers = v13 ∧ la.toNat * 256 + lb.toNat > maxCiphertextTLS13) ∨ la.toNat * 256 + lb.toNat > maxCiphertext
      · rw [if_pos h2] at h; exact absurd h (failWith_ne_next _ _ _ _ _)
      · rw [if_neg h2] at h
        by_cases h3 : rest.length < la.toNat * 256 + lb.toNat
        · rw [if_pos h3] at h; cases h
        · rw [if_neg h3] at h
          cases hd : decrypt C c.p.s c.inn ((t :: va :: vb :: la :: lb :: rest).take (5 + (la.toNat * 256 + lb.toNat))) with
          | error a => rw [hd] at h; exact absurd h (failAlert_ne_next _ _ _ _ _)
          | ok v =>
            obtain ⟨d, typ, r''⟩ := v
            rw [hd] at h
            refine ⟨la.toNat * 256 + lb.toNat, d, typ, r'', ?_, ?_, hd, h⟩
            · refine ⟨t, va, vb, la, lb, rest.take (la.toNat * 256 + lb.toNat), ?_, ?_⟩
              · rw [Nat.add_comm]; rfl
              · rw [List.length_take]; omega
            · show la.toNat * 256 + lb.toNat ≤ rest.length
              omega

/-- a TLS 1.3 record with outer type change_cipher_spec is passed through `decrypt` undecrypted; after
the handshake `afterDecrypt` always refuses it. -/
theorem afterDecrypt_ccs_fails (C : Crypto) (c : Conn) (d : Bytes) (r' : Half) (c' : Conn) (sent : List Bytes) :
    afterDecrypt C c d tCCS r' ≠ .next c' sent := by
  have hdisp : ∀ c3 : Conn, dispatch C c3 tCCS d ≠ .next c' sent := by
    intro c3
    unfold dispatch
    rw [if_neg (by decide), if_pos rfl]
    by_cases h : d ≠ [1]
    · rw [if_pos h]; exact failAlert_ne_next _ _ _ _ _
    · rw [if_neg h]; exact failAlert_ne_next _ _ _ _ _
  unfold afterDecrypt
  simp only
  repeat' split
  all_goals first | exact failAlert_ne_next _ _ _ _ _ | exact hdisp _

/-! ### AEAD -/

/-- what `decrypt` feeds to the inner AEAD for a received record: (nonce argument, additional data,
ciphertext), all computed from the received bytes and the reader's own sequence number. -/
def aeadView (s : Suite) (r : Half) (rec : Bytes) : Bytes × Bytes × Bytes :=
  let payload := rec.drop 5
  let enl := explicitNonceLen s
  let n8 := if enl = 0 then seq8 r.seq else payload.take enl
  let ct := payload.drop enl
  let ad := if s.vers = v13 then rec.take 5 else seq8 r.seq ++ rec.take 3 ++ u16 (ct.length + 65536 - s.tagLen)
  (n8, ad, ct)

/-- acceptance by `decrypt` on an AEAD cipher means the inner `Open` succeeded on the view. -/
theorem decrypt_aead_ok (C : Crypto) (s : Suite) (wr : Wrapper) (hk : s.kind = .aead wr) (r : Half) (rec' : Bytes)
    (d' : Bytes) (typ' : Nat) (r'' : Half) (hok : decrypt C s r rec' = .ok (d', typ', r''))
    (hccs : ¬ (s.vers = v13 ∧ (rec'.headD 0).toNat = tCCS)) :
    explicitNonceLen s ≤ (rec'.drop 5).length ∧
    ∃ pt, C.aopen r.key (nonceFor wr r.iv (aeadView s r rec').1) (aeadView s r rec').2.1 (aeadView s r rec').2.2 = some pt := by
  unfold decrypt at hok
  rw [if_neg hccs] at hok
  simp only [hk] at hok
  by_cases hl : (rec'.drop 5).length < explicitNonceLen s
  · rw [if_pos hl] at hok; cases hok
  · rw [if_neg hl] at hok
    refine ⟨Nat.le_of_not_lt hl, ?_⟩
    cases ho : C.aopen r.key (nonceFor wr r.iv (aeadView s r rec').1) (aeadView s r rec').2.1 (aeadView s r rec').2.2 with
    | some pt => exact ⟨pt, rfl⟩
    | none =>
      exfalso
      simp only [aeadView] at ho
      rw [ho] at hok
      cases hok

theorem u8_pair_inj (la lb la' lb' : UInt8) (h : la.toNat * 256 + lb.toNat = la'.toNat * 256 + lb'.toNat) :
    la = la' ∧ lb = lb' := by
  have h1 := la.toNat_lt; have h2 := lb.toNat_lt; have h3 := la'.toNat_lt; have h4 := lb'.toNat_lt
  constructor
  · apply UInt8.toNat_inj.mp; omega
  · apply UInt8.toNat_inj.mp; omega

/-- two framed byte strings with the same first three bytes and the same body are equal (the length
field is determined by the body). -/
theorem framed_eq (rec rec' : Bytes) (h : Framed rec) (h' : Framed rec') (h3 : rec'.take 3 = rec.take 3)
    (hb : rec'.drop 5 = rec.drop 5) : rec' = rec := by
  obtain ⟨t, va, vb, la, lb, body, hr, hl⟩ := h
  obtain ⟨t', va', vb', la', lb', body', hr', hl'⟩ := h'
  subst hr hr'
  simp only [List.take_succ_cons, List.take_zero, List.cons.injEq, and_true] at h3
  have hbody : body' = body := hb
  subst hbody
  obtain ⟨e1, e2⟩ := u8_pair_inj la' lb' la lb (by rw [← hl', ← hl])
  obtain ⟨e3, e4, e5⟩ := h3
  subst e1 e2 e3 e4 e5
  rfl

/-- **AEAD authenticity ⇒ only the genuine record is accepted.** `hAuth` is ciphertext integrity
specialised by the lockstep of sequence numbers: under the reader's key, whatever `Open` accepts
with the nonce and additional data the reader derives from *its own* sequence number and the
received bytes is the (nonce, additional data, ciphertext) of the record the writer produced for
that sequence number. -/
theorem aead_only_genuine (C : Crypto) (s : Suite) (wr : Wrapper) (hk : s.kind = .aead wr) (r : Half)
    (rec rec' : Bytes) (hf : Framed rec) (hf' : Framed rec')
    (d' : Bytes) (typ' : Nat) (r'' : Half) (hok : decrypt C s r rec' = .ok (d', typ', r''))
    (hccs : ¬ (s.vers = v13 ∧ (rec'.headD 0).toNat = tCCS))
    (hAuth : ∀ pt, C.aopen r.key (nonceFor wr r.iv (aeadView s r rec').1) (aeadView s r rec').2.1 (aeadView s r rec').2.2 = some pt →
      aeadView s r rec' = aeadView s r rec) :
    rec' = rec := by
  obtain ⟨henl', pt, hopen⟩ := decrypt_aead_ok C s wr hk r rec' d' typ' r'' hok hccs
  have hview := hAuth pt hopen
  simp only [aeadView, Prod.mk.injEq] at hview
  obtain ⟨hn8, had, hct⟩ := hview
  have hpayload : rec'.drop 5 = rec.drop 5 := by
    by_cases he : explicitNonceLen s = 0
    · simpa [he] using hct
    · simp only [he, if_false] at hn8
      rw [← List.take_append_drop (explicitNonceLen s) (rec'.drop 5), ← List.take_append_drop (explicitNonceLen s) (rec.drop 5), hn8, hct]
  by_cases hv : s.vers = v13
  · simp only [hv, if_true] at had
    rw [← List.take_append_drop 5 rec', ← List.take_append_drop 5 rec, had, hpayload]
  · simp only [hv, if_false] at had
    apply framed_eq rec rec' hf hf' ?_ hpayload
    have h3 : (rec'.take 3).length = (rec.take 3).length := by
      obtain ⟨_, _, _, _, _, _, hr, _⟩ := hf
      obtain ⟨_, _, _, _, _, _, hr', _⟩ := hf'
      rw [hr, hr']; simp
    rw [List.append_assoc, List.append_assoc] at had
    have := List.append_cancel_left had
    exact (List.append_inj this h3).1

/-! ### MAC-then-encrypt (CBC, RC4) -/

theorem checkMac_ok_inv (C : Crypto) (s : Suite) (r : Half) (rec' pl : Bytes) (padLen : Nat) (good : Bool) (d' : Bytes)
    (h : checkMac C s r rec' pl padLen good = .ok d') :
    s.macLen ≤ pl.length ∧ good = true ∧ d' = pl.take (pl.length - s.macLen - padLen) ∧
    C.mac r.macKey (seq8 r.seq ++ rec'.take 3 ++ u16 (pl.length - s.macLen - padLen) ++ pl.take (pl.length - s.macLen - padLen)) =
      (pl.drop (pl.length - s.macLen - padLen)).take s.macLen := by
  unfold checkMac at h
  by_cases hl : pl.length < s.macLen
  · rw [if_pos hl] at h; cases h
  · rw [if_neg hl] at h
    simp only at h
    split at h
    · rename_i hc
      cases h
      exact ⟨Nat.le_of_not_lt hl, hc.2, rfl, hc.1⟩
    · cases h

/-- the decrypted payload and padding length `decrypt` hands to `checkMac` for a received record
(stream: XOR at the current offset, no padding; CBC: `cbcDec` under the explicit or chained IV). -/
def mtePlain (C : Crypto) (s : Suite) (r : Half) (rec' : Bytes) : Bytes × Nat × Bool :=
  match s.kind with
  | .stream => (C.xorStream r.key r.soff (rec'.drop 5), 0, true)
  | _ =>
    let enl := explicitNonceLen s
    let iv := if enl > 0 then (rec'.drop 5).take enl else r.iv
    let pl := C.cbcDec r.key iv ((rec'.drop 5).drop enl)
    (pl, (extractPadding pl).1, (extractPadding pl).2)

theorem decrypt_mte_ok (C : Crypto) (s : Suite) (hs : s.WF) (hk : s.kind = .cbc ∨ s.kind = .stream) (r : Half) (rec' : Bytes)
    (d' : Bytes) (typ' : Nat) (r'' : Half) (hok : decrypt C s r rec' = .ok (d', typ', r'')) :
    typ' = (rec'.headD 0).toNat ∧
    checkMac C s r rec' (mtePlain C s r rec').1 (mtePlain C s r rec').2.1 (mtePlain C s r rec').2.2 = .ok d' := by
  have hv : s.vers ≠ v13 := not_v13_of_kind s hs (by rcases hk with h | h <;> rw [h] <;> simp)
  unfold decrypt at hok
  rw [if_neg (by intro h; exact hv h.1)] at hok
  rcases hk with hk | hk
  · simp only [hk] at hok
    split at hok
    · cases hok
    · cases hc : checkMac C s r rec' (mtePlain C s r rec').1 (mtePlain C s r rec').2.1 (mtePlain C s r rec').2.2 with
      | error a =>
        exfalso
        simp only [mtePlain, hk] at hc
        rw [hc] at hok; cases hok
      | ok pt =>
        have hc' := hc
        simp only [mtePlain, hk] at hc'
        rw [hc'] at hok
        cases hok
        exact ⟨rfl, rfl⟩
  · simp only [hk] at hok
    cases hc : checkMac C s r rec' (mtePlain C s r rec').1 (mtePlain C s r rec').2.1 (mtePlain C s r rec').2.2 with
    | error a =>
      exfalso
      simp only [mtePlain, hk] at hc
      rw [hc] at hok; cases hok
    | ok pt =>
      have hc' := hc
      simp only [mtePlain, hk] at hc'
      rw [hc'] at hok
      cases hok
      exact ⟨rfl, rfl⟩

/-- **MAC authenticity ⇒ never altered plaintext.** For CBC and RC4 suites: if `decrypt` accepts
*any* framed byte string `rec'` in place of the genuine record, the content type and plaintext it
returns are the genuine ones. `hMac` is MAC unforgeability specialised by the lockstep of sequence
numbers and instantiated at the received bytes: if the MAC of the message the reader assembles
(its own sequence number, the received header, the decrypted data) equals the received tag, that
message is the one the writer MAC'ed for this sequence number. -/
theorem mte_accept_genuine (C : Crypto) (s : Suite) (hs : s.WF) (hk : s.kind = .cbc ∨ s.kind = .stream) (r w : Half)
    (hsy : Sync s r w) (typ : Nat) (ht : typ < 256) (d : Bytes) (rec' : Bytes) (hf' : Framed rec')
    (d' : Bytes) (typ' : Nat) (r'' : Half) (hok : decrypt C s r rec' = .ok (d', typ', r''))
    (hMac : ∀ m t, C.mac r.macKey m = t →
      m = seq8 r.seq ++ rec'.take 3 ++
        u16 ((mtePlain C s r rec').1.length - s.macLen - (mtePlain C s r rec').2.1) ++
        (mtePlain C s r rec').1.take ((mtePlain C s r rec').1.length - s.macLen - (mtePlain C s r rec').2.1) →
      t = ((mtePlain C s r rec').1.drop ((mtePlain C s r rec').1.length - s.macLen - (mtePlain C s r rec').2.1)).take s.macLen →
      m = seq8 w.seq ++ hdr typ (wireVers s.vers) d.length ++ d) :
    d' = d ∧ typ' = typ ∧ rec'.take 3 = b typ :: u16 (wireVers s.vers) := by
  obtain ⟨htyp, hcm⟩ := decrypt_mte_ok C s hs hk r rec' d' typ' r'' hok
  obtain ⟨_, _, hd', hmac⟩ := checkMac_ok_inv C s r rec' _ _ _ d' hcm
  have hm := hMac _ _ hmac rfl rfl
  obtain ⟨_, _, _, hseq, _⟩ := hsy
  rw [hseq, hdr_split] at hm
  have h3 : (rec'.take 3).length = 3 := by
    obtain ⟨_, _, _, _, _, _, hr, _⟩ := hf'
    rw [hr]; rfl
  simp only [List.append_assoc] at hm
  have hm1 := List.append_cancel_left hm
  have hm2 := List.append_inj hm1 (by rw [h3]; simp)
  have hm3 := List.append_inj hm2.2 (by simp)
  refine ⟨by rw [hd']; exact hm3.2, ?_, hm2.1⟩
  rw [htyp]
  obtain ⟨t0, _, _, _, _, _, hr, _⟩ := hf'
  have : rec'.take 3 = b typ :: u16 (wireVers s.vers) := hm2.1
  rw [hr] at this ⊢
  simp only [List.take_succ_cons, List.take_zero, u16, List.cons.injEq] at this
  show t0.toNat = typ
  rw [this.1, b_toNat_of_lt typ ht]

/-- what `encrypt` produces is framed. -/
theorem encrypt_framed (C : Crypto) (s : Suite) (hs : s.WF) (hC : C.Laws s.tagLen s.macLen) (r w : Half) (hsy : Sync s r w)
    (typ : Nat) (ht0 : 0 < typ) (ht : typ < 256) (hta : typ ≠ tAlert) (d : Bytes) (hd : d.length ≤ maxPlaintext) :
    Framed (encrypt C s w typ d).1 := by
  obtain ⟨r', hg, _⟩ := genuine_encrypt C s hs hC r w hsy typ ht0 ht hta d hd
  obtain ⟨t, body, hrec, hlim, _, _⟩ := hg.framed
  have hn : body.length < 65536 := Nat.lt_of_le_of_lt hlim (by unfold lenLimit; by_cases h : s.vers = v13 <;> simp [h] <;> decide)
  rw [hrec]
  exact ⟨b t, b (wireVers s.vers / 256), b (wireVers s.vers), b (body.length / 256), b body.length, body, rfl,
    (u16_pair_toNat _ hn).symm⟩

/-- **RC4 suites: only the genuine record is accepted** (under MAC authenticity; the stream cipher
is an involution, so equal plaintexts mean equal ciphertexts). -/
theorem stream_only_genuine (C : Crypto) (s : Suite) (hs : s.WF) (hC : C.Laws s.tagLen s.macLen) (hk : s.kind = .stream)
    (r w : Half) (hsy : Sync s r w) (typ : Nat) (ht0 : 0 < typ) (ht : typ < 256) (hta : typ ≠ tAlert) (d : Bytes)
    (hd : d.length ≤ maxPlaintext) (rec' : Bytes) (hf' : Framed rec')
    (d' : Bytes) (typ' : Nat) (r'' : Half) (hok : decrypt C s r rec' = .ok (d', typ', r''))
    (hMac : ∀ m t, C.mac r.macKey m = t →
      m = seq8 r.seq ++ rec'.take 3 ++
        u16 ((mtePlain C s r rec').1.length - s.macLen - (mtePlain C s r rec').2.1) ++
        (mtePlain C s r rec').1.take ((mtePlain C s r rec').1.length - s.macLen - (mtePlain C s r rec').2.1) →
      t = ((mtePlain C s r rec').1.drop ((mtePlain C s r rec').1.length - s.macLen - (mtePlain C s r rec').2.1)).take s.macLen →
      m = seq8 w.seq ++ hdr typ (wireVers s.vers) d.length ++ d) :
    rec' = (encrypt C s w typ d).1 := by
  obtain ⟨hdd, _, h3⟩ := mte_accept_genuine C s hs (Or.inr hk) r w hsy typ ht d rec' hf' d' typ' r'' hok hMac
  obtain ⟨_, hcm⟩ := decrypt_mte_ok C s hs (Or.inr hk) r rec' d' typ' r'' hok
  obtain ⟨hle, _, hd', hmac⟩ := checkMac_ok_inv C s r rec' _ _ _ d' hcm
  have hm := hMac _ _ hmac rfl rfl
  obtain ⟨hkey, hmk, _, hseq, hsoff, _⟩ := hsy
  have hpl : (mtePlain C s r rec') = (C.xorStream r.key r.soff (rec'.drop 5), 0, true) := by simp [mtePlain, hk]
  rw [hpl] at hle hd' hmac hm
  simp only [Nat.sub_zero] at hle hd' hmac hm
  generalize hplv : C.xorStream r.key r.soff (rec'.drop 5) = pl at hle hd' hmac hm
  -- the decrypted payload is data ‖ MAC
  have hmacg : C.mac w.macKey (seq8 w.seq ++ hdr typ (wireVers s.vers) d.length ++ d) = (pl.drop (pl.length - s.macLen)).take s.macLen := by
    rw [← hmk, ← hm]; exact hmac
  have hdroplen : (pl.drop (pl.length - s.macLen)).length = s.macLen := by rw [List.length_drop]; omega
  have hplsplit : pl = d ++ C.mac w.macKey (seq8 w.seq ++ hdr typ (wireVers s.vers) d.length ++ d) := by
    rw [hmacg, List.take_of_length_le (Nat.le_of_eq hdroplen), ← hdd, hd', List.take_append_drop]
  -- hence the ciphertext is the genuine one
  have hbody : rec'.drop 5 = C.xorStream w.key w.soff (d ++ C.mac w.macKey (seq8 w.seq ++ hdr typ (wireVers s.vers) d.length ++ d)) := by
    rw [← hplsplit, ← hplv, hkey, hsoff, hC.xor_invol]
  have hf := encrypt_framed C s hs hC r w ⟨hkey, hmk, by assumption, hseq, hsoff, by assumption⟩ typ ht0 ht hta d hd
  apply framed_eq _ _ hf hf'
  · rw [h3]; simp only [encrypt, hk]; rfl
  · rw [hbody]; simp only [encrypt, hk]; rfl

/-- **CBC suites: only the genuine record is accepted** — under MAC authenticity *and* the
hypothesis `hCbc` that the received (IV, ciphertext) decrypts to the genuine data ‖ MAC followed by
some padding only if it is the genuine (IV, ciphertext). The second hypothesis is a property of
the block cipher (no second pre-image of a chosen padded plaintext without the key), not of the
record layer. -/
theorem cbc_only_genuine (C : Crypto) (s : Suite) (hs : s.WF) (hC : C.Laws s.tagLen s.macLen) (hk : s.kind = .cbc)
    (r w : Half) (hsy : Sync s r w) (typ : Nat) (ht0 : 0 < typ) (ht : typ < 256) (hta : typ ≠ tAlert) (d : Bytes)
    (hd : d.length ≤ maxPlaintext) (rec' : Bytes) (hf' : Framed rec')
    (d' : Bytes) (typ' : Nat) (r'' : Half) (hok : decrypt C s r rec' = .ok (d', typ', r''))
    (hMac : ∀ m t, C.mac r.macKey m = t →
      m = seq8 r.seq ++ rec'.take 3 ++
        u16 ((mtePlain C s r rec').1.length - s.macLen - (mtePlain C s r rec').2.1) ++
        (mtePlain C s r rec').1.take ((mtePlain C s r rec').1.length - s.macLen - (mtePlain C s r rec').2.1) →
      t = ((mtePlain C s r rec').1.drop ((mtePlain C s r rec').1.length - s.macLen - (mtePlain C s r rec').2.1)).take s.macLen →
      m = seq8 w.seq ++ hdr typ (wireVers s.vers) d.length ++ d)
    (hCbc : ∀ pad, (mtePlain C s r rec').1 = d ++ C.mac w.macKey (seq8 w.seq ++ hdr typ (wireVers s.vers) d.length ++ d) ++ pad →
      rec'.drop 5 = (encrypt C s w typ d).1.drop 5) :
    rec' = (encrypt C s w typ d).1 := by
  obtain ⟨hdd, _, h3⟩ := mte_accept_genuine C s hs (Or.inl hk) r w hsy typ ht d rec' hf' d' typ' r'' hok hMac
  obtain ⟨_, hcm⟩ := decrypt_mte_ok C s hs (Or.inl hk) r rec' d' typ' r'' hok
  obtain ⟨hle, _, hd', hmac⟩ := checkMac_ok_inv C s r rec' _ _ _ d' hcm
  have hm := hMac _ _ hmac rfl rfl
  have hmk : r.macKey = w.macKey := hsy.2.1
  generalize hplv : (mtePlain C s r rec').1 = pl at hle hd' hmac hm hCbc
  generalize hpadv : (mtePlain C s r rec').2.1 = padLen at hd' hmac hm
  have hmacg : C.mac w.macKey (seq8 w.seq ++ hdr typ (wireVers s.vers) d.length ++ d) =
      (pl.drop (pl.length - s.macLen - padLen)).take s.macLen := by
    rw [← hmk, ← hm]; exact hmac
  have hsplit : pl = d ++ C.mac w.macKey (seq8 w.seq ++ hdr typ (wireVers s.vers) d.length ++ d) ++
      (pl.drop (pl.length - s.macLen - padLen)).drop s.macLen := by
    rw [hmacg, List.append_assoc, List.take_append_drop, ← hdd, hd', List.take_append_drop]
  have hbody := hCbc _ hsplit
  have hf := encrypt_framed C s hs hC r w hsy typ ht0 ht hta d hd
  apply framed_eq _ _ hf hf' ?_ hbody
  rw [h3]
  obtain ⟨r', hg, _⟩ := genuine_encrypt C s hs hC r w hsy typ ht0 ht hta d hd
  obtain ⟨t, body, hrec, _⟩ := hg.framed
  -- the genuine record's outer type is `typ` (TLS ≤ 1.2) and its version field the wire version
  have hv : s.vers ≠ v13 := not_v13_of_kind s hs (by rw [hk]; simp)
  by_cases hv11 : s.vers ≥ v11
  · simp only [encrypt, hk, hv11, if_true]; rfl
  · simp only [encrypt, hk, hv11, if_false]; rfl

end Record
