import UtlsVerif.Record
/-!
# RecordSys — two connected endpoints and arbitrary interleavings of their operations

`Sys` is a client/server pair after the handshake; the network is the receiver's `raw` buffer
(reliable, in order). `Op` are the calls either side can make in any order: `Write`, `Read` with any
buffer size, and (TLS 1.3) sending a KeyUpdate with or without `update_requested`. Ghost fields
record what was written and what `Read` returned in each direction. Core Lean only.
-/
namespace Record
open Wire Keystream

inductive Side where
  | A | B
  deriving DecidableEq, Repr

inductive Op where
  | write (s : Side) (d : Bytes)
  | read (s : Side) (n : Nat)
  | keyUpdate (s : Side) (req : Bool)
  deriving Repr

structure Sys where
  a : Conn
  b : Conn
  /-- bytes A has written / B has read of them -/
  sentAB : Bytes := []
  recvAB : Bytes := []
  sentBA : Bytes := []
  recvBA : Bytes := []
  /-- no `Read` has returned an error so far -/
  ok : Bool := true

/-- the peer receives the records (appended to its unread bytes). -/
def deliver (c : Conn) (rs : List Bytes) : Conn := { c with raw := c.raw ++ rs.flatten }

/-- one operation. A `Write` (or KeyUpdate) on an endpoint with a pending write error does nothing
(the call returns that error); a KeyUpdate exists only in TLS 1.3. -/
def step (C : Crypto) (σ : Sys) : Op → Sys
  | .write .A d =>
    if σ.a.outErr.isSome then σ
    else
      let r := write C σ.a d
      { σ with a := r.2, b := deliver σ.b r.1, sentAB := σ.sentAB ++ d }
  | .write .B d =>
    if σ.b.outErr.isSome then σ
    else
      let r := write C σ.b d
      { σ with b := r.2, a := deliver σ.a r.1, sentBA := σ.sentBA ++ d }
  | .read .A n =>
    let r := read C σ.a n
    { σ with a := r.c, b := deliver σ.b r.sent, recvBA := σ.recvBA ++ r.data, ok := σ.ok && r.err.isNone }
  | .read .B n =>
    let r := read C σ.b n
    { σ with b := r.c, a := deliver σ.a r.sent, recvAB := σ.recvAB ++ r.data, ok := σ.ok && r.err.isNone }
  | .keyUpdate .A req =>
    if σ.a.outErr.isSome ∨ σ.a.p.s.vers ≠ v13 then σ
    else
      let r := sendKeyUpdate C σ.a req
      { σ with a := r.2, b := deliver σ.b r.1 }
  | .keyUpdate .B req =>
    if σ.b.outErr.isSome ∨ σ.b.p.s.vers ≠ v13 then σ
    else
      let r := sendKeyUpdate C σ.b req
      { σ with b := r.2, a := deliver σ.a r.1 }

def run (C : Crypto) (σ : Sys) (ops : List Op) : Sys := ops.foldl (step C) σ

end Record
