import UtlsVerif.Record
/-!
# RecordToy — a concrete `Record.Crypto` with the same *sizes* as the real primitives

Used (a) by the driver to run `Record.write` / `Record.read` at the level of record sizes and error
classes (lengths and layout do not depend on which permutation the cipher is), and (b) by the
property files as a concrete instance of `Crypto.Laws` (non-vacuity).

* AEAD: `plaintext ++ tag`, the 16-byte tag is a checksum of (nonce, ad, plaintext): any change of
  one byte, and any change of length, changes it;
* MAC: the same checksum, cut/padded to the MAC size;
* CBC: XOR of the IV into the first block (so the plaintext depends on the IV), an involution;
* RC4: identity.
-/
namespace RecordToy
open Wire Keystream Record

def sum8 (x : Bytes) : UInt8 := x.foldl (· + ·) 0
def xor8 (x : Bytes) : UInt8 := x.foldl (· ^^^ ·) 0

/-- 16 checksum bytes of a list of byte strings. -/
def digest (k : Bytes) (parts : List Bytes) : Bytes :=
  let p0 := parts.getD 0 []
  let p1 := parts.getD 1 []
  let p2 := parts.getD 2 []
  [sum8 p2, xor8 p2, b p2.length, b (p2.length / 256), sum8 p1, xor8 p1, b p1.length,
   sum8 p0, xor8 p0, b p0.length, sum8 k, 0xa5, 0x5a, 0xc3, 0x3c, 0x96]

theorem digest_length (k : Bytes) (parts : List Bytes) : (digest k parts).length = 16 := rfl

def tseal (k n ad p : Bytes) : Bytes := p ++ digest k [n, ad, p]

def topen (k n ad c : Bytes) : Option Bytes :=
  if c.length < 16 then none
  else
    let p := c.take (c.length - 16)
    if c.drop (c.length - 16) = digest k [n, ad, p] then some p else none

/-- MAC of `macLen` bytes: the digest followed by a fixed pattern. -/
def tmac (macLen : Nat) (k m : Bytes) : Bytes :=
  (digest k [[], [], m] ++ List.replicate macLen 0x77).take macLen

def tcbc (_k iv p : Bytes) : Bytes := xorInto p iv

def crypto (macLen : Nat) : Crypto where
  aseal := tseal
  aopen := topen
  mac := tmac macLen
  cbcEnc := tcbc
  cbcDec := tcbc
  xorStream := fun _ _ p => p
  rand := fun i n => List.replicate n (b (i + 1))
  nextSecret := fun s => s ++ [1]
  keyOf := fun s => 0x6b :: s
  ivOf := fun s => (0x69 :: s ++ List.replicate 12 0).take 12

end RecordToy
