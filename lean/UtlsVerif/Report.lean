import UtlsVerif.NegotiateComplete
import UtlsVerif.Sni
/-!
# Report — what the two ends of a completed handshake report, and when they export keying material

Model of the observable end state of a handshake (C11):

* `reportClient` — the client's `ConnectionState` as a function of the state `clientStep` accepted
  (`connectionStateLocked` reads `c.vers`, `c.cipherSuite`, `c.curveID`, `c.clientProtocol`,
  `c.didResume`, `c.didHRR`, `c.echAccepted`, `c.serverName`);
* `reportServer` — the server's `ConnectionState` as a function of what the server selected and sent
  (the response) and of the ClientHello it received (the SNI on the wire, or the inner name under ECH);
* the server name: `sentName` = what the spec's `SNIExtension` puts on the wire (`hostnameInSNI` of its
  name, the Config name when it has none, the ECH public name under ECH; nothing without the extension
  or for an IP literal), `clientName` = `c.serverName` after the D07 repairs (`ApplyConfig` clears
  `Hello.ServerName`, the extension's `writeToUConn` sets it to what it sends; the inner hello's name once
  ECH is accepted);
* exported keying material: the exporter closure `c.ekm` is an **uninterpreted** function `F` of
  (secret, transcript, label, context, length); `ExportKeyingMaterial` wraps it in the availability
  policy of `connectionStateLocked` / `ekmFromMasterSecret`: refused when `Config.Renegotiation` is not
  `RenegotiateNever`; refused below TLS 1.3 without extended master secret; below TLS 1.3 the four
  reserved labels and contexts of 2^16 bytes or more are errors.
Core Lean only.
-/
namespace Report
open Wire Negotiate

structure Conn where
  version : Nat
  suite : Nat
  curve : Nat
  alpn : Bytes
  didResume : Bool
  didHRR : Bool
  echAccepted : Bool
  serverName : Bytes
  deriving DecidableEq, Repr

/-- the client's `ConnectionState` (+ the unexported curve / HRR fields). -/
def reportClient (st : State) (echAccepted : Bool) (name : Bytes) : Conn :=
  { version := st.version, suite := st.suite, curve := st.group, alpn := st.alpn, didResume := st.resumed,
    didHRR := st.didHRR, echAccepted := echAccepted, serverName := name }

/-- the server's `ConnectionState`: its own selections, as sent. -/
def reportServer (impl : Impl) (o : Offer) (ctx : ClientCtx) (r : Response) (echAccepted : Bool) (name : Bytes) : Conn :=
  if peerVersion r.hello1 == tls13 then
    let sh := finalHello impl r
    { version := tls13, suite := sh.suite, curve := sh.shareGroup, alpn := r.eeAlpn, didResume := sh.pskPresent,
      didHRR := isHRR impl r.hello1, echAccepted := echAccepted, serverName := name }
  else
    let sh := r.hello1
    let res := resumed12 o ctx sh
    { version := peerVersion sh, suite := sh.suite, curve := if res then 0 else r.skxCurve, alpn := sh.alpn,
      didResume := res, didHRR := false, echAccepted := echAccepted, serverName := name }

/-! ## server name -/

/-- where the names of a connection come from. -/
structure Names where
  cfgName : Bytes              -- Config.ServerName
  sniExt : Option Bytes        -- the spec's SNIExtension: `none` = no such extension (or removed),
                               -- `some []` = present without a name of its own, `some n` = explicit name
  ech : Bool := false          -- an ECH config list is set …
  publicName : Bytes := []     -- … with this public name
  deriving DecidableEq, Repr

/-- the name the SNIExtension carries when `ApplyPreset` is done with it. -/
def extName (n : Names) : Option Bytes :=
  n.sniExt.map fun e => if n.ech then n.publicName else if e.isEmpty then n.cfgName else e

/-- the host name on the wire (`[]` = no server_name extension is emitted): `SNIExtension.Read`. -/
def sentName (n : Names) : Bytes :=
  match extName n with
  | none => []
  | some e => Sni.hostnameInSNI e

/-- `c.serverName` on the client: `Hello.ServerName` as `ApplyConfig` leaves it (cleared, then set by the
SNIExtension to what it sends); once ECH was accepted, the inner hello's server name
(`hostnameInSNI(Config.ServerName)`; before the repair: `Config.ServerName` verbatim). -/
def clientName (n : Names) (echAccepted : Bool) : Bytes :=
  if echAccepted then Sni.hostnameInSNI n.cfgName else sentName n

/-- `c.serverName` on the server: the host name of the ClientHello it acted on — the one on the wire, or
under accepted ECH the inner hello's (`hostnameInSNI(Config.ServerName)`, built by `makeClientHello`). -/
def serverName (n : Names) (echAccepted : Bool) : Bytes :=
  if echAccepted then Sni.hostnameInSNI n.cfgName else sentName n

/-! ## exported keying material -/

inductive Refusal where
  | renegotiation | noEMS | reservedLabel | contextTooLong
  deriving DecidableEq, Repr

/-- the facts the exporter policy of one end consults. -/
structure Side where
  version : Nat
  ems : Bool          -- extended master secret negotiated (c.extMasterSecret)
  reneg : Bool        -- Config.Renegotiation ≠ RenegotiateNever
  deriving DecidableEq, Repr

def reservedLabels : List Bytes :=
  ["client finished".toUTF8.toList, "server finished".toUTF8.toList, "master secret".toUTF8.toList,
   "key expansion".toUTF8.toList]

/-- does `ExportKeyingMaterial(label, context, length)` refuse, and why (`context = none`: nil slice). -/
def refusal (s : Side) (label : Bytes) (context : Option Bytes) : Option Refusal :=
  if s.reneg then some .renegotiation
  else if s.version != tls13 && !s.ems then some .noEMS
  else if s.version != tls13 && reservedLabels.contains label then some .reservedLabel
  else if s.version != tls13 && decide (65536 ≤ (context.getD []).length) then some .contextTooLong
  else none

/-- the raw exporter closure (`c.ekm`), below the policy: `ekmFromMasterSecret` has the two label /
context checks itself, the TLS 1.3 exporter has none. -/
def rawRefusal (version : Nat) (label : Bytes) (context : Option Bytes) : Option Refusal :=
  if version != tls13 && reservedLabels.contains label then some .reservedLabel
  else if version != tls13 && decide (65536 ≤ (context.getD []).length) then some .contextTooLong
  else none

/-- `ExportKeyingMaterial` of one end: a refusal, or the uninterpreted exporter function `F` applied to
this end's (secret, transcript). -/
def exportKM {S T : Type} (F : S → T → Bytes → Option Bytes → Nat → Bytes) (s : Side) (secret : S) (transcript : T)
    (label : Bytes) (context : Option Bytes) (length : Nat) : Except Refusal Bytes :=
  match refusal s label context with
  | some why => .error why
  | none => .ok (F secret transcript label context length)

/-! ## which transcript the TLS 1.3 exporter is derived from -/

/-- the TLS 1.3 handshake as the client's running transcript sees it: the messages up to and including the
server Finished, then whatever the client sends before its own Finished (end_of_early_data, and after a
CertificateRequest its Certificate — possibly empty — and CertificateVerify). -/
structure Flight where
  throughServerFinished : List Bytes
  clientFlight : List Bytes
  deriving DecidableEq, Repr

/-- where the client installs its exporter closure. -/
inductive EkmPoint where
  | afterServerFinished      -- last statement of `readServerFinished` (the code)
  | beforeClientFinished     -- first statement of `sendClientFinished`
  deriving DecidableEq, Repr

/-- the transcript the client's exporter closure captures when installed at `p` (the closure calls
`ExporterMasterSecret(transcript)` at once, on the running transcript of that moment). -/
def clientEkmTranscript (p : EkmPoint) (f : Flight) : List Bytes :=
  match p with
  | .afterServerFinished => f.throughServerFinished
  | .beforeClientFinished => f.throughServerFinished ++ f.clientFlight

/-- the server installs its closure right after writing its Finished. -/
def serverEkmTranscript (f : Flight) : List Bytes := f.throughServerFinished

/-- `readServerFinished` ends with `c.ekm = hs.suite.exportKeyingMaterial(hs.masterSecret, hs.transcript)`. -/
def codeEkmPoint : EkmPoint := .afterServerFinished

/-- whether the extended master secret is in force (`c.extMasterSecret`, both ends): echoed by the
ServerHello of a TLS ≤ 1.2 full handshake (the server echoes it exactly when the hello offered it), or
inherited from the resumed session. -/
def emsNegotiated (o : Offer) (ctx : ClientCtx) (sh : ServerHello) : Bool :=
  if resumed12 o ctx sh then (match ctx.session12 with | some s => s.ems | none => false)
  else sh.ems

end Report
