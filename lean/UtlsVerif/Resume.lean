import UtlsVerif.Wire
import UtlsVerif.Ext
/-!
# Resume — cache-driven session resumption of uTLS clients (C19)

Transcribes, from /repo:

* `(*Conn).loadSession` (handshake_client.go) — the guards in code order, incl. the `[UTLS]`
  sections (`InsecureSkipTimeVerify`, `InsecureServerNameToVerify`, and the repaired D13 guard:
  an extended-master-secret session is not offered by a hello without the extension);
* `(*UConn).uLoadSession` + `sessionController.shouldLoadSession / initSessionTicketExt /
  initPskExt` (u_conn.go, u_session_controller.go): the ticket / PSK extension is initialised only
  when the spec contains it; skipped (or the documented panic for `HelloCustom` without
  `PreferSkipResumptionOnNilExtension`) otherwise;
* `clientSessionCacheKey`; `pskExtLen`, `readPskIntoBytes` (through `Ext`), the session_ticket
  extension bytes, the extension block of `MarshalClientHelloNoECH`;
* `UtlsPreSharedKeyExtension.PatchBuiltHello` / `uApplyPatch` (`patchBinders`) over a symbolic
  binder function, and the server's binder check (`marshalWithoutBinders` + compare);
* the PSK part of `processHelloRetryRequest` incl. the `[uTLS]` section (`hrrPsk`);
* one connection over a shared cache against crypto/tls's server (`stepConn`): what is offered,
  whether the server resumes / declines / aborts, the client's error class, cache operations and
  the stored session.

Names are small naturals (`0` = empty string); times are seconds. x509 (`VerifyHostname`,
validity), HMAC/HKDF, the suite tables are parameters. Core Lean only.
-/
namespace Resume
open Wire

abbrev Name := Nat

def vTLS12 : Nat := 0x0303
def vTLS13 : Nat := 0x0304
/-- `maxSessionTicketLifetime` in seconds. -/
def week : Nat := 604800

structure Session where
  version : Nat
  suite : Nat
  ems : Bool
  /-- client clock, seconds -/
  createdAt : Nat
  useBy : Nat
  ageAdd : Nat
  ticket : Bytes
  /-- `peerCertificates[0].NotAfter` -/
  certNotAfter : Nat
  /-- `len(verifiedChains) != 0` -/
  chains : Bool
  /-- names `peerCertificates[0].VerifyHostname` accepts (x509 oracle) -/
  validFor : List Name
  /-- ghost: cache key under which the creating connection stored it -/
  origin : Name
  /-- ghost: `createdAt` sealed inside the (opaque) ticket, server clock -/
  srvCreatedAt : Nat
  deriving DecidableEq, Repr

structure Cfg where
  ticketsDisabled : Bool
  hasCache : Bool
  serverName : Name
  /-- `c.conn.RemoteAddr().String()` (0 = no conn) -/
  remoteAddr : Name
  skipVerify : Bool
  skipTimeVerify : Bool
  /-- `InsecureServerNameToVerify`: `none` = "", `some 0` = "*", `some n` = a name -/
  nameToVerify : Option Name
  /-- `uconn.skipResumptionOnNilExtension` -/
  skipOnNil : Bool
  omitEmptyPsk : Bool
  deriving DecidableEq, Repr

/-- what the resumption logic reads of the ClientHello being built. -/
structure Hello where
  /-- `HelloGolang`: crypto/tls builds the hello and calls `loadSession` itself -/
  golang : Bool
  hasTicketExt : Bool
  hasPskExt : Bool
  /-- the hello carries extended_master_secret -/
  ems : Bool
  /-- psk_key_exchange_modes contains psk_dhe_ke -/
  modes : Bool
  versions : List Nat
  suites : List Nat
  deriving DecidableEq, Repr

/-- the suite tables of the implementation (`cipherSuiteByID`, `cipherSuiteTLS13ByID(..).hash.Size()`). -/
structure Tables where
  known12 : List Nat
  hash13 : List (Nat × Nat)
  deriving Repr

def Tables.hash (T : Tables) (s : Nat) : Option Nat := (T.hash13.find? (·.1 == s)).map (·.2)

abbrev Cache := List (Name × Session)

def Cache.get (c : Cache) (k : Name) : Option Session := (c.find? (·.1 == k)).map (·.2)
def Cache.del (c : Cache) (k : Name) : Cache := c.filter (·.1 != k)
def Cache.put (c : Cache) (k : Name) (s : Session) : Cache := (k, s) :: c.del k

/-- `clientSessionCacheKey`. -/
def cacheKey (cfg : Cfg) : Name := if cfg.serverName ≠ 0 then cfg.serverName else cfg.remoteAddr

/-- the name handed to `VerifyHostname` in `loadSession` (`none`: no name check). -/
def dnsName (cfg : Cfg) : Option Name :=
  match cfg.nameToVerify with
  | none => if cfg.serverName ≠ 0 then some cfg.serverName else none
  | some 0 => none
  | some n => some n

/-- result of `loadSession`. -/
inductive Load where
  /-- nothing to resume; `deleted`: the cache entry was removed (`Put(key, nil)`) -/
  | none (deleted : Bool)
  /-- a pre-1.3 session: `hello.sessionTicket = session.ticket` -/
  | sess12 (s : Session)
  /-- a TLS 1.3 session: identity, placeholder binder, early secret, binder key -/
  | sess13 (s : Session)
  /-- `hello.supportedVersions[0]` on an empty list -/
  | panicIndex
  deriving DecidableEq, Repr

/-- the `VerifyHostname` step of `loadSession` ([UTLS]: the name comes from `dnsName`). -/
def nameOk (cfg : Cfg) (s : Session) : Bool :=
  match dnsName cfg with
  | some n => s.validFor.contains n
  | none => true

/-- TLS 1.3: `cipherSuiteTLS13ByID(session.cipherSuite)` is known and some offered suite has its hash. -/
def hashOffered (T : Tables) (h : Hello) (s : Session) : Bool :=
  match T.hash s.suite with
  | none => false
  | some hs => h.suites.any (fun o => T.hash o == some hs)

/-- `loadSession` after the cache hit: the guards on the cached session, in code order. -/
def sessionGuards (T : Tables) (cfg : Cfg) (h : Hello) (now : Nat) (s : Session) : Load :=
  if !h.versions.contains s.version then .none false
  else if !cfg.skipTimeVerify && decide (now > s.certNotAfter) then .none true   -- expired certificate: entry deleted
  else if !cfg.skipVerify && !s.chains then .none false
  else if !cfg.skipVerify && !nameOk cfg s then .none false
  else if s.version ≠ vTLS13 then
    if !(h.suites.contains s.suite && T.known12.contains s.suite) then .none false   -- mutualCipherSuite
    else if s.ems && !h.ems then .none false          -- [uTLS] D13 repair
    else .sess12 s
  else if now > s.useBy then .none true                -- expired ticket: entry deleted
  else if hashOffered T h s then .sess13 s else .none false

/-- `(*Conn).loadSession`, guards in code order (first handshake: `c.handshakes == 0`). -/
def loadSession (T : Tables) (cache : Cache) (cfg : Cfg) (h : Hello) (now : Nat) : Load :=
  if cfg.ticketsDisabled || !cfg.hasCache then .none false
  else if h.versions.isEmpty then .panicIndex
  else if cacheKey cfg = 0 then .none false
  else match cache.get (cacheKey cfg) with
  | none => .none false
  | some s => sessionGuards T cfg h now s

/-- what ends up in the ClientHello. -/
inductive Decision where
  | none
  | ticket12 (s : Session)
  | psk13 (s : Session)
  /-- documented panic: resumption enabled, the extension is not in a `HelloCustom` spec and
  `PreferSkipResumptionOnNilExtension` is unset -/
  | assertNoExt
  | panicIndex
  deriving DecidableEq, Repr

/-- is `loadSession` reached at all (`uLoadSession`'s early returns / `shouldLoadSession`). -/
def callsLoad (cfg : Cfg) (h : Hello) : Bool :=
  !(cfg.ticketsDisabled || !cfg.hasCache) && (h.golang || h.hasTicketExt || h.hasPskExt)

/-- `uLoadSession` (parrots) / `clientHandshake → loadSession` (HelloGolang). -/
def loadDecision (T : Tables) (cache : Cache) (cfg : Cfg) (h : Hello) (now : Nat) : Decision :=
  if !callsLoad cfg h then .none
  else match loadSession T cache cfg h now with
  | .none _ => .none
  | .panicIndex => .panicIndex
  | .sess12 s =>
    if h.golang then .ticket12 s
    else if s.version = vTLS12 then
      if h.hasTicketExt then .ticket12 s else if cfg.skipOnNil then .none else .assertNoExt
    else
      -- TLS 1.0/1.1 session: `uLoadSession` takes the PSK branch with no identities — nothing on the wire
      if h.hasPskExt then .none else if cfg.skipOnNil then .none else .assertNoExt
  | .sess13 s =>
    if h.golang || h.hasPskExt then .psk13 s else if cfg.skipOnNil then .none else .assertNoExt

/-- `loadSession` removed the entry (expired certificate / expired ticket). -/
def loadDeletes (T : Tables) (cache : Cache) (cfg : Cfg) (h : Hello) (now : Nat) : Bool :=
  callsLoad cfg h && (match loadSession T cache cfg h now with | .none true => true | _ => false)

/-- `uint32(ticketAge/time.Millisecond) + session.ageAdd` (wraps). -/
def obfuscatedAge (s : Session) (now : Nat) : Nat :=
  (((now : Int) - (s.createdAt : Int)) * 1000 + (s.ageAdd : Int)).emod 4294967296 |>.toNat

/-! ## Extension bytes and the extension block -/

/-- `pskExtLen` over (label, age) identities. -/
def pskExtLen (ids : List (Bytes × Nat)) (binders : List Bytes) : Nat := Ext.pskExtLen ids binders

/-- `readPskIntoBytes` into a large enough buffer: the whole extension, header included. -/
def pskExt (ids : List (Bytes × Nat)) (binders : List Bytes) : Bytes :=
  u16 41 ++ u16 (pskExtLen ids binders - 4) ++
    (u16 (Ext.identitiesLen ids) ++ Ext.encIdentities ids ++ u16 (Ext.vec8sLen binders) ++ Ext.encVec8s binders)

/-- the binders block at the end of the extension: uint16 length, then uint8-prefixed binders. -/
def bindersBlock (binders : List Bytes) : Bytes := u16 (Ext.vec8sLen binders) ++ Ext.encVec8s binders

/-- `SessionTicketExtension.Read`. -/
def ticketExt (ticket : Bytes) : Bytes := u16 35 ++ u16 ticket.length ++ ticket

/-- a spec entry as the marshaller sees it. -/
inductive SpecExt where
  /-- any other extension, already marshalled (header included) -/
  | other (bytes : Bytes)
  | sessionTicket
  | psk
  deriving DecidableEq, Repr

def zeros (n : Nat) : Bytes := List.replicate n 0

/-- bytes one spec entry contributes, given the decision (`hs` = hash size of the PSK suite). -/
def extBytes (d : Decision) (now hs : Nat) : SpecExt → Bytes
  | .other bs => bs
  | .sessionTicket => match d with
      | .ticket12 s => ticketExt s.ticket
      | _ => ticketExt []
  | .psk => match d with
      | .psk13 s => pskExt [(s.ticket, obfuscatedAge s now)] [zeros hs]
      | _ => []      -- `Len() = 0`: omitted (OmitEmptyPsk)

def marshalExts (d : Decision) (now hs : Nat) (spec : List SpecExt) : Bytes :=
  (spec.map (extBytes d now hs)).flatten

/-- `syncSessionExts` asserts this (panic otherwise): pre_shared_key only as the last entry. -/
def pskOnlyLast (spec : List SpecExt) : Bool := !(spec.dropLast.contains .psk)

/-- the ClientHello handshake message: type, uint24 length, `pre` (version … compression), extension block. -/
def marshalHello (pre : Bytes) (d : Decision) (now hs : Nat) (spec : List SpecExt) : Bytes :=
  let exts := marshalExts d now hs spec
  let body := pre ++ (if spec.isEmpty then [] else u16 exts.length ++ exts)
  u8 1 ++ u24 body.length ++ body

/-! ## Binder patching -/

/-- `UtlsPreSharedKeyExtension.PatchBuiltHello` + the length assertion of `uApplyPatch`.
`F` is `finishedHash(binderKey, Hash(·))` — symbolic. `placeholders` are the extension's binders
at marshal time. -/
def patchBinders (F : Bytes → Bytes) (raw : Bytes) (placeholders : List Bytes) : Except String Bytes :=
  let bindersLen := 2 + Ext.vec8sLen placeholders         -- marshalWithoutBinders
  let trunc := raw.take (raw.length - bindersLen)
  let binders := [F trunc]
  -- updateBinders: same count, same lengths
  if binders.length ≠ placeholders.length then .error "pskBinders length mismatch"
  else if (binders.zip placeholders).any (fun p => p.1.length != p.2.length) then .error "pskBinders length mismatch"
  else
    let out := trunc ++ bindersBlock binders
    if out.length ≠ raw.length then .error "failed to update binders" else .ok out

/-- crypto/tls server, `checkForResumption` (1.3): recompute over `marshalWithoutBinders` of the
received hello (`binders` as parsed from it) and compare with the first binder. -/
def serverBinderOk (F : Bytes → Bytes) (received : Bytes) (binders : List Bytes) : Bool :=
  match binders with
  | [] => false
  | b0 :: _ => F (received.take (received.length - (2 + Ext.vec8sLen binders))) == b0

/-! ## Rebuilds: `BuildHandshakeState` may run several times before (and always once in) `Handshake`

With the PSK set, every `buildHandshakeState(true)` re-marshals the hello (the extension writes its
*current* binders — after the first build the previously patched ones, no longer the zero
placeholder) and then `uApplyPatch` runs `PatchBuiltHello` again whenever
`shouldUpdateBinders()` (state `PskExtInitialized` **or** `PskExtAllSet`). Between builds the
caller may edit the hello (`SetClientRandom`, `SetSNI`, an extension field): such an edit changes
the bytes before the binders block. -/

inductive PskState where
  | initialized | allSet
  deriving DecidableEq, Repr

/-- `sessionController.shouldUpdateBinders` for a controller that owns a PSK extension. -/
def shouldUpdateBinders : PskState → Bool
  | .initialized => true
  | .allSet => true

/-- the built state of a connection whose PSK is set. -/
structure Built where
  /-- the marshalled hello up to the binders block, as the current hello fields give it -/
  head : Bytes
  /-- `e.Binders[0]` of the PSK extension -/
  binder : Bytes
  /-- `Hello.Raw` -/
  raw : Bytes
  st : PskState
  /-- `PatchBuiltHello` calls so far -/
  patches : Nat
  deriving Repr

inductive PreOp where
  | build
  /-- `BuildHandshakeStateWithoutSession`: re-marshal only (no `uLoadSession`, no patch, no lock) -/
  | marshalOnly
  /-- a documented edit: changes the hello bytes before the binders block -/
  | edit (f : Bytes → Bytes)

def PreOp.isBuild : PreOp → Bool
  | .build => true
  | .marshalOnly => false
  | .edit _ => false

/-- `BuildHandshakeState` calls among the pre-handshake calls. -/
def nBuilds (ops : List PreOp) : Nat := (ops.filter PreOp.isBuild).length

/-- one `BuildHandshakeState` with the PSK set: marshal with the current binders, patch if
`shouldUpdateBinders`, `setPskToUConn` (state `PskExtAllSet`). -/
def buildStep (F : Bytes → Bytes) (b : Built) : Built :=
  let raw0 := b.head ++ bindersBlock [b.binder]
  if shouldUpdateBinders b.st then
    match patchBinders F raw0 [b.binder] with
    | .ok r =>
      { b with raw := r, binder := F (raw0.take (raw0.length - (2 + Ext.vec8sLen [b.binder]))), st := .allSet,
               patches := b.patches + 1 }
    | .error _ => { b with raw := raw0, st := .allSet, patches := b.patches + 1 }   -- (`updateBinders` drops the error)
  else { b with raw := raw0 }

def preStep (F : Bytes → Bytes) (b : Built) : PreOp → Built
  | .build => buildStep F b
  | .marshalOnly => { b with raw := b.head ++ bindersBlock [b.binder] }
  | .edit f => { b with head := f b.head }

/-- after `uLoadSession` initialised the extension: zero placeholder, nothing marshalled yet. -/
def builtInit (head : Bytes) (hs : Nat) : Built :=
  { head := head, binder := zeros hs, raw := [], st := .initialized, patches := 0 }

/-- the bytes `Handshake` sends after the caller's pre-handshake calls: it always builds once more. -/
def sentAfter (F : Bytes → Bytes) (b0 : Built) (ops : List PreOp) : Built :=
  buildStep F (ops.foldl (preStep F) b0)

/-! ## `UtlsPreSharedKeyExtension.Len()` and its length cache

`Len()` is called by every marshal, also by `BuildHandshakeStateWithoutSession` before any session is
loaded (the extension object survives a repeated `ApplyPreset`). It must answer 0 **without touching
the cache** while there is no session, so that the length after `InitializeByUtls` is that of the
identities and binders set then. -/

structure PskLenState where
  hasSession : Bool
  ids : List (Bytes × Nat)
  binders : List Bytes
  cachedLength : Option Nat
  deriving Repr

/-- `Len()`: result and the extension afterwards. -/
def pskLen (e : PskLenState) : Nat × PskLenState :=
  if !e.hasSession then (0, e)
  else match e.cachedLength with
    | some l => (l, e)
    | none => let l := pskExtLen e.ids e.binders; (l, { e with cachedLength := some l })

/-- `InitializeByUtls`. -/
def pskInitByUtls (e : PskLenState) (ids : List (Bytes × Nat)) (binders : List Bytes) : PskLenState :=
  { e with hasSession := true, ids := ids, binders := binders }

/-- `n` calls of `Len()`. -/
def pskLenCalls : Nat → PskLenState → PskLenState
  | 0, e => e
  | n + 1, e => pskLenCalls n (pskLen e).2

/-- `BuildHandshakeStateWithoutSession` on a spec with the PSK extension and no session loaded yet:
`Read` returns `ErrEmptyPsk` unless `OmitEmptyPsk` (documented; nothing is sent, the cache is not touched). -/
def noSessionBuildFails (cfg : Cfg) (h : Hello) : Bool := !h.golang && h.hasPskExt && !cfg.omitEmptyPsk

/-- a spec's fresh `&UtlsPreSharedKeyExtension{}`. -/
def pskFresh : PskLenState := { hasSession := false, ids := [], binders := [], cachedLength := none }

/-! ## HelloRetryRequest, PSK part -/

inductive HrrPsk where
  /-- no identity offered: nothing to do -/
  | noPsk
  /-- ticket age refreshed, binder recomputed over the new transcript, second hello carries the identity -/
  | rebound
  /-- server switched to a suite with another hash: identity dropped -/
  | dropped
  /-- [uTLS] "uTLS does not support reprocessing of PSK key triggered by HelloRetryRequest" -/
  | errUnsupported
  deriving DecidableEq, Repr

/-- `processHelloRetryRequest`: the `len(hello.pskIdentities) > 0` block followed by the uTLS section
(which tests `len(hs.hello.pskIdentities) > 0` after the crypto/tls block may have dropped them). -/
def hrrPsk (golang offered hashMatch : Bool) : HrrPsk :=
  if !offered then .noPsk
  else if !hashMatch then .dropped
  else if !golang then .errUnsupported
  else .rebound

/-! ## One connection over the shared cache -/

structure Server where
  maxVer : Nat
  now : Nat
  /-- answers the first hello of a TLS 1.3 handshake with a HelloRetryRequest -/
  hrr : Bool
  /-- the suite it picks for this connection (environment) -/
  suite : Nat
  /-- validity of the certificate it presents, and the names it is valid for -/
  certNotBefore : Nat
  certNotAfter : Nat
  certNames : List Name
  /-- the ticket it issues on this connection (opaque bytes; environment) -/
  newTicket : Bytes
  newAgeAdd : Nat
  deriving Repr

structure ConnIn where
  cfg : Cfg
  hello : Hello
  now : Nat
  srv : Server
  deriving Repr

inductive Err where
  | assertNoExt | panicIndex | emptyPsk | pskHrr | emsAbort | certTime | certName | noVersion
  deriving DecidableEq, Repr

inductive Op where
  | hit (k : Name) | miss (k : Name) | del (k : Name) | put (k : Name)
  deriving DecidableEq, Repr

inductive SrvRes where | resumed | full | abort
  deriving DecidableEq, Repr

structure ConnOut where
  decision : Decision
  hrr : Bool
  srvRes : SrvRes
  err : Option Err
  resumed : Bool
  ops : List Op
  cache : Cache
  deriving Repr

def negotiated (c : ConnIn) : Nat :=
  if c.srv.maxVer = vTLS13 ∧ c.hello.versions.contains vTLS13 then vTLS13 else vTLS12

/-- crypto/tls server: `checkForResumption` (1.2 and 1.3). -/
def serverRes (T : Tables) (c : ConnIn) (d : Decision) : SrvRes :=
  let nv := negotiated c
  match d with
  | .ticket12 s =>
    if nv ≠ vTLS12 then .full
    else if c.srv.now > s.srvCreatedAt + week then .full
    else if s.version ≠ nv then .full
    else if !c.hello.suites.contains s.suite then .full
    else if !s.ems && c.hello.ems then .full
    else if s.ems && !c.hello.ems then .abort
    else .resumed
  | .psk13 s =>
    if nv ≠ vTLS13 then .full
    else if !c.hello.modes then .full
    else if c.srv.now > s.srvCreatedAt + week then .full
    else if T.hash s.suite ≠ T.hash c.srv.suite then .full
    else .resumed
  | _ => .full

def offeredSession : Decision → Option Session
  | .ticket12 s => some s
  | .psk13 s => some s
  | _ => none

/-- the session the client stores after a completed handshake (if the server issues a ticket). -/
def newSession (c : ConnIn) (nv : Nat) (old : Option Session) : Session :=
  match old with
  | some s =>   -- resumed: certificates, chains, EMS carried over; 1.2 re-wraps keep the ticket's creation time
    { version := nv, suite := s.suite, ems := s.ems, createdAt := c.now,
      useBy := if nv = vTLS13 then c.now + week else 0, ageAdd := if nv = vTLS13 then c.srv.newAgeAdd else 0,
      ticket := c.srv.newTicket, certNotAfter := s.certNotAfter, chains := s.chains, validFor := s.validFor,
      origin := cacheKey c.cfg, srvCreatedAt := if nv = vTLS13 then c.srv.now else s.srvCreatedAt }
  | none =>
    { version := nv, suite := c.srv.suite, ems := if nv = vTLS13 then false else c.hello.ems, createdAt := c.now,
      useBy := if nv = vTLS13 then c.now + week else 0, ageAdd := if nv = vTLS13 then c.srv.newAgeAdd else 0,
      ticket := c.srv.newTicket, certNotAfter := c.srv.certNotAfter, chains := !c.cfg.skipVerify,
      validFor := c.srv.certNames, origin := cacheKey c.cfg, srvCreatedAt := c.srv.now }

/-- does the server issue a ticket the client stores. -/
def storesTicket (c : ConnIn) (nv : Nat) : Bool :=
  c.cfg.hasCache && cacheKey c.cfg != 0 &&
  (if nv = vTLS13 then c.hello.modes && !c.cfg.ticketsDisabled
   else if c.hello.golang then !c.cfg.ticketsDisabled else c.hello.hasTicketExt)

/-- full handshake: the certificate is verified against the client's clock. -/
def certTimeOk (c : ConnIn) : Bool :=
  c.cfg.skipVerify || c.cfg.skipTimeVerify || (decide (c.srv.certNotBefore ≤ c.now) && decide (c.now ≤ c.srv.certNotAfter))

/-- full handshake: `verifyServerCertificate` checks the presented certificate against the same name
`loadSession` uses (`InsecureServerNameToVerify` "*": chain only, names ignored). -/
def certNameOk (c : ConnIn) : Bool :=
  c.cfg.skipVerify || (match dnsName c.cfg with | some n => c.srv.certNames.contains n | none => true)

/-- what happens to the cache entry at the end of the connection. -/
inductive Tail where
  /-- untouched -/
  | keep
  /-- `Put(key, nil)`: a handshake that offered a session failed -/
  | drop
  /-- `Put(key, session)`: the ticket issued on this connection (`old`: the resumed session) -/
  | store (nv : Nat) (old : Option Session)
  deriving DecidableEq, Repr

structure Outcome where
  hrr : Bool
  srvRes : SrvRes
  err : Option Err
  resumed : Bool
  tail : Tail
  deriving Repr

def isPsk : Decision → Bool
  | .psk13 _ => true
  | _ => false

/-- the handshake after the ClientHello decision `d` was taken. -/
def outcome (T : Tables) (c : ConnIn) (d : Decision) : Outcome :=
  let nv := negotiated c
  let held := (offeredSession d).isSome
  let fail (e : Err) (hrr : Bool) (sr : SrvRes) : Outcome :=
    { hrr := hrr, srvRes := sr, err := some e, resumed := false, tail := if held then .drop else .keep }
  match d with
  | .assertNoExt => { hrr := false, srvRes := .full, err := some .assertNoExt, resumed := false, tail := .keep }
  | .panicIndex => { hrr := false, srvRes := .full, err := some .panicIndex, resumed := false, tail := .keep }
  | _ =>
    if !c.hello.golang && c.hello.hasPskExt && !c.cfg.omitEmptyPsk && !isPsk d then
      -- `UtlsPreSharedKeyExtension.Read`: ErrEmptyPsk, before anything is sent
      { hrr := false, srvRes := .full, err := some .emptyPsk, resumed := false, tail := .keep }
    else if !c.hello.versions.contains nv then fail .noVersion false .full
    else
      let hrr := decide (nv = vTLS13) && c.srv.hrr
      let hashMatch := match d with | .psk13 s => T.hash s.suite == T.hash c.srv.suite | _ => true
      if hrr && hrrPsk c.hello.golang (isPsk d) hashMatch == .errUnsupported then fail .pskHrr true .full
      else match serverRes T c d with
        | .abort => fail .emsAbort hrr .abort
        | .resumed =>
          { hrr := hrr, srvRes := .resumed, err := none, resumed := true,
            tail := if storesTicket c nv then .store nv (offeredSession d) else .keep }
        | .full =>
          if !certTimeOk c then fail .certTime hrr .full
          else if !certNameOk c then fail .certName hrr .full
          else { hrr := hrr, srvRes := .full, err := none, resumed := false,
                 tail := if storesTicket c nv then .store nv none else .keep }

def tailOps (key : Name) : Tail → List Op
  | .keep => []
  | .drop => [.del key]
  | .store _ _ => [.put key]

def tailCache (c : ConnIn) (cache : Cache) : Tail → Cache
  | .keep => cache
  | .drop => cache.del (cacheKey c.cfg)
  | .store nv old => cache.put (cacheKey c.cfg) (newSession c nv old)

def stepConn (T : Tables) (cache : Cache) (c : ConnIn) : ConnOut :=
  let key := cacheKey c.cfg
  let d := loadDecision T cache c.cfg c.hello c.now
  let calls := callsLoad c.cfg c.hello && !c.hello.versions.isEmpty && key != 0
  let ops0 : List Op := if calls then [if (cache.get key).isSome then .hit key else .miss key] else []
  let del0 := loadDeletes T cache c.cfg c.hello c.now
  let cache1 := if del0 then cache.del key else cache
  let o := outcome T c d
  { decision := d, hrr := o.hrr, srvRes := o.srvRes, err := o.err, resumed := o.resumed,
    ops := ops0 ++ (if del0 then [.del key] else []) ++ tailOps key o.tail,
    cache := tailCache c cache1 o.tail }

/-- a history of connections over one cache. -/
def run (T : Tables) : Cache → List ConnIn → List ConnOut
  | _, [] => []
  | cache, c :: cs => let o := stepConn T cache c; o :: run T o.cache cs

def finalCache (T : Tables) : Cache → List ConnIn → Cache
  | cache, [] => cache
  | cache, c :: cs => finalCache T (stepConn T cache c).cache cs

end Resume
