import UtlsVerif.Prng
/-!
# Roller — transcription of `Roller.Dial` (/repo/u_roller.go)

```go
helloIDs := copy(c.HelloIDs); c.r.rand.Shuffle(len(c.HelloIDs), swap)            // `Prng.shuffle`
c.HelloIDMu.Lock(); workingHelloId := c.WorkingHelloID; c.HelloIDMu.Unlock()     // the one read
if workingHelloId != nil { … push it first / prepend it … }                      // `prioritise`
for _, helloID := range helloIDs {                                               // `loop`
    tcpConn, err = net.DialTimeout(…);  if err != nil { return nil, err }
    client := UClient(tcpConn, nil, helloID); client.SetSNI(serverName); …
    err = client.Handshake();           if err != nil { continue }
    c.HelloIDMu.Lock(); c.WorkingHelloID = &client.ClientHelloID; c.HelloIDMu.Unlock()   // the one write
    return client, err
}
return nil, err
```

`Id` is any type with decidable equality standing for Go's comparable struct `ClientHelloID`
(`ID == *workingHelloId` compares Client, Version and the `Seed`/`Weights` *pointers*).

Oracles (the environment, arbitrary in the theorems):
* `dialO k` — does the `k`-th `net.DialTimeout` of this call succeed;
* `hs k a` — outcome of `client.Handshake()` on the `k`-th attempt made with id `a`: `none` = error,
  `some r` = success, where `r` is the value of `client.ClientHelloID` afterwards. For every id that is
  not a randomized one with a nil `Seed`/`Weights`, `r = a` (`Stable`); `generateRandomizedSpec` writes
  the drawn seed and `&DefaultWeights` into the connection's id, so there `r ≠ a`.

`attempts` are the ids with which a handshake was started (a ClientHello is sent), in order.
-/
namespace Roller

/-- What `Dial` returns. -/
inductive Result (Id : Type) where
  /-- `(client, nil)`: the `k`-th attempt, made with `tried`, succeeded; `client.ClientHelloID = recorded`. -/
  | conn (k : Nat) (tried recorded : Id)
  /-- `(nil, err)` with `err` the error of the `k`-th `net.DialTimeout`. -/
  | dialErr (k : Nat)
  /-- the loop ran out after `n` failed handshakes: `(nil, lastHandshakeErr)`; for `n = 0` this is `(nil, nil)`. -/
  | exhausted (n : Nat)
  deriving DecidableEq, Repr

structure Out (Id : Type) where
  result : Result Id
  attempts : List Id
  /-- `c.WorkingHelloID` after the call (as an id value; `none` = nil pointer). -/
  working : Option Id
  deriving DecidableEq, Repr

variable {Id : Type} [DecidableEq Id]

/-- Lines 62–77: with a recorded working id `w`, the first position holding `w` is swapped with
position 0 (`helloIDs[i] = helloIDs[0]; helloIDs[0] = w; break`); if `w` is absent it is prepended. -/
def prioritise (sh : List Id) : Option Id → List Id
  | none => sh
  | some w =>
    let i := sh.idxOf w
    match sh[i]?, sh[0]? with
    | some _, some h0 => (sh.set i h0).set 0 w
    | _, _ => w :: sh

/-- Lines 79–102: the attempt loop from attempt index `k` on, over the remaining ids. -/
def loop (dialO : Nat → Bool) (hs : Nat → Id → Option Id) (w : Option Id) : Nat → List Id → Out Id
  | k, [] => ⟨.exhausted k, [], w⟩
  | k, a :: rest =>
    if dialO k then
      match hs k a with
      | some r => ⟨.conn k a r, [a], some r⟩
      | none =>
        let o := loop dialO hs w (k + 1) rest
        { o with attempts := a :: o.attempts }
    else ⟨.dialErr k, [], w⟩

/-- `Dial` after the shuffle: `sh` is the shuffled copy of `HelloIDs`, `working` the value read under the mutex. -/
def dialCore (sh : List Id) (working : Option Id) (dialO : Nat → Bool) (hs : Nat → Id → Option Id) : Out Id :=
  loop dialO hs working 0 (prioritise sh working)

/-- `Dial` including the shuffle drawn from the Roller's prng stream (`none` = supplied log exhausted). -/
def dial (ids : List Id) (s : Prng.Stream) (working : Option Id) (dialO : Nat → Bool)
    (hs : Nat → Id → Option Id) : Option (Out Id × Prng.Stream) :=
  (Prng.shuffle ids s).map fun (sh, r) => (dialCore sh working dialO hs, r)

/-- One `Dial` call of a history: its environment. -/
structure Call (Id : Type) where
  dialO : Nat → Bool
  hs : Nat → Id → Option Id

/-- A sequential history of `Dial` calls on one Roller: the stream and the working id are threaded. -/
def runCalls (ids : List Id) : List (Call Id) → Prng.Stream → Option Id → Option (List (Out Id))
  | [], _, _ => some []
  | c :: cs, s, w =>
    match dial ids s w c.dialO c.hs with
    | none => none
    | some (o, r) => (runCalls ids cs r o.working).map (o :: ·)

/-! ## Concurrent callers: the two critical sections of a `Dial`

A `Dial` touches the shared `WorkingHelloID` exactly twice, each time under `HelloIDMu`: the read before
the loop and the write after a successful handshake. Everything between is thread-local (the shuffle
goes through `prng.Read`, which has its own mutex: C30). So an execution of `n` concurrent Dials is a
schedule of these atomic steps. Thread `t` is described by its shuffled list and its oracles. -/

structure Thread (Id : Type) where
  sh : List Id
  dialO : Nat → Bool
  hs : Nat → Id → Option Id

/-- per-thread progress: not started / between the read and the write (holding its `Out`) / returned. -/
inductive Pc (Id : Type) where
  | idle
  | running (readW : Option Id) (o : Out Id)
  | done (readW : Option Id) (o : Out Id)

structure CState (Id : Type) where
  shared : Option Id
  pcs : List (Pc Id)

/-- one atomic step of thread `t`: first the locked read (followed by the thread-local loop), then the
locked write if the loop ended with a connection, otherwise just the return. -/
def cstep (ths : List (Thread Id)) (st : CState Id) (t : Nat) : CState Id :=
  match ths[t]?, st.pcs[t]? with
  | some th, some .idle =>
    let o := dialCore th.sh st.shared th.dialO th.hs
    { st with pcs := st.pcs.set t (.running st.shared o) }
  | some _, some (.running rw o) =>
    match o.result with
    | .conn _ _ r => { shared := some r, pcs := st.pcs.set t (.done rw o) }
    | _ => { st with pcs := st.pcs.set t (.done rw o) }
  | _, _ => st

def crun (ths : List (Thread Id)) (w0 : Option Id) (sched : List Nat) : CState Id :=
  sched.foldl (cstep ths) ⟨w0, ths.map fun _ => .idle⟩

/-! ## Shape of `Dial` with respect to the mutex (the instance comes from `Gen.RollerShape`, extracted from the
source by `harness/cmd/gen/c29.go`): 0 = `HelloIDMu.Lock`, 1 = `HelloIDMu.Unlock`, 2 = read of `WorkingHelloID`,
3 = write of `WorkingHelloID`, 4 = control transfer / branching statement. -/

/-- is the mutex held after the events of `sk`, starting from `held`. -/
def heldAfter : Bool → List Nat → Bool
  | held, [] => held
  | _, 0 :: r => heldAfter true r
  | _, 1 :: r => heldAfter false r
  | held, _ :: r => heldAfter held r

/-- the discipline the atomic-step model needs: `Lock` only when free, `Unlock` only when held, every access
of `WorkingHelloID` while held, no control transfer while held (so every path through a locked region releases
it), and free at the end. -/
def disciplined : Bool → List Nat → Bool
  | held, [] => !held
  | held, 0 :: r => !held && disciplined true r
  | held, 1 :: r => held && disciplined false r
  | held, 2 :: r => held && disciplined held r
  | held, 3 :: r => held && disciplined held r
  | held, 4 :: r => !held && disciplined held r
  | _, _ :: _ => false

/-- the accesses of the shared field, in order. -/
def accesses (sk : List Nat) : List Nat := sk.filter fun e => e == 2 || e == 3

end Roller
