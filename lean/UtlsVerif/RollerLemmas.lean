import UtlsVerif.Roller
/-!
# RollerLemmas — helper lemmas for the C29 theorems: what `prioritise` does to the list and an exact
characterisation of `loop` by induction over the remaining ids (both directions).
-/
namespace Roller

variable {Id : Type}

/-- attempts `k … k+i-1` (positions `0 … i-1` of `l`) all dialled fine and failed their handshake. -/
def FailsBefore (d : Nat → Bool) (hs : Nat → Id → Option Id) (k : Nat) (l : List Id) (i : Nat) : Prop :=
  ∀ j, j < i → d (k + j) = true ∧ ∃ b, l[j]? = some b ∧ hs (k + j) b = none

section Prioritise
variable [DecidableEq Id]

theorem prioritise_none (sh : List Id) : prioritise sh none = sh := rfl

theorem prioritise_absent (sh : List Id) (w : Id) (h : w ∉ sh) : prioritise sh (some w) = w :: sh := by
  unfold prioritise
  have : sh[List.idxOf w sh]? = none := by
    rw [List.idxOf_eq_length h]; simp
  simp [this]

/-- with `w` present the result is `sh` with position 0 and the first position of `w` exchanged. -/
theorem prioritise_present (sh : List Id) (w : Id) (h : w ∈ sh) :
    ∃ (h0 : 0 < sh.length), prioritise sh (some w) = (sh.set (List.idxOf w sh) sh[0]).set 0 w := by
  have hi : List.idxOf w sh < sh.length := List.idxOf_lt_length_iff.mpr h
  have h0 : 0 < sh.length := by omega
  refine ⟨h0, ?_⟩
  unfold prioritise
  simp [List.getElem?_eq_getElem hi, List.getElem?_eq_getElem h0]

theorem prioritise_present_perm (sh : List Id) (w : Id) (h : w ∈ sh) :
    (prioritise sh (some w)).Perm sh := by
  obtain ⟨h0, e⟩ := prioritise_present sh w h
  rw [e]
  have hi : List.idxOf w sh < sh.length := List.idxOf_lt_length_iff.mpr h
  have hw : sh[List.idxOf w sh] = w := List.getElem_idxOf hi
  rw [List.perm_iff_count]
  intro c
  have h0' : 0 < (sh.set (List.idxOf w sh) sh[0]).length := by simpa using h0
  rw [List.count_set h0', List.count_set hi]
  by_cases hz : List.idxOf w sh = 0
  · -- `w` already first: both assignments write what is there
    have hw0 : sh[0] = w := by
      have := hw; simp only [hz] at this; exact this
    simp only [hz, List.getElem_set_self, hw0]
    have : 0 < List.count w sh := List.count_pos_iff.mpr h
    by_cases e : w = c <;> simp [e] <;> (try subst e) <;> omega
  · have hne : List.idxOf w sh ≠ 0 := hz
    simp only [List.getElem_set_ne hne, hw]
    have h1 : 0 < List.count w sh := List.count_pos_iff.mpr h
    have h2 : 0 < List.count sh[0] sh := List.count_pos_iff.mpr (List.getElem_mem h0)
    by_cases e1 : w = c <;> by_cases e2 : sh[0] = c <;> simp [e1, e2] <;>
      (try subst e1) <;> (try subst e2) <;> omega

theorem prioritise_head (sh : List Id) (w : Id) : (prioritise sh (some w)).head? = some w := by
  by_cases h : w ∈ sh
  · obtain ⟨h0, e⟩ := prioritise_present sh w h
    rw [e, List.head?_eq_getElem?]
    simp [h0]
  · rw [prioritise_absent sh w h]; rfl

theorem prioritise_mem (sh : List Id) (working : Option Id) (a : Id)
    (h : a ∈ prioritise sh working) : a ∈ sh ∨ working = some a := by
  cases working with
  | none => exact Or.inl h
  | some w =>
    by_cases hw : w ∈ sh
    · exact Or.inl ((prioritise_present_perm sh w hw).mem_iff.mp h)
    · rw [prioritise_absent sh w hw] at h
      rcases List.mem_cons.mp h with rfl | h
      · exact Or.inr rfl
      · exact Or.inl h

theorem prioritise_nodup (sh : List Id) (working : Option Id) (h : sh.Nodup) :
    (prioritise sh working).Nodup := by
  cases working with
  | none => exact h
  | some w =>
    by_cases hw : w ∈ sh
    · exact (prioritise_present_perm sh w hw).nodup_iff.mpr h
    · rw [prioritise_absent sh w hw]; exact List.nodup_cons.mpr ⟨hw, h⟩

/-- every configured id is still in the order (nothing is dropped by the prioritisation). -/
theorem mem_prioritise (sh : List Id) (working : Option Id) (a : Id) (h : a ∈ sh) :
    a ∈ prioritise sh working := by
  cases working with
  | none => exact h
  | some w =>
    by_cases hw : w ∈ sh
    · exact (prioritise_present_perm sh w hw).mem_iff.mpr h
    · rw [prioritise_absent sh w hw]; exact List.mem_cons_of_mem _ h

end Prioritise

/-! ### the loop -/

theorem loop_attempts_prefix (d : Nat → Bool) (hs : Nat → Id → Option Id) (w : Option Id) (k : Nat)
    (l : List Id) : (loop d hs w k l).attempts <+: l := by
  induction l generalizing k with
  | nil => simp [loop]
  | cons a rest ih =>
    unfold loop
    cases hd : d k with
    | false => simp
    | true =>
      cases hh : hs k a with
      | some r => simp
      | none => simpa using ih (k + 1)

theorem failsBefore_shift (d : Nat → Bool) (hs : Nat → Id → Option Id) (k : Nat) (a : Id) (rest : List Id)
    (i : Nat) (hd : d k = true) (hh : hs k a = none) (h : FailsBefore d hs (k + 1) rest i) :
    FailsBefore d hs k (a :: rest) (i + 1) := by
  intro j hj
  cases j with
  | zero => exact ⟨by simpa using hd, a, by simp, by simpa using hh⟩
  | succ j =>
    obtain ⟨h1, b, h2, h3⟩ := h j (by omega)
    have e : k + (j + 1) = k + 1 + j := by omega
    exact ⟨by rw [e]; exact h1, b, by simpa using h2, by rw [e]; exact h3⟩

theorem failsBefore_unshift (d : Nat → Bool) (hs : Nat → Id → Option Id) (k : Nat) (a : Id) (rest : List Id)
    (i : Nat) (h : FailsBefore d hs k (a :: rest) (i + 1)) :
    d k = true ∧ hs k a = none ∧ FailsBefore d hs (k + 1) rest i := by
  obtain ⟨h1, b, h2, h3⟩ := h 0 (by omega)
  simp at h2 h1 h3
  subst h2
  refine ⟨h1, h3, ?_⟩
  intro j hj
  obtain ⟨g1, c, g2, g3⟩ := h (j + 1) (by omega)
  have e : k + (j + 1) = k + 1 + j := by omega
  exact ⟨by rw [← e]; exact g1, c, by simpa using g2, by rw [← e]; exact g3⟩

/-- **forward direction**: the first position `i` that either cannot be dialled or whose handshake
succeeds determines the whole outcome. -/
theorem loop_success_at (d : Nat → Bool) (hs : Nat → Id → Option Id) (w : Option Id) (k : Nat) (l : List Id)
    (i : Nat) (a r : Id) (hf : FailsBefore d hs k l i) (hd : d (k + i) = true) (ha : l[i]? = some a)
    (hh : hs (k + i) a = some r) :
    loop d hs w k l = ⟨.conn (k + i) a r, l.take (i + 1), some r⟩ := by
  induction i generalizing k l with
  | zero =>
    cases l with
    | nil => simp at ha
    | cons x rest =>
      simp at ha; subst ha
      simp at hd hh
      simp [loop, hd, hh]
  | succ i ih =>
    cases l with
    | nil => simp at ha
    | cons x rest =>
      obtain ⟨h1, h2, h3⟩ := failsBefore_unshift d hs k x rest i hf
      have e : k + (i + 1) = k + 1 + i := by omega
      have := ih (k + 1) rest h3 (by rw [← e]; exact hd) (by simpa using ha) (by rw [← e]; exact hh)
      simp [loop, h1, h2, this, e]

theorem loop_dialErr_at (d : Nat → Bool) (hs : Nat → Id → Option Id) (w : Option Id) (k : Nat) (l : List Id)
    (i : Nat) (hf : FailsBefore d hs k l i) (hi : i < l.length) (hd : d (k + i) = false) :
    loop d hs w k l = ⟨.dialErr (k + i), l.take i, w⟩ := by
  induction i generalizing k l with
  | zero =>
    cases l with
    | nil => simp at hi
    | cons x rest =>
      simp at hd
      simp [loop, hd]
  | succ i ih =>
    cases l with
    | nil => simp at hi
    | cons x rest =>
      obtain ⟨h1, h2, h3⟩ := failsBefore_unshift d hs k x rest i hf
      have e : k + (i + 1) = k + 1 + i := by omega
      have := ih (k + 1) rest h3 (by simpa using hi) (by rw [← e]; exact hd)
      simp [loop, h1, h2, this, e]

theorem loop_exhausted_at (d : Nat → Bool) (hs : Nat → Id → Option Id) (w : Option Id) (k : Nat) (l : List Id)
    (hf : FailsBefore d hs k l l.length) :
    loop d hs w k l = ⟨.exhausted (k + l.length), l, w⟩ := by
  induction l generalizing k with
  | nil => simp [loop]
  | cons x rest ih =>
    obtain ⟨h1, h2, h3⟩ := failsBefore_unshift d hs k x rest rest.length hf
    have := ih (k + 1) h3
    have e : k + 1 + rest.length = k + (rest.length + 1) := by omega
    simp [loop, h1, h2, this, e]

/-- **the loop always ends in exactly one of the three ways** (so the `_at` lemmas characterise it). -/
theorem loop_cases (d : Nat → Bool) (hs : Nat → Id → Option Id) (k : Nat) (l : List Id) :
    (∃ i a r, FailsBefore d hs k l i ∧ d (k + i) = true ∧ l[i]? = some a ∧ hs (k + i) a = some r) ∨
    (∃ i, FailsBefore d hs k l i ∧ i < l.length ∧ d (k + i) = false) ∨
    FailsBefore d hs k l l.length := by
  induction l generalizing k with
  | nil => right; right; intro j hj; simp at hj
  | cons x rest ih =>
    cases hd : d k with
    | false =>
      right; left
      exact ⟨0, fun j hj => by omega, by simp, by simpa using hd⟩
    | true =>
      cases hh : hs k x with
      | some r =>
        left
        exact ⟨0, x, r, fun j hj => by omega, by simpa using hd, by simp, by simpa using hh⟩
      | none =>
        rcases ih (k + 1) with ⟨i, a, r, h1, h2, h3, h4⟩ | ⟨i, h1, h2, h3⟩ | h1
        · left
          have e : k + (i + 1) = k + 1 + i := by omega
          exact ⟨i + 1, a, r, failsBefore_shift d hs k x rest i hd hh h1, by rw [e]; exact h2,
            by simpa using h3, by rw [e]; exact h4⟩
        · right; left
          have e : k + (i + 1) = k + 1 + i := by omega
          exact ⟨i + 1, failsBefore_shift d hs k x rest i hd hh h1, by simpa using h2, by rw [e]; exact h3⟩
        · right; right
          exact failsBefore_shift d hs k x rest rest.length hd hh h1

end Roller
