import UtlsVerif.Wire
/-!
# SessionCodec — `SessionState.Bytes` / `ParseSessionState` (ticket.go) and the certificate-list
format of `marshalCertificate` / `unmarshalCertificate` (handshake_messages.go), transcribed.

Certificates are opaque byte strings (`x509.Certificate.Raw`); whether one parses
(`globalCertCache.newCert` → `x509.ParseCertificate`) is the oracle `parses`.

`cryptobyte.Builder` reports an error when a child does not fit its length prefix (and `Bytes` sets
one for an empty verified chain); `encode` is the *layout* (truncating prefixes, like `Wire.vec*`) and
is only the real encoder's output on states satisfying the size part of `Sess.wf`.

`decode` returns `none` where the Go code returns an error. Loops `for !s.Empty() { read item }` are
`readAll rd` (fuel = number of remaining bytes: every reader consumes at least one byte). The Go code
interleaves reading an item with interpreting it; the model first splits a list into items, then
interprets them in order — the same function of the input, since any failure makes the whole result
`none` and the accumulated state (OCSP staple, SCT list) is threaded in the same order.
-/
namespace SessionCodec
open Wire

/-! ### uint64, lists of items -/

def u64 (n : Nat) : Bytes := u32 (n / 4294967296) ++ u32 n

def readU64 (bs : Bytes) : Option (Nat × Bytes) :=
  match readU32 bs with
  | none => none
  | some (hi, r) =>
    match readU32 r with
    | none => none
    | some (lo, r') => some (hi * 4294967296 + lo, r')

/-- `for !s.Empty() { rd(&s) }` with fuel. -/
def readList {α : Type} (rd : Bytes → Option (α × Bytes)) : Nat → Bytes → Option (List α)
  | _, [] => some []
  | 0, _ :: _ => none
  | n + 1, x :: xs =>
    match rd (x :: xs) with
    | none => none
    | some (a, r) =>
      match readList rd n r with
      | none => none
      | some as => some (a :: as)

def readAll {α : Type} (rd : Bytes → Option (α × Bytes)) (bs : Bytes) : Option (List α) :=
  readList rd bs.length bs

/-! ### the state -/

structure Sess where
  version : Nat
  isClient : Bool
  suite : Nat
  createdAt : Nat
  secret : Bytes
  extra : List Bytes
  ems : Bool
  earlyData : Bool
  /-- `peerCertificates` (Raw) -/
  certs : List Bytes
  /-- `ocspResponse`; `none` = nil -/
  ocsp : Option Bytes
  /-- `scts`; `none` = nil -/
  scts : Option (List Bytes)
  /-- `verifiedChains`, each *including* its first certificate -/
  chains : List (List Bytes)
  alpn : Bytes
  useBy : Nat
  ageAdd : Nat
  deriving DecidableEq, Repr

/-! ### `SessionState.Bytes` -/

def boolByte (x : Bool) : Bytes := u8 (if x then 1 else 0)

/-- `extensionStatusRequest` = 5, `statusTypeOCSP` = 1. -/
def ocspExt : Option Bytes → Bytes
  | none => []
  | some o => u16 5 ++ vec16 (u8 1 ++ vec24 o)

/-- `extensionSCT` = 18. -/
def sctExt : Option (List Bytes) → Bytes
  | none => []
  | some l => u16 18 ++ vec16 (vec16 (l.flatMap vec16))

def leafExts (s : Sess) : Bytes := ocspExt s.ocsp ++ sctExt s.scts

/-- (certificate, extension block) per entry: only the first entry carries extensions. -/
def entryItems (le : Bytes) : Bool → List Bytes → List (Bytes × Bytes)
  | _, [] => []
  | first, c :: cs => (c, if first then le else []) :: entryItems le false cs

def encEntry (e : Bytes × Bytes) : Bytes := vec24 e.1 ++ vec16 e.2

/-- body of `marshalCertificate`'s outer uint24 block. -/
def certListBody (s : Sess) : Bytes := (entryItems (leafExts s) true s.certs).flatMap encEntry

/-- one verified chain: the leaf is elided (`chain[1:]`). -/
def chainBody (ch : List Bytes) : Bytes := (ch.drop 1).flatMap vec24

def chainsBody (s : Sess) : Bytes := (s.chains.map chainBody).flatMap vec24

def extraBody (s : Sess) : Bytes := s.extra.flatMap vec24

def isTls13Client (s : Sess) : Bool := s.isClient && decide (0x0304 ≤ s.version)

def tailBytes (s : Sess) : Bytes :=
  (if s.earlyData then vec8 s.alpn else []) ++
  (if isTls13Client s then u64 s.useBy ++ u32 s.ageAdd else [])

def encode (s : Sess) : Bytes :=
  u16 s.version ++ (u8 (if s.isClient then 2 else 1) ++ (u16 s.suite ++ (u64 s.createdAt ++
  (vec8 s.secret ++ (vec24 (extraBody s) ++ (boolByte s.ems ++ (boolByte s.earlyData ++
  (vec24 (certListBody s) ++ (vec24 (chainsBody s) ++ tailBytes s)))))))))

/-! ### `unmarshalCertificate` -/

def readEntry (bs : Bytes) : Option ((Bytes × Bytes) × Bytes) :=
  match readVec24 bs with
  | none => none
  | some (c, r) =>
    match readVec16 r with
    | none => none
    | some (e, r') => some ((c, e), r')

def readExt (bs : Bytes) : Option ((Nat × Bytes) × Bytes) :=
  match readU16 bs with
  | none => none
  | some (t, r) =>
    match readVec16 r with
    | none => none
    | some (d, r') => some ((t, d), r')

/-- one SCT: `readUint16LengthPrefixed && len(sct) != 0`. -/
def readSct (bs : Bytes) : Option (Bytes × Bytes) :=
  match readVec16 bs with
  | none => none
  | some (x, r) => if x.isEmpty then none else some (x, r)

/-- the accumulated `Certificate.OCSPStaple` and `.SignedCertificateTimestamps`. -/
abbrev CertSt := Option Bytes × Option (List Bytes)

/-- the `switch extension` for a leaf extension, including the final `extData.Empty()` check. -/
def procExt (st : CertSt) (e : Nat × Bytes) : Option CertSt :=
  if e.1 = 5 then
    match readU8 e.2 with
    | none => none
    | some (ty, d) =>
      if ty ≠ 1 then none else
      match readVec24 d with
      | none => none
      | some (o, rest) => if o.isEmpty || !rest.isEmpty then none else some (some o, st.2)
  else if e.1 = 18 then
    match readVec16 e.2 with
    | none => none
    | some (l, rest) =>
      if l.isEmpty || !rest.isEmpty then none else
      match readAll readSct l with
      | none => none
      | some items => some (st.1, some (st.2.getD [] ++ items))
  else some st

/-- extensions of one entry; on entries after the first they are only skipped. -/
def procExts (leaf : Bool) : List (Nat × Bytes) → CertSt → Option CertSt
  | [], st => some st
  | e :: es, st =>
    if leaf then
      match procExt st e with
      | none => none
      | some st' => procExts leaf es st'
    else procExts leaf es st

def procEntries : Bool → List (Bytes × Bytes) → CertSt → Option CertSt
  | _, [], st => some st
  | first, e :: es, st =>
    match readAll readExt e.2 with
    | none => none
    | some exts =>
      match procExts first exts st with
      | none => none
      | some st' => procEntries false es st'

def unmarshalCertificate (bs : Bytes) : Option ((List Bytes × CertSt) × Bytes) :=
  match readVec24 bs with
  | none => none
  | some (body, r) =>
    match readAll readEntry body with
    | none => none
    | some entries =>
      match procEntries true entries (none, none) with
      | none => none
      | some st => some ((entries.map (·.1), st), r)

/-! ### `ParseSessionState` -/

def byteBool : Nat → Option Bool
  | 0 => some false
  | 1 => some true
  | _ => none

def decChain (parses : Bytes → Bool) (leaf body : Bytes) : Option (List Bytes) :=
  match readAll readVec24 body with
  | none => none
  | some cs => if cs.all parses then some (leaf :: cs) else none

def decChains (parses : Bytes → Bool) (certs : List Bytes) : List Bytes → Option (List (List Bytes))
  | [] => some []
  | body :: bodies =>
    match certs with
    | [] => none
    | leaf :: _ =>
      match decChain parses leaf body with
      | none => none
      | some ch =>
        match decChains parses certs bodies with
        | none => none
        | some chs => some (ch :: chs)

/-- everything up to and including the certificate list (the first `if` of `ParseSessionState`, the
`Extra` loop, the two flag switches, certificate parsing). -/
structure Head where
  version : Nat
  typ : Nat
  suite : Nat
  createdAt : Nat
  secret : Bytes
  extra : List Bytes
  ems : Bool
  earlyData : Bool
  certs : List Bytes
  ocsp : Option Bytes
  scts : Option (List Bytes)

def decHead (parses : Bytes → Bool) (bs : Bytes) : Option (Head × Bytes) :=
  match readU16 bs with
  | none => none
  | some (version, s) =>
  match readU8 s with
  | none => none
  | some (typ, s) =>
  if typ ≠ 1 ∧ typ ≠ 2 then none else
  match readU16 s with
  | none => none
  | some (suite, s) =>
  match readU64 s with
  | none => none
  | some (createdAt, s) =>
  match readVec8 s with
  | none => none
  | some (secret, s) =>
  match readVec24 s with
  | none => none
  | some (extraB, s) =>
  match readU8 s with
  | none => none
  | some (emsB, s) =>
  match readU8 s with
  | none => none
  | some (edB, s) =>
  if secret.isEmpty then none else
  match unmarshalCertificate s with
  | none => none
  | some ((certs, ocsp, scts), s) =>
  match readAll readVec24 extraB with
  | none => none
  | some extra =>
  match byteBool emsB with
  | none => none
  | some ems =>
  match byteBool edB with
  | none => none
  | some early =>
  if certs.all parses then
    some ({ version, typ, suite, createdAt, secret, extra, ems, earlyData := early, certs, ocsp, scts }, s)
  else none

/-- `if ss.EarlyData { readUint8LengthPrefixed(&s, &alpn) }`. -/
def readAlpn (early : Bool) (s : Bytes) : Option (Bytes × Bytes) :=
  if early then readVec8 s else some ([], s)

/-- the rest: verified chains, ALPN, client fields, end of input. -/
def decTail (parses : Bytes → Bool) (h : Head) (s : Bytes) : Option Sess :=
  match readVec24 s with
  | none => none
  | some (chainB, s) =>
  match readAll readVec24 chainB with
  | none => none
  | some bodies =>
  match decChains parses h.certs bodies with
  | none => none
  | some chains =>
  match readAlpn h.earlyData s with
  | none => none
  | some (alpn, s) =>
  let mk (useBy ageAdd : Nat) : Sess :=
    { version := h.version, isClient := h.typ == 2, suite := h.suite, createdAt := h.createdAt,
      secret := h.secret, extra := h.extra, ems := h.ems, earlyData := h.earlyData, certs := h.certs,
      ocsp := h.ocsp, scts := h.scts, chains, alpn, useBy, ageAdd }
  if h.typ ≠ 2 then (if s.isEmpty then some (mk 0 0) else none)
  else if h.certs.isEmpty then none
  else if h.version < 0x0304 then (if s.isEmpty then some (mk 0 0) else none)
  else
    match readU64 s with
    | none => none
    | some (useBy, s) =>
    match readU32 s with
    | none => none
    | some (ageAdd, s) => if s.isEmpty then some (mk useBy ageAdd) else none

def decode (parses : Bytes → Bool) (bs : Bytes) : Option Sess :=
  match decHead parses bs with
  | none => none
  | some (h, s) => decTail parses h s

/-! ### well-formed states (what round-trips) -/

def okOcsp : Option Bytes → Prop
  | none => True
  | some o => 0 < o.length ∧ o.length + 4 < 65536

def okScts : Option (List Bytes) → Prop
  | none => True
  | some l => l ≠ [] ∧ (∀ x ∈ l, 0 < x.length ∧ x.length < 65536) ∧ (l.flatMap vec16).length + 2 < 65536

instance : DecidablePred okOcsp := fun o => by cases o <;> unfold okOcsp <;> infer_instance
instance : DecidablePred okScts := fun o => by cases o <;> unfold okScts <;> infer_instance

/-- a verified chain starts with the session's leaf and its other certificates parse. -/
def okChain (parses : Bytes → Bool) (certs : List Bytes) (ch : List Bytes) : Prop :=
  ch ≠ [] ∧ ch.head? = certs.head? ∧ (∀ c ∈ ch.drop 1, c.length < 16777216 ∧ parses c = true) ∧
  (chainBody ch).length < 16777216

instance (parses : Bytes → Bool) (certs ch : List Bytes) : Decidable (okChain parses certs ch) := by
  unfold okChain; infer_instance

/-- the explicit well-formedness predicate of the round trip: every field fits its length prefix
(what `cryptobyte.Builder` demands), the secret is non-empty, flags/ALPN/client fields are only set where
they are encoded, a client session has a leaf, OCSP/SCT data — attached to the leaf — is non-empty when
present, every certificate parses, every verified chain is non-empty and starts with the leaf. -/
def Sess.wf (parses : Bytes → Bool) (s : Sess) : Prop :=
  s.version < 65536 ∧ s.suite < 65536 ∧ s.createdAt < 18446744073709551616 ∧
  0 < s.secret.length ∧ s.secret.length < 256 ∧
  (∀ e ∈ s.extra, e.length < 16777216) ∧ (extraBody s).length < 16777216 ∧
  (∀ c ∈ s.certs, c.length < 16777216 ∧ parses c = true) ∧
  (leafExts s).length < 65536 ∧ (certListBody s).length < 16777216 ∧
  okOcsp s.ocsp ∧ okScts s.scts ∧ (s.certs = [] → s.ocsp = none ∧ s.scts = none) ∧
  (∀ ch ∈ s.chains, okChain parses s.certs ch) ∧ (chainsBody s).length < 16777216 ∧
  s.alpn.length < 256 ∧ (s.earlyData = false → s.alpn = []) ∧
  s.useBy < 18446744073709551616 ∧ s.ageAdd < 4294967296 ∧
  (isTls13Client s = false → s.useBy = 0 ∧ s.ageAdd = 0) ∧
  (s.isClient = true → s.certs ≠ [])

instance (parses : Bytes → Bool) (s : Sess) : Decidable (s.wf parses) := by
  unfold Sess.wf; infer_instance

end SessionCodec
