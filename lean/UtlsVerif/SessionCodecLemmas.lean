import UtlsVerif.SessionCodec
/-! Lemmas for the round trip `decode (encode s) = some s` of `SessionCodec`. -/
namespace SessionCodec
open Wire

theorem readU64_u64 (n : Nat) (r : Bytes) :
    readU64 (u64 n ++ r) = some (n % 18446744073709551616, r) := by
  unfold readU64 u64
  rw [List.append_assoc, readU32_u32]
  simp only [readU32_u32]
  congr 2
  omega

theorem readList_nil {α : Type} (rd : Bytes → Option (α × Bytes)) (n : Nat) : readList rd n [] = some [] := by
  cases n <;> rfl

theorem readAll_nil {α : Type} (rd : Bytes → Option (α × Bytes)) : readAll rd [] = some [] := rfl

theorem readList_flatMap {α : Type} (rd : Bytes → Option (α × Bytes)) (enc : α → Bytes) (xs : List α)
    (hrd : ∀ x ∈ xs, ∀ r, rd (enc x ++ r) = some (x, r)) (hne : ∀ x ∈ xs, enc x ≠ []) :
    ∀ fuel, xs.length ≤ fuel → readList rd fuel (xs.flatMap enc) = some xs := by
  induction xs with
  | nil => intro fuel _; exact readList_nil rd fuel
  | cons x xs ih =>
    intro fuel hf
    have hx := hrd x (by simp)
    have hnx := hne x (by simp)
    obtain ⟨n, rfl⟩ : ∃ n, fuel = n + 1 := ⟨fuel - 1, by simp at hf; omega⟩
    rw [List.flatMap_cons]
    cases hex : enc x with
    | nil => exact absurd hex hnx
    | cons y ys =>
      have h1 : rd (y :: (ys ++ List.flatMap enc xs)) = some (x, List.flatMap enc xs) := by
        rw [← List.cons_append, ← hex]; exact hx _
      have h2 := ih (fun z hz => hrd z (by simp [hz])) (fun z hz => hne z (by simp [hz])) n
        (by simp at hf; omega)
      rw [List.cons_append, readList, h1]
      simp only [h2]

theorem length_le_flatMap {α : Type} (enc : α → Bytes) (xs : List α) (hne : ∀ x ∈ xs, enc x ≠ []) :
    xs.length ≤ (xs.flatMap enc).length := by
  induction xs with
  | nil => simp
  | cons x xs ih =>
    have hnx := hne x (by simp)
    have := ih (fun z hz => hne z (by simp [hz]))
    have h1 : 0 < (enc x).length := List.length_pos_iff.mpr hnx
    simp only [List.flatMap_cons, List.length_append, List.length_cons]
    omega

theorem readAll_flatMap {α : Type} (rd : Bytes → Option (α × Bytes)) (enc : α → Bytes) (xs : List α)
    (hrd : ∀ x ∈ xs, ∀ r, rd (enc x ++ r) = some (x, r)) (hne : ∀ x ∈ xs, enc x ≠ []) :
    readAll rd (xs.flatMap enc) = some xs :=
  readList_flatMap rd enc xs hrd hne _ (length_le_flatMap enc xs hne)

theorem vec24_ne_nil (x : Bytes) : vec24 x ≠ [] := by
  intro h; have := congrArg List.length h; simp at this

theorem vec16_ne_nil (x : Bytes) : vec16 x ≠ [] := by
  intro h; have := congrArg List.length h; simp at this

theorem readAll_vec24s (xs : List Bytes) (h : ∀ x ∈ xs, x.length < 16777216) :
    readAll readVec24 (xs.flatMap vec24) = some xs :=
  readAll_flatMap readVec24 vec24 xs (fun x hx r => readVec24_vec24 x r (h x hx)) (fun x _ => vec24_ne_nil x)

theorem readSct_vec16 (x r : Bytes) (h0 : 0 < x.length) (h : x.length < 65536) :
    readSct (vec16 x ++ r) = some (x, r) := by
  unfold readSct
  rw [readVec16_vec16 x r h]
  have : x.isEmpty = false := by cases x <;> simp_all
  simp [this]

theorem readAll_scts (l : List Bytes) (h : ∀ x ∈ l, 0 < x.length ∧ x.length < 65536) :
    readAll readSct (l.flatMap vec16) = some l :=
  readAll_flatMap readSct vec16 l (fun x hx r => readSct_vec16 x r (h x hx).1 (h x hx).2)
    (fun x _ => vec16_ne_nil x)

/-! ### leaf extensions -/

def encExt (e : Nat × Bytes) : Bytes := u16 e.1 ++ vec16 e.2

def ocspItems : Option Bytes → List (Nat × Bytes)
  | none => []
  | some o => [(5, u8 1 ++ vec24 o)]

def sctItems : Option (List Bytes) → List (Nat × Bytes)
  | none => []
  | some l => [(18, vec16 (l.flatMap vec16))]

theorem leafExts_eq (s : Sess) : leafExts s = (ocspItems s.ocsp ++ sctItems s.scts).flatMap encExt := by
  unfold leafExts
  cases s.ocsp <;> cases s.scts <;> simp [ocspExt, sctExt, ocspItems, sctItems, encExt]

theorem readExt_encExt (e : Nat × Bytes) (r : Bytes) (h1 : e.1 < 65536) (h2 : e.2.length < 65536) :
    readExt (encExt e ++ r) = some (e, r) := by
  unfold readExt encExt
  rw [List.append_assoc, readU16_u16]
  simp only [readVec16_vec16 e.2 r h2, Nat.mod_eq_of_lt h1]

theorem encExt_ne_nil (e : Nat × Bytes) : encExt e ≠ [] := by
  intro h; have := congrArg List.length h; simp [encExt] at this

theorem extItems_sizes (oc : Option Bytes) (sc : Option (List Bytes)) (ho : okOcsp oc) (hs : okScts sc)
    (e : Nat × Bytes) (he : e ∈ ocspItems oc ++ sctItems sc) : e.1 < 65536 ∧ e.2.length < 65536 := by
  rw [List.mem_append] at he
  rcases he with he | he
  · cases oc with
    | none => simp [ocspItems] at he
    | some o =>
      simp only [ocspItems, List.mem_singleton] at he
      subst he
      simp only [okOcsp] at ho
      simp [u8]; omega
  · cases sc with
    | none => simp [sctItems] at he
    | some l =>
      simp only [sctItems, List.mem_singleton] at he
      subst he
      simp only [okScts] at hs
      refine ⟨by show 18 < 65536; omega, ?_⟩
      show (vec16 _).length < 65536
      rw [vec16_length]; omega

theorem readAll_leafExts (s : Sess) (ho : okOcsp s.ocsp) (hs : okScts s.scts) :
    readAll readExt (leafExts s) = some (ocspItems s.ocsp ++ sctItems s.scts) := by
  rw [leafExts_eq]
  apply readAll_flatMap
  · intro e he r
    have := extItems_sizes s.ocsp s.scts ho hs e he
    exact readExt_encExt e r this.1 this.2
  · intro e _; exact encExt_ne_nil e

theorem procExt_ocsp (st : CertSt) (o : Bytes) (h0 : 0 < o.length) (h : o.length < 16777216) :
    procExt st (5, u8 1 ++ vec24 o) = some (some o, st.2) := by
  unfold procExt
  have hr : readVec24 (vec24 o) = some (o, []) := by
    have := readVec24_vec24 o [] h; simpa using this
  have he : o.isEmpty = false := by cases o <;> simp_all
  simp [u8, readU8, hr, he]

theorem procExt_sct (st : CertSt) (l : List Bytes) (hne : l ≠ [])
    (hl : ∀ x ∈ l, 0 < x.length ∧ x.length < 65536) (hsz : (l.flatMap vec16).length < 65536) :
    procExt st (18, vec16 (l.flatMap vec16)) = some (st.1, some (st.2.getD [] ++ l)) := by
  unfold procExt
  have hr : readVec16 (vec16 (l.flatMap vec16)) = some (l.flatMap vec16, []) := by
    have := readVec16_vec16 (l.flatMap vec16) [] hsz; simpa using this
  have he : (l.flatMap vec16).isEmpty = false := by
    cases l with
    | nil => exact absurd rfl hne
    | cons x xs => simp [vec16, u16]
  simp [hr, he, readAll_scts l hl]

theorem procExts_leaf (s : Sess) (ho : okOcsp s.ocsp) (hs : okScts s.scts) :
    procExts true (ocspItems s.ocsp ++ sctItems s.scts) (none, none) = some (s.ocsp, s.scts) := by
  cases hoc : s.ocsp with
  | none =>
    cases hsc : s.scts with
    | none => simp [ocspItems, sctItems, procExts]
    | some l =>
      rw [hsc] at hs
      simp only [okScts] at hs
      simp [ocspItems, sctItems, procExts, procExt_sct (none, none) l hs.1 hs.2.1 (by omega)]
  | some o =>
    rw [hoc] at ho
    simp only [okOcsp] at ho
    cases hsc : s.scts with
    | none => simp [ocspItems, sctItems, procExts, procExt_ocsp (none, none) o ho.1 (by omega)]
    | some l =>
      rw [hsc] at hs
      simp only [okScts] at hs
      simp [ocspItems, sctItems, procExts, procExt_ocsp (none, none) o ho.1 (by omega),
        procExt_sct (some o, none) l hs.1 hs.2.1 (by omega)]

/-! ### certificate entries -/

theorem readEntry_encEntry (e : Bytes × Bytes) (r : Bytes) (h1 : e.1.length < 16777216) (h2 : e.2.length < 65536) :
    readEntry (encEntry e ++ r) = some (e, r) := by
  unfold readEntry encEntry
  rw [List.append_assoc, readVec24_vec24 _ _ h1]
  simp only [readVec16_vec16 e.2 r h2]

theorem encEntry_ne_nil (e : Bytes × Bytes) : encEntry e ≠ [] := by
  intro h; have := congrArg List.length h; simp [encEntry] at this

theorem entryItems_mem (le : Bytes) (first : Bool) (cs : List Bytes) (e : Bytes × Bytes)
    (h : e ∈ entryItems le first cs) : e.1 ∈ cs ∧ (e.2 = le ∨ e.2 = []) := by
  induction cs generalizing first with
  | nil => simp [entryItems] at h
  | cons c cs ih =>
    simp only [entryItems, List.mem_cons] at h
    rcases h with h | h
    · subst h; cases first <;> simp
    · have := ih false h; exact ⟨by simp [this.1], this.2⟩

theorem entryItems_fst (le : Bytes) (first : Bool) (cs : List Bytes) :
    (entryItems le first cs).map (·.1) = cs := by
  induction cs generalizing first with
  | nil => rfl
  | cons c cs ih => simp [entryItems, ih]

theorem readAll_entries (le : Bytes) (first : Bool) (cs : List Bytes)
    (hc : ∀ c ∈ cs, c.length < 16777216) (hle : le.length < 65536) :
    readAll readEntry ((entryItems le first cs).flatMap encEntry) = some (entryItems le first cs) := by
  apply readAll_flatMap
  · intro e he r
    have := entryItems_mem le first cs e he
    apply readEntry_encEntry
    · exact hc _ this.1
    · rcases this.2 with h | h <;> rw [h] <;> simp [hle]
  · intro e _; exact encEntry_ne_nil e

theorem procEntries_rest (le : Bytes) (cs : List Bytes) (st : CertSt) :
    procEntries false (entryItems le false cs) st = some st := by
  induction cs with
  | nil => rfl
  | cons c cs ih =>
    simp only [entryItems, procEntries]
    simp [readAll_nil, procExts, ih]

theorem procEntries_certs (s : Sess) (ho : okOcsp s.ocsp) (hs : okScts s.scts)
    (hnil : s.certs = [] → s.ocsp = none ∧ s.scts = none) :
    procEntries true (entryItems (leafExts s) true s.certs) (none, none) = some (s.ocsp, s.scts) := by
  cases hc : s.certs with
  | nil => have := hnil hc; simp [entryItems, procEntries, this.1, this.2]
  | cons c cs =>
    simp only [entryItems, procEntries]
    simp [readAll_leafExts s ho hs, procExts_leaf s ho hs, procEntries_rest]

theorem unmarshalCertificate_certList (s : Sess) (r : Bytes)
    (hc : ∀ c ∈ s.certs, c.length < 16777216) (hle : (leafExts s).length < 65536)
    (hsz : (certListBody s).length < 16777216) (ho : okOcsp s.ocsp) (hs : okScts s.scts)
    (hnil : s.certs = [] → s.ocsp = none ∧ s.scts = none) :
    unmarshalCertificate (vec24 (certListBody s) ++ r) = some ((s.certs, s.ocsp, s.scts), r) := by
  unfold unmarshalCertificate
  rw [readVec24_vec24 _ _ hsz]
  simp only [certListBody, readAll_entries (leafExts s) true s.certs hc hle,
    procEntries_certs s ho hs hnil, entryItems_fst]

/-! ### verified chains -/

theorem decChains_chains (parses : Bytes → Bool) (certs : List Bytes) (chains : List (List Bytes))
    (h : ∀ ch ∈ chains, okChain parses certs ch) :
    decChains parses certs (chains.map chainBody) = some chains := by
  induction chains with
  | nil => rfl
  | cons ch chs ih =>
    have hch := h ch (by simp)
    have ih' := ih (fun c hc => h c (by simp [hc]))
    obtain ⟨hne, hhead, hrest, _⟩ := hch
    cases ch with
    | nil => exact absurd rfl hne
    | cons l rest =>
      cases certs with
      | nil => simp at hhead
      | cons l' cs' =>
        have hll : l = l' := by simpa using hhead
        subst hll
        simp only [List.drop_one, List.tail_cons] at hrest
        have hall : rest.all parses = true := by
          rw [List.all_eq_true]; intro c hc; exact (hrest c hc).2
        have hd : decChain parses l (chainBody (l :: rest)) = some (l :: rest) := by
          simp only [decChain, chainBody, List.drop_one, List.tail_cons,
            readAll_vec24s rest (fun c hc => (hrest c hc).1), hall, if_true]
        rw [List.map_cons]
        simp only [decChains, hd, ih']

end SessionCodec
