import UtlsVerif.SessionCodecLemmas
/-! The round trip `decode (encode s) = some s` of `SessionCodec`, assembled. -/
namespace SessionCodec
open Wire

def headOf (s : Sess) : Head :=
  { version := s.version, typ := if s.isClient then 2 else 1, suite := s.suite, createdAt := s.createdAt,
    secret := s.secret, extra := s.extra, ems := s.ems, earlyData := s.earlyData, certs := s.certs,
    ocsp := s.ocsp, scts := s.scts }

theorem readU8_typ (c : Bool) (r : Bytes) :
    readU8 (u8 (if c then 2 else 1) ++ r) = some ((if c then 2 else 1), r) := by
  cases c <;> rfl

theorem readU8_boolByte (c : Bool) (r : Bytes) :
    readU8 (boolByte c ++ r) = some ((if c then 1 else 0), r) := by
  cases c <;> rfl

theorem byteBool_ite (c : Bool) : byteBool (if c then 1 else 0) = some c := by
  cases c <;> rfl

theorem typ_ok (c : Bool) : ¬ ((if c then 2 else 1) ≠ 1 ∧ (if c then 2 else 1) ≠ 2) := by
  cases c <;> simp

theorem decHead_encode (parses : Bytes → Bool) (s : Sess) (h : s.wf parses) :
    decHead parses (encode s) = some (headOf s, vec24 (chainsBody s) ++ tailBytes s) := by
  obtain ⟨hv, hsu, hca, hs0, hs1, hex, hexb, hcs, hle, hcl, hoc, hsc, hnil, -, -, -, -, -, -, -, -⟩ := h
  have hsec : s.secret.isEmpty = false := by
    cases hh : s.secret with
    | nil => simp [hh] at hs0
    | cons _ _ => rfl
  have hall : s.certs.all parses = true := by
    rw [List.all_eq_true]; intro c hc; exact (hcs c hc).2
  have hexr : readAll readVec24 (extraBody s) = some s.extra := readAll_vec24s s.extra hex
  unfold decHead encode
  rw [readU16_u16]
  simp only [readU8_typ, typ_ok, if_false, readU16_u16, readU64_u64, readVec8_vec8 _ _ hs1,
    readVec24_vec24 _ _ hexb, readU8_boolByte, hsec, Bool.false_eq_true,
    unmarshalCertificate_certList s _ (fun c hc => (hcs c hc).1) hle hcl hoc hsc hnil,
    hexr, byteBool_ite, hall, if_true,
    Nat.mod_eq_of_lt hv, Nat.mod_eq_of_lt hsu, Nat.mod_eq_of_lt hca, headOf]


theorem typ_beq (c : Bool) : ((if c = true then 2 else 1 : Nat) == 2) = c := by
  cases c <;> rfl

def clientTail (s : Sess) : Bytes := if isTls13Client s then u64 s.useBy ++ u32 s.ageAdd else []

theorem decTail_encode (parses : Bytes → Bool) (s : Sess) (h : s.wf parses) :
    decTail parses (headOf s) (vec24 (chainsBody s) ++ tailBytes s) = some s := by
  obtain ⟨-, -, -, -, -, -, -, -, -, -, -, -, -, hch, hchb, hal, hal0, hub, haa, h13, hcli⟩ := h
  have hbodies : readAll readVec24 (chainsBody s) = some (s.chains.map chainBody) := by
    apply readAll_vec24s
    intro b hb
    obtain ⟨ch, hc, rfl⟩ := List.mem_map.mp hb
    exact (hch ch hc).2.2.2
  have hrec : ∀ (a : Bytes) (u g : Nat), a = s.alpn → u = s.useBy → g = s.ageAdd →
      ({ version := s.version, isClient := s.isClient, suite := s.suite, createdAt := s.createdAt,
         secret := s.secret, extra := s.extra, ems := s.ems, earlyData := s.earlyData, certs := s.certs,
         ocsp := s.ocsp, scts := s.scts, chains := s.chains, alpn := a, useBy := u, ageAdd := g } : Sess) = s := by
    intro a u g ha hu hg; subst ha hu hg; rfl
  have e1 : readAlpn s.earlyData (tailBytes s) = some (s.alpn, clientTail s) := by
    unfold readAlpn
    by_cases hed : s.earlyData = true
    · rw [if_pos hed]; unfold tailBytes clientTail; rw [if_pos hed, readVec8_vec8 _ _ hal]
    · rw [if_neg hed]; unfold tailBytes clientTail
      rw [if_neg hed, hal0 (by simpa using hed)]; rfl
  unfold decTail
  rw [readVec24_vec24 _ _ hchb]
  simp only [hbodies, headOf, decChains_chains parses s.certs s.chains hch, e1, typ_beq]
  by_cases hic : s.isClient = true
  · have hce : s.certs.isEmpty = false := by
      have := hcli hic
      cases hcs : s.certs with
      | nil => exact absurd hcs this
      | cons _ _ => rfl
    simp only [hic, if_true, ne_eq, not_true_eq_false, if_false, hce, Bool.false_eq_true]
    by_cases hv : s.version < 772
    · have ht : isTls13Client s = false := by simp [isTls13Client]; omega
      have hz := h13 ht
      simp only [hv, if_true, clientTail, ht, Bool.false_eq_true, if_false, List.isEmpty_nil]
      have := hrec s.alpn 0 0 rfl hz.1.symm hz.2.symm
      rw [hic] at this
      exact congrArg some this
    · have ht : isTls13Client s = true := by simp [isTls13Client, hic]; omega
      have h32 : readU32 (u32 s.ageAdd) = some (s.ageAdd % 4294967296, []) := by
        have := readU32_u32 s.ageAdd []; simpa using this
      simp only [hv, if_false, clientTail, ht, if_true, readU64_u64, h32, List.isEmpty_nil,
        Nat.mod_eq_of_lt hub, Nat.mod_eq_of_lt haa]
      have := hrec s.alpn s.useBy s.ageAdd rfl rfl rfl
      rw [hic] at this
      exact congrArg some this
  · have hic' : s.isClient = false := by simpa using hic
    have ht : isTls13Client s = false := by simp [isTls13Client, hic']
    have hz := h13 ht
    simp only [hic', Bool.false_eq_true, if_false, ne_eq, if_true,
      clientTail, ht, List.isEmpty_nil]
    have := hrec s.alpn 0 0 rfl hz.1.symm hz.2.symm
    rw [hic'] at this
    exact congrArg some this

theorem decode_encode (parses : Bytes → Bool) (s : Sess) (h : s.wf parses) :
    decode parses (encode s) = some s := by
  unfold decode
  rw [decHead_encode parses s h]
  exact decTail_encode parses s h

end SessionCodec
