import UtlsVerif.Wire
import UtlsVerif.Ext
/-!
# SessionCtl — the `sessionController` call protocol of `UConn` (u_session_controller.go, u_conn.go)

A transcription of the session-injection API as a transition system over one `UConn`:

* `setSessionCache`, `SetSessionTicketExtension` / `SetSessionState` (→ `overrideSessionTicketExt`),
  `SetPskExtension` (→ `overridePskExt`), `BuildHandshakeStateWithoutSession`, `BuildHandshakeState`,
  `Handshake` (→ `buildHandshakeState(true)` then the session part of `clientHandshake`);
* inside a build: `applyPresetByID`/`ApplyPreset` (fresh hello, key-share key bookkeeping,
  `syncSessionExts`), `ApplyConfig`, `uLoadSession` (`shouldLoadSession`, `utlsAboutToLoadSession`,
  `loadSession` with its enter/return tracker checks, `initSessionTicketExt`, `initPskExt`,
  `setSessionTicketToUConn`, `setPskToUConn`), `MarshalClientHello` (what the session extensions
  emit), `uApplyPatch`, `finalCheck`.

Every `uAssert` / `panic` site of the code is an explicit outcome `panic cls site`; `cls` is
`assertion` for `uAssert` and the internal `assertControllerState` callers, `documented` for the
user-facing panics (`assertNotLocked`, `assertHelloNotBuilt`, `assertCanSkip`, the
`overrideExtension` state check).

Tickets, identities and session pointers are *symbolic* (`Src`): the machine never looks inside a
ticket, it only copies it, so the control state is finite. `render` turns the symbolic hello into
the bytes `SessionTicketExtension.Read` / `UtlsPreSharedKeyExtension.Read` emit (shared `Ext`
model) for arbitrary ticket bytes.

What `loadSession` finds in the cache is an oracle argument (`LoadRes`) of the build / handshake
operation; `Handshake` is terminal (nothing is modelled after it).
-/
namespace SessionCtl
open Wire

inductive CState where
  | noSession | ticketInit | ticketAllSet | pskInit | pskAllSet
  deriving DecidableEq, Repr

/-- numeric value of `sessionControllerState`. -/
def CState.toNat : CState → Nat
  | .noSession => 0 | .ticketInit => 1 | .ticketAllSet => 2 | .pskInit => 3 | .pskAllSet => 4

inductive Tracker where
  | never | about | byULoad | byGo
  deriving DecidableEq, Repr

def Tracker.toNat : Tracker → Nat
  | .never => 0 | .about => 1 | .byULoad => 2 | .byGo => 3

inductive Status where
  | notBuilt | byUtls | byGo
  deriving DecidableEq, Repr

def Status.toNat : Status → Nat
  | .notBuilt => 0 | .byUtls => 1 | .byGo => 2

inductive PCls where
  | documented | assertion
  deriving DecidableEq, Repr

/-- panic sites (one per message family of the code). -/
inductive Site where
  | locked | built | canskip | state            -- documented
  | finalcheck | sync | init | about | setticket | setpsk | binders | initguard | tracker | buildstatus
  deriving DecidableEq, Repr

inductive ErrCls where
  | disabled | noTicketSpec | noPskSpec
  deriving DecidableEq, Repr

inductive Outcome where
  | ok
  | err (e : ErrCls)
  | panic (c : PCls) (s : Site)
  deriving DecidableEq, Repr

def Outcome.isAssertion : Outcome → Bool
  | .panic .assertion _ => true
  | _ => false

/-- an error return or a documented panic: how the code reports a forbidden call. -/
def Outcome.isRefusal : Outcome → Bool
  | .err _ => true
  | .panic .documented _ => true
  | _ => false

/-- the known sessions a ticket / identity / `*SessionState` can come from: the TLS 1.2 session the
user injects, a forged TLS 1.2 session (`MakeClientSessionState`), the TLS 1.3 session the user
injects, the session the cache holds. -/
inductive Src where
  | user | forged | psk | cache
  deriving DecidableEq, Repr

/-- an extension object is the spec's own (`&SessionTicketExtension{}` of the parrot) or the user's. -/
inductive Ref where
  | spec | user
  deriving DecidableEq, Repr

/-- `SessionTicketExtension{Session, Ticket, Initialized}`; `ticket = none` is the empty ticket. -/
structure TExt where
  init : Bool
  sess : Option Src
  ticket : Option Src
  deriving DecidableEq, Repr

/-- `UtlsPreSharedKeyExtension`: initialised iff `Session != nil`; one identity. -/
structure PExt where
  sess : Option Src
  id : Option Src
  deriving DecidableEq, Repr

/-- what `loadSession` finds in the cache once all its guards pass. -/
inductive LoadRes where
  | none | s12 | s13
  deriving DecidableEq, Repr

/-- argument of `SetSessionTicketExtension` / `SetSessionState`. `initNil` is `SetSessionState(nil)`:
an initialised extension with no ticket. -/
inductive TArg where
  | nil | uninit | real | forged | initNil
  deriving DecidableEq, Repr

inductive PArg where
  | nil | uninit | real
  deriving DecidableEq, Repr

inductive Op where
  | setCache
  | buildNoSession
  | build (lr : LoadRes)
  | handshake (lr : LoadRes)
  | setTicket (a : TArg)
  | setPsk (a : PArg)
  /-- a documented edit of a ClientHello field between builds (SetClientRandom, SetSNI, an ALPN /
  extension / session-id change): it touches no field of the session protocol. -/
  | edit
  deriving DecidableEq, Repr

def TArg.ext : TArg → TExt
  | .nil => ⟨false, none, none⟩
  | .uninit => ⟨false, none, none⟩
  | .real => ⟨true, some .user, some .user⟩
  | .forged => ⟨true, some .forged, some .forged⟩
  | .initNil => ⟨true, none, none⟩

def PArg.ext : PArg → PExt
  | .nil => ⟨none, none⟩
  | .uninit => ⟨none, none⟩
  | .real => ⟨some .psk, some .psk⟩

/-- the part of the configuration the call protocol depends on. -/
structure Cfg where
  golang : Bool       -- ClientHelloID == HelloGolang
  custom : Bool       -- ClientHelloID == HelloCustom: the user applied the spec with ApplyPreset right after UClient
  specT : Bool        -- the spec contains a session_ticket extension
  specP : Bool        -- the spec contains a pre_shared_key extension (last)
  skipOnNil : Bool    -- uconn.skipResumptionOnNilExtension (true for predefined ids)
  disabled : Bool     -- Config.SessionTicketsDisabled
  deriving DecidableEq, Repr

/-- what one extension slot of a marshalled hello carries. -/
inductive Slot where
  | absent | empty | tok (s : Src)
  deriving DecidableEq, Repr

structure St where
  hasCache : Bool               -- Config.ClientSessionCache != nil
  state : CState
  locked : Bool
  tracker : Tracker
  calling : Bool
  status : Status
  tRef : Option Ref             -- sessionController.sessionTicketExt
  pRef : Option Ref             -- sessionController.pskExtension
  specT : TExt                  -- the spec's session ticket extension object
  userT : TExt                  -- the user's (latest) session ticket extension object
  specP : PExt
  userP : PExt
  lT : Option Ref               -- the session_ticket entry of uconn.Extensions
  lP : Option Ref               -- the pre_shared_key entry of uconn.Extensions
  hsSession : Option Src        -- HandshakeState.Session
  hsEarly : Option Src          -- HandshakeState.State13.EarlySecret (whose)
  helloTicket : Option Src      -- HandshakeState.Hello.SessionTicket
  helloPsk : Option Src         -- HandshakeState.Hello.PskIdentities
  raw : Option (Slot × Slot)    -- Hello.Raw: session_ticket slot, pre_shared_key slot; none = not marshalled
  helloTS : Bool                -- Hello.TicketSupported (decides the session_ticket extension of a crypto/tls-built hello)
  helloShares : Bool            -- Hello.KeyShares populated
  sharesFilled : Bool           -- the spec's key shares carry generated public keys
  keysHeld : Bool               -- State13.KeyShareKeys holds the private keys of those shares
  hsDone : Bool                 -- Handshake reached clientHandshake's write of the hello
  binderFresh : Bool            -- the binder in Hello.Raw was computed over exactly the bytes of Hello.Raw
  deriving DecidableEq, Repr

def St.init (hasCache : Bool) : St :=
  { hasCache := hasCache, state := .noSession, locked := false, tracker := .never, calling := false,
    status := .notBuilt, tRef := none, pRef := none, specT := ⟨false, none, none⟩, userT := ⟨false, none, none⟩,
    specP := ⟨none, none⟩, userP := ⟨none, none⟩, lT := none, lP := none, hsSession := none, hsEarly := none,
    helloTicket := none, helloPsk := none, raw := none, helloTS := false, helloShares := false,
    sharesFilled := false, keysHeld := false, hsDone := false, binderFresh := false }

def St.tObj (s : St) : Ref → TExt
  | .spec => s.specT
  | .user => s.userT

def St.pObj (s : St) : Ref → PExt
  | .spec => s.specP
  | .user => s.userP

def St.setTObj (s : St) (r : Ref) (e : TExt) : St :=
  match r with
  | .spec => { s with specT := e }
  | .user => { s with userT := e }

def St.setPObj (s : St) (r : Ref) (e : PExt) : St :=
  match r with
  | .spec => { s with specP := e }
  | .user => { s with userP := e }

/-- a step result: the state, and `some o` when the call left through an error return or a panic. -/
abbrev R := St × Option Outcome

def okR (s : St) : R := (s, none)
def failR (s : St) (o : Outcome) : R := (s, some o)

def R.andThen (r : R) (f : St → R) : R :=
  match r with
  | (s, none) => f s
  | (s, some o) => (s, some o)

/-- `uAssert`: an internal assertion. -/
def uAssert (c : Bool) (site : Site) (s : St) : R :=
  if c then okR s else failR s (.panic .assertion site)

/-- a user-facing `panic(fmt.Sprintf(...))`. -/
def docAssert (c : Bool) (site : Site) (s : St) : R :=
  if c then okR s else failR s (.panic .documented site)

/-! ## setters -/

/-- `overrideSessionTicketExt` = `overrideExtension(ext, s.sessionTicketExt = ext, SessionTicketExtInitialized)`. -/
def overrideTicket (e : TExt) (s : St) : R :=
  (docAssert (!s.locked) .locked s).andThen fun s =>
  (docAssert (s.state == .noSession) .state s).andThen fun s =>
  let s := { s with tRef := some .user, userT := e }
  okR (if e.init then { s with state := .ticketInit } else s)

def overridePsk (e : PExt) (s : St) : R :=
  (docAssert (!s.locked) .locked s).andThen fun s =>
  (docAssert (s.state == .noSession) .state s).andThen fun s =>
  let s := { s with pRef := some .user, userP := e }
  okR (if e.sess.isSome then { s with state := .pskInit } else s)

/-- `SetSessionTicketExtension` (and `SetSessionState`, which wraps it). -/
def setTicketOp (cfg : Cfg) (a : TArg) (s : St) : R :=
  if cfg.disabled || !s.hasCache then failR s (.err .disabled)
  else match a with
    | .nil => okR s
    | a => overrideTicket a.ext s

/-- `SetPskExtension`. -/
def setPskOp (cfg : Cfg) (a : PArg) (s : St) : R :=
  if cfg.disabled || !s.hasCache then failR s (.err .disabled)
  else match a with
    | .nil => okR s
    | a => overridePsk a.ext { s with helloTS := true }

/-! ## pieces of `buildHandshakeState` -/

/-- `syncSessionExts`, after `uconn.Extensions` was refilled from the spec. -/
def syncSessionExts (s : St) : R :=
  (uAssert (s.status == .notBuilt) .sync s).andThen fun s =>
  (docAssert (!s.locked) .locked s).andThen fun s =>
  (docAssert (s.status == .notBuilt) .built s).andThen fun s =>
  (uAssert (s.state == .noSession || s.state == .ticketInit || s.state == .pskInit) .sync s).andThen fun s =>
  -- the loop over uconn.Extensions: adopt the spec's extension or replace it with the owned one
  let s := match s.lT with
    | none => s
    | some l => match s.tRef with
      | none => { s with tRef := some l }
      | some r => { s with lT := some r }
  let s := match s.lP with
    | none => s
    | some l => match s.pRef with
      | none => { s with pRef := some l }
      | some r => { s with lP := some r }
  (if s.lT.isNone then
      if s.state == .ticketInit then failR s (.err .noTicketSpec)
      else okR { s with tRef := none, hsSession := none, helloTicket := none }
    else okR s).andThen fun s =>
  if s.lP.isNone then
    if s.state == .pskInit then failR s (.err .noPskSpec)
    else okR { s with pRef := none, hsEarly := none, hsSession := none, helloPsk := none }
  else okR s

/-- `applyPresetByID` → `ApplyPreset(spec)`: a fresh hello, the extension list of the spec, key
shares generated only where the spec's share is still empty, and (repaired code) the existing
private keys kept. -/
def applyPreset (cfg : Cfg) (s : St) : R :=
  let s := { s with helloTicket := none, helloPsk := none, raw := none, helloTS := false, helloShares := false }
  let s := { s with lT := if cfg.specT then some .spec else none, lP := if cfg.specP then some .spec else none }
  let s := if s.sharesFilled then s else { s with sharesFilled := true, keysHeld := true }
  syncSessionExts s

/-- `ApplyConfig`: every extension's `writeToUConn` (only the key shares matter here). -/
def applyConfig (s : St) : St :=
  { s with helloShares := true, helloTS := s.helloTS || s.lT.isSome || s.lP.isSome }

/-- `(*Conn).loadSession` as seen by the controller: `onEnterLoadSessionCheck`, the cache lookup
(oracle `lr`), `onLoadSessionReturn`. -/
def loadSession (cfg : Cfg) (lr : LoadRes) (s : St) : R × LoadRes :=
  if s.locked then (failR s (.panic .assertion .tracker), .none)
  else match s.tracker with
    | .byULoad => (failR s (.panic .assertion .tracker), .none)
    | .byGo => (failR s (.panic .assertion .tracker), .none)
    | tr =>
      let res := if cfg.disabled || !s.hasCache then LoadRes.none else lr
      (okR { s with tracker := if tr == .never then .byGo else .byULoad, calling := false }, res)

def setSessionTicketToUConn (s : St) : R :=
  (uAssert (s.tRef.isSome && s.state == .ticketInit) .setticket s).andThen fun s =>
  match s.tRef with
  | none => okR s
  | some r =>
    let e := s.tObj r
    okR { s with hsSession := e.sess, helloTicket := e.ticket, state := .ticketAllSet }

def setPskToUConn (s : St) : R :=
  (uAssert (s.pRef.isSome && (s.state == .pskInit || s.state == .pskAllSet)) .setpsk s).andThen fun s =>
  match s.pRef with
  | none => okR s
  | some r =>
    let e := s.pObj r
    if s.state == .pskInit then
      okR { s with hsEarly := e.sess, hsSession := e.sess, helloPsk := e.id, state := .pskAllSet }
    else
      (uAssert (s.hsSession == e.sess && s.hsEarly == e.sess && (s.helloPsk.isNone || s.helloPsk == e.id)) .setpsk s).andThen fun s =>
      okR { s with state := .pskAllSet }

def initSessionTicketExt (cfg : Cfg) (s : St) : R :=
  (docAssert (!s.locked) .locked s).andThen fun s =>
  (docAssert (s.status == .notBuilt) .built s).andThen fun s =>
  (uAssert (s.state == .noSession) .init s).andThen fun s =>
  match s.tRef with
  | none => docAssert cfg.skipOnNil .canskip s
  | some r =>
    (uAssert (!(s.tObj r).init) .initguard s).andThen fun s =>
    okR { s.setTObj r ⟨true, some .cache, some .cache⟩ with state := .ticketInit }

def initPskExt (cfg : Cfg) (s : St) : R :=
  (docAssert (!s.locked) .locked s).andThen fun s =>
  (docAssert (s.status == .notBuilt) .built s).andThen fun s =>
  (uAssert (s.state == .noSession) .init s).andThen fun s =>
  match s.pRef with
  | none => docAssert cfg.skipOnNil .canskip s
  | some r =>
    (uAssert (!(s.pObj r).sess.isSome) .initguard s).andThen fun s =>
    okR { s.setPObj r ⟨some .cache, some .cache⟩ with state := .pskInit }

/-- `uLoadSession`. -/
def uLoadSession (cfg : Cfg) (lr : LoadRes) (s : St) : R :=
  if cfg.disabled || !s.hasCache then okR s
  else if (s.tRef.isNone && s.pRef.isNone) || s.status != .notBuilt then okR s   -- shouldReturn
  else if s.state == .ticketInit then setSessionTicketToUConn s                   -- shouldSetTicket
  else if s.state == .pskInit then setPskToUConn s                                -- shouldSetPsk
  else                                                                            -- shouldLoad
    (uAssert (s.state == .noSession && !s.locked) .about s).andThen fun s =>
    let s := { s with tracker := .about }
    let (r, res) := loadSession cfg lr s
    r.andThen fun s =>
    match res with
    | .none => okR s
    | .s12 =>
      -- (repaired code) the ticket is set only if the extension was initialised, i.e. not skipped
      (initSessionTicketExt cfg s).andThen fun s =>
      if s.state == .ticketInit then setSessionTicketToUConn s else okR s
    | .s13 => initPskExt cfg s

/-- what the session extensions of `uconn.Extensions` write into `Hello.Raw`, as a function of the
two list entries and the extension objects (`OmitEmptyPsk` set: a pre_shared_key extension without
a session writes nothing). -/
def slotsOf (lT lP : Option Ref) (specT userT : TExt) (specP userP : PExt) : Slot × Slot :=
  let t : Slot := match lT with
    | none => .absent
    | some r => match (match r with | .spec => specT | .user => userT).ticket with
      | none => .empty
      | some x => .tok x
  let p : Slot := match lP with
    | none => .absent
    | some r =>
      let e := match r with | .spec => specP | .user => userP
      match e.sess, e.id with
      | some _, some x => .tok x
      | _, _ => .absent
  (t, p)

def slots (s : St) : Slot × Slot := slotsOf s.lT s.lP s.specT s.userT s.specP s.userP

/-- `MarshalClientHello`: the session extensions write what they hold; a pre_shared_key extension
writes the binders it stored (placeholders, or those of an earlier hello): nothing says they belong
to the bytes just marshalled until `PatchBuiltHello` runs. -/
def marshal (s : St) : St := { s with raw := some (slots s), binderFresh := false }

/-- `uApplyPatch`: `shouldUpdateBinders` → `updateBinders` (`PatchBuiltHello` recomputes the binder
over the marshalled `Hello.Raw` and patches it in place, same length); `setPskToUConn`. -/
def uApplyPatch (s : St) : R :=
  if s.pRef.isSome && (s.state == .pskInit || s.state == .pskAllSet) then setPskToUConn { s with binderFresh := true } else okR s

def finalCheck (s : St) : R :=
  (uAssert (s.state == .pskAllSet || s.state == .ticketAllSet || s.state == .noSession) .finalcheck s).andThen fun s =>
  okR { s with locked := true }

/-- the part of `buildHandshakeState` after the preset: `ApplyConfig`, `uLoadSession`,
`MarshalClientHello`, `uApplyPatch`, `finalCheck`, `clientHelloBuildStatus = BuildByUtls`. -/
def buildTail (cfg : Cfg) (load : Bool) (lr : LoadRes) (s : St) : R :=
  let s := applyConfig s
  (if load then uLoadSession cfg lr s else okR s).andThen fun s =>
  let s := marshal s
  if load then
    (uApplyPatch s).andThen fun s =>
    (finalCheck s).andThen fun s =>
    okR { s with status := .byUtls }
  else okR s

/-- `buildHandshakeState(loadSession)`. -/
def buildHandshakeState (cfg : Cfg) (load : Bool) (lr : LoadRes) (s : St) : R :=
  if cfg.golang then
    if s.status == .byGo then okR s
    else
      (uAssert (s.status == .notBuilt) .buildstatus s).andThen fun s =>
      -- makeClientHello: a fresh default hello with its own key shares and private keys
      okR { s with helloTicket := none, helloPsk := none, raw := none, helloTS := false, helloShares := true,
                   sharesFilled := true, keysHeld := true, status := .byGo }
  else
    (uAssert (s.status == .byUtls || s.status == .notBuilt) .buildstatus s).andThen fun s =>
    -- applyPresetByID: nothing to apply for HelloCustom
    (if s.status == .notBuilt && !cfg.custom then applyPreset cfg s else okR s).andThen fun s =>
    buildTail cfg load lr s

/-- `Handshake`: `BuildHandshakeState`, then the session part of `clientHandshake` up to the write
of the hello. A locked controller supplies `HandshakeState.Session`; otherwise (HelloGolang) the
crypto/tls path calls `loadSession` itself and the hello carries what it found. -/
def handshake (cfg : Cfg) (lr : LoadRes) (s : St) : R :=
  (buildHandshakeState cfg true lr s).andThen fun s =>
  if s.locked then okR { s with hsDone := true }
  else
    let (r, res) := loadSession cfg lr s
    r.andThen fun s =>
    let usable := !(cfg.disabled || !s.hasCache)
    let s := match res with
      | .s12 => { s with hsSession := some .cache, helloTicket := some .cache }
      | .s13 => { s with hsSession := some .cache, hsEarly := some .cache, helloPsk := some .cache }
      | .none => s
    let ts := s.helloTS || usable      -- loadSession sets hello.ticketSupported when resumption is enabled
    let t : Slot := if !ts then .absent else if res == .s12 then .tok .cache else .empty
    let p : Slot := if res == .s13 then .tok .cache else .absent
    -- crypto/tls marshals its hello and computes the binders itself (`computeAndUpdatePSK`)
    okR { s with raw := some (t, p), helloTS := ts, hsDone := true, binderFresh := true }

/-- the connection as the API calls find it: a fresh `UClient`, or for HelloCustom a `UClient` on
which the user's spec was applied (`ApplyPreset` is then never repeated by a build). -/
def St.start (cfg : Cfg) (hasCache : Bool) : St :=
  if cfg.custom then (applyPreset cfg (St.init hasCache)).1 else St.init hasCache

/-- one API call. After `Handshake` nothing is modelled: further calls leave the state alone. -/
def stepR (cfg : Cfg) (s : St) (op : Op) : R :=
  if s.hsDone then okR s else
  match op with
  | .setCache => okR { s with hasCache := true, helloTS := true }
  | .buildNoSession => buildHandshakeState cfg false .none s
  | .build lr => buildHandshakeState cfg true lr s
  | .handshake lr => handshake cfg lr s
  | .setTicket a => setTicketOp cfg a s
  | .setPsk a => setPskOp cfg a s
  | .edit => okR s

def outcomeOf (r : R) : Outcome := r.2.getD .ok

def step (cfg : Cfg) (s : St) (op : Op) : St × Outcome :=
  let r := stepR cfg s op
  (r.1, outcomeOf r)

/-- run a call sequence, collecting the outcome of every call (the state after a refused call is
the state at the point of refusal, as after a recovered panic). -/
def run (cfg : Cfg) : St → List Op → St × List Outcome
  | s, [] => (s, [])
  | s, op :: ops =>
    let (s', o) := step cfg s op
    let (s'', os) := run cfg s' ops
    (s'', o :: os)

def final (cfg : Cfg) (s : St) (ops : List Op) : St := (run cfg s ops).1
def outcomes (cfg : Cfg) (s : St) (ops : List Op) : List Outcome := (run cfg s ops).2

/-! ## what the documentation allows -/

/-- what a user following the doc comments keeps track of. -/
structure Doc where
  cache : Bool            -- a usable session cache is configured
  built : Bool            -- BuildHandshakeState / Handshake was called
  done : Bool             -- Handshake was called
  injT : Option TArg      -- the initialised ticket extension supplied, if any
  injP : Option PArg      -- the initialised PSK extension supplied, if any
  fresh : Bool            -- a build ran after the injection
  deriving DecidableEq, Repr

def Doc.init (cfg : Cfg) (hasCache : Bool) : Doc :=
  ⟨hasCache && !cfg.disabled, false, false, none, none, false⟩

def Doc.injected (d : Doc) : Bool := d.injT.isSome || d.injP.isSome

def TArg.isInit : TArg → Bool
  | .real => true | .forged => true | .initNil => true | _ => false

def PArg.isInit : PArg → Bool
  | .real => true | _ => false

/-- `legalStep cfg d op = some d'`: the doc comments allow `op` at this point.
* nothing after `Handshake`;
* `SetSessionCache`, `BuildHandshakeStateWithoutSession`, `BuildHandshakeState`, `Handshake`, and edits
  of the other ClientHello fields ("all other fields can be modified"): any time;
* a setter needs a usable cache ("session is disabled" otherwise); a `nil` argument is a no-op;
* a non-nil extension only before `BuildHandshakeState` ("cannot be changed after calling
  BuildHandshakeState") and only while no initialised extension was supplied ("should not be
  altered more than once");
* an initialised extension only if the ClientHelloSpec has that extension and the id is a parrot
  (HelloGolang overwrites existing state);
* no extension at all once a HelloCustom spec has been applied (it is not synchronised with the
  controller again; that order is outside this model). -/
def legalStep (cfg : Cfg) (d : Doc) : Op → Option Doc
  | .setCache => if d.done then none else some { d with cache := d.cache || !cfg.disabled }
  | .buildNoSession => if d.done then none else some { d with fresh := d.injected }
  | .build _ => if d.done then none else some { d with built := true, fresh := d.injected }
  | .handshake _ => if d.done then none else some { d with built := true, done := true, fresh := d.injected }
  | .setTicket a =>
    if d.done || !d.cache then none
    else if a == .nil then some d
    else if d.built || d.injected || cfg.custom then none
    else if a.isInit then
      if cfg.specT && !cfg.golang then some { d with injT := some a, fresh := false } else none
    else some d
  | .setPsk a =>
    if d.done || !d.cache then none
    else if a == .nil then some d
    else if d.built || d.injected || cfg.custom then none
    else if a.isInit then
      if cfg.specP && !cfg.golang then some { d with injP := some a, fresh := false } else none
    else some d
  | .edit => if d.done then none else some d

def legalRun (cfg : Cfg) : Doc → List Op → Option Doc
  | d, [] => some d
  | d, op :: ops => match legalStep cfg d op with
    | none => none
    | some d' => legalRun cfg d' ops

/-- the call order is one the documentation allows, starting from a fresh `UClient`. -/
def Legal (cfg : Cfg) (hasCache : Bool) (ops : List Op) : Bool :=
  (legalRun cfg (Doc.init cfg hasCache) ops).isSome

/-! ## bytes -/

/-- the byte strings behind the symbolic sources. -/
structure Material where
  userTicket : Bytes
  forgedTicket : Bytes
  pskLabel : Bytes
  pskAge : Nat
  cacheTicket : Bytes
  cacheAge : Nat
  binder : Bytes          -- the (placeholder or patched) binder of the single identity

def Material.ticket (m : Material) : Src → Bytes
  | .user => m.userTicket | .forged => m.forgedTicket | .psk => m.pskLabel | .cache => m.cacheTicket

def Material.age (m : Material) : Src → Nat
  | .psk => m.pskAge | .cache => m.cacheAge | _ => 0

/-- the extension value a slot stands for. -/
def slotTicketExt (m : Material) : Slot → Option Ext.Ext
  | .absent => none
  | .empty => some (.sessionTicket [])
  | .tok s => some (.sessionTicket (m.ticket s))

def slotPskExt (m : Material) : Slot → Option Ext.Ext
  | .tok s => some (.psk false true true [(m.ticket s, m.age s)] [m.binder])
  | _ => none

/-- bytes `Read` writes for an extension given a buffer of exactly `Len()` bytes (as
`MarshalClientHelloNoECH` does). -/
def extBytes (e : Ext.Ext) : Bytes :=
  match Ext.read e (Ext.len e) with
  | .ok bs => bs
  | _ => []

/-- the session-related bytes of the marshalled hello: session_ticket extension, pre_shared_key extension. -/
def render (m : Material) (s : St) : Bytes × Bytes :=
  match s.raw with
  | none => ([], [])
  | some (t, p) => (((slotTicketExt m t).map extBytes).getD [], ((slotPskExt m p).map extBytes).getD [])

/-! ## the outcome of the handshake proper (negotiation is a parameter) -/

structure Neg where
  idMax13 : Bool          -- the hello offers TLS 1.3
  serverMax13 : Bool      -- the server accepts TLS 1.3
  nShares : Nat           -- non-GREASE key shares in the hello

def Neg.tls13 (n : Neg) : Bool := n.idMax13 && n.serverMax13

/-- TLS 1.3 needs the private key of the share the server answers (`processServerHello`'s
consistency check, else `alertInternalError`). -/
def hsCompletes (n : Neg) (s : St) : Bool := !(n.tls13 && n.nShares > 0 && !s.keysHeld)

/-- the server resumes iff the hello carries a ticket / identity it issued for the negotiated version
and the client holds the matching session. -/
def hsResumes (n : Neg) (s : St) : Bool :=
  match s.raw with
  | none => false
  | some (t, p) =>
    if n.tls13 then
      (p == .tok .psk && s.hsSession == some .psk) || (p == .tok .cache && s.hsSession == some .cache)
    else
      (t == .tok .user && s.hsSession == some .user) || (t == .tok .cache && s.hsSession == some .cache)

end SessionCtl
