import UtlsVerif.SessionCtlPreset
import UtlsVerif.SessionCtlLoad
import UtlsVerif.SessionCtlTail
import UtlsVerif.SessionCtlLocked
/-!
# SessionCtlBuild — specification of `buildHandshakeState` on a parrot / HelloCustom connection

A build on a locked connection changes no session field; a build on a not yet built hello goes
through the preset (unless HelloCustom) and the tail, and can only fail with the two
"specification doesn't contain one" errors or the documented `assertCanSkip` panic.
-/
namespace SessionCtl

set_option maxHeartbeats 1000000 in
theorem tail_mid_load (cfg : Cfg) (lr : LoadRes) (s : St) (h : mid cfg s = true) :
    (match buildTail cfg true lr s with
     | (s', none) => tailOk true s s'
     | (s', some o) => tailFail cfg s s' o) = true := by
  have hu := uLoadSession_post cfg lr (applyConfig s) (mid_applyConfig cfg s h)
  rw [buildTail_load_eq]
  generalize uLoadSession cfg lr (applyConfig s) = r at hu ⊢
  obtain ⟨s2, o2⟩ := r
  cases o2 with
  | some o =>
    simp only [R.andThen]
    simp only [sameFrame, sameObjs, applyConfig, Bool.and_eq_true, beq_iff_eq] at hu
    simp only [mid, Bool.and_eq_true, beq_iff_eq] at h
    simp [tailFail, sameObjs]
    simp_all
  | none =>
    simp only [R.andThen]
    have ha := loadedOk_afterLoad cfg (applyConfig s) s2 (mid_applyConfig cfg s h) hu
    have hf := finish_post (marshal s2) (afterLoad_marshal s2 ha)
    generalize finish (marshal s2) = r2 at hf ⊢
    obtain ⟨s3, o3⟩ := r2
    cases o3 with
    | some o => simp at hf
    | none =>
      simp only [loadedOk, sameFrame, sameObjs, applyConfig, Bool.and_eq_true, Bool.or_eq_true, beq_iff_eq] at hu
      simp only [finishedOk, sameObjs, marshal, Bool.and_eq_true, beq_iff_eq] at hf
      simp only [mid, Bool.and_eq_true, beq_iff_eq] at h
      cases hst : s.state
      case noSession =>
        simp only [hst, Bool.and_eq_true, Bool.or_eq_true, beq_iff_eq] at hu
        rcases hu with ⟨hfr, (h1 | h2) | h3⟩ <;> simp_all [tailOk, sameObjs, slots, freshObjs, usable, pskSynced]
      all_goals
        rcases htr : s.tRef with _ | _ | _ <;> rcases hpr : s.pRef with _ | _ | _ <;>
          simp_all [tailOk, sameObjs, slots, St.tObj, St.pObj, pskSynced]

theorem tail_mid (cfg : Cfg) (load : Bool) (lr : LoadRes) (s : St) (h : mid cfg s = true) :
    (match buildTail cfg load lr s with
     | (s', none) => tailOk load s s' = true
     | (s', some o) => tailFail cfg s s' o = true) := by
  cases load with
  | false =>
    obtain ⟨s', he, ht⟩ := tail_mid_noload cfg lr s h
    simp [he, ht]
  | true =>
    have := tail_mid_load cfg lr s h
    generalize buildTail cfg true lr s = r at this ⊢
    obtain ⟨s', o⟩ := r
    cases o <;> simpa using this

theorem build_parrot (cfg : Cfg) (load : Bool) (lr : LoadRes) (s : St) (hg : cfg.golang = false)
    (h : inv cfg s = true) (hd : s.hsDone = false) :
    (match buildHandshakeState cfg load lr s with
     | (s', none) => BuiltOk cfg load s s'
     | (s', some o) => BuiltFail cfg s s' o) := by
  have hinv := h
  simp only [inv, hg, Bool.and_eq_true, Bool.or_eq_true, beq_iff_eq] at hinv
  cases hst : s.status with
  | byGo => simp_all
  | byUtls =>
    have hl : s.locked = true := by simp_all
    have ht := tail_locked cfg load lr s hg h hl
    have he : buildHandshakeState cfg load lr s = buildTail cfg load lr s := by
      simp [buildHandshakeState, hg, hst, uAssert, okR, R.andThen]
    rw [he]
    generalize buildTail cfg load lr s = r at ht ⊢
    obtain ⟨s', o⟩ := r
    cases o with
    | some o => simp at ht
    | none =>
      have ht' : lockedSame cfg load s s' = true := by simpa [lockedSame] using ht
      show BuiltOk cfg load s s'
      exact Or.inl ⟨hl, ht'⟩
  | notBuilt =>
    have hm := inv_mid cfg s h hg hst hd
    cases hc : cfg.custom with
    | true =>
      have he : buildHandshakeState cfg load lr s = buildTail cfg load lr s := by
        simp [buildHandshakeState, hg, hst, hc, uAssert, okR, R.andThen]
      rw [he]
      have ht := tail_mid cfg load lr s hm
      generalize buildTail cfg load lr s = r at ht ⊢
      obtain ⟨s', o⟩ := r
      cases o with
      | none => exact Or.inr ⟨hst, s, ⟨hm, by simp [hc]⟩, ht⟩
      | some o => exact ⟨hst, Or.inr ⟨s, ⟨hm, by simp [hc]⟩, ht⟩⟩
    | false =>
      have he : buildHandshakeState cfg load lr s = (applyPreset cfg s).andThen (buildTail cfg load lr) := by
        simp [buildHandshakeState, hg, hst, hc, uAssert, okR, R.andThen]
      rw [he]
      have hp := applyPreset_spec cfg s hm
      generalize applyPreset cfg s = r1 at hp ⊢
      obtain ⟨s1, o1⟩ := r1
      cases o1 with
      | some o => exact ⟨hst, Or.inl ⟨hc, by simpa using hp⟩⟩
      | none =>
        have hp' : presetOk cfg s s1 = true := by simpa using hp
        have hm1 : mid cfg s1 = true := by
          have := hp'
          simp only [presetOk, Bool.and_eq_true] at this
          simp_all
        have ht := tail_mid cfg load lr s1 hm1
        simp only [R.andThen]
        generalize buildTail cfg load lr s1 = r at ht ⊢
        obtain ⟨s', o⟩ := r
        cases o with
        | none => exact Or.inr ⟨hst, s1, ⟨hm1, by simp [hc, hp']⟩, ht⟩
        | some o => exact ⟨hst, Or.inr ⟨s1, ⟨hm1, by simp [hc, hp']⟩, ht⟩⟩

theorem build_parrot_inv (cfg : Cfg) (load : Bool) (lr : LoadRes) (s : St) (hg : cfg.golang = false)
    (h : inv cfg s = true) (hd : s.hsDone = false) :
    inv cfg (buildHandshakeState cfg load lr s).1 = true
    ∧ ((buildHandshakeState cfg load lr s).2.getD .ok).isAssertion = false
    ∧ (buildHandshakeState cfg load lr s).1.hsDone = false
    ∧ ((buildHandshakeState cfg load lr s).2 = none → load = true → (buildHandshakeState cfg load lr s).1.locked = true) := by
  have hb := build_parrot cfg load lr s hg h hd
  generalize buildHandshakeState cfg load lr s = r at hb ⊢
  obtain ⟨s', o⟩ := r
  cases o with
  | none =>
    rcases hb with ⟨hl, hs⟩ | ⟨hst, s1, ⟨hm1, _⟩, ht⟩
    · simp only [lockedSame, sessionView, Bool.and_eq_true, beq_iff_eq] at hs
      simp_all [Outcome.isAssertion]
    · have hi := tailOk_inv cfg load s1 s' hg hm1 ht
      refine ⟨hi, by simp [Outcome.isAssertion], ?_, ?_⟩
      · simp only [tailOk, Bool.and_eq_true] at ht; simp_all
      · intro _ hload; subst hload; simp only [tailOk, Bool.and_eq_true] at ht; simp_all
  | some o =>
    rcases hb with ⟨hst, ⟨hc, hf⟩ | ⟨s1, ⟨hm1, _⟩, hf⟩⟩
    · have hm' : mid cfg s' = true := by
        have := hf; simp only [presetFail, Bool.and_eq_true] at this; simp_all
      refine ⟨mid_inv cfg s' hg hm', ?_, ?_, by simp⟩
      · simp only [presetFail, Bool.and_eq_true, Bool.or_eq_true, beq_iff_eq] at hf
        rcases hf with ⟨_, ⟨h1, _⟩ | ⟨h1, _⟩⟩ <;> simp_all [Outcome.isAssertion]
      · simp only [mid, Bool.and_eq_true] at hm'; simp_all
    · have := tailFail_inv cfg s1 s' o hg hm1 hf
      refine ⟨this.1, this.2, ?_, by simp⟩
      simp only [tailFail, Bool.and_eq_true] at hf; simp_all

/-- an injected extension whose kind the spec lacks makes every build return the documented error. -/
theorem build_spec_lacks (cfg : Cfg) (load : Bool) (lr : LoadRes) (s : St) (hg : cfg.golang = false) (hc : cfg.custom = false)
    (h : inv cfg s = true) (hd : s.hsDone = false) :
    (s.state = .ticketInit → cfg.specT = false → (buildHandshakeState cfg load lr s).2 = some (.err .noTicketSpec))
    ∧ (s.state = .pskInit → cfg.specP = false → (buildHandshakeState cfg load lr s).2 = some (.err .noPskSpec)) := by
  have hb := build_parrot cfg load lr s hg h hd
  have hinv := h
  simp only [inv, hg, Bool.and_eq_true, Bool.or_eq_true, beq_iff_eq] at hinv
  have noPreset : ∀ s1, PresetOf cfg s s1 →
      (s.state = .ticketInit → cfg.specT = false → False) ∧ (s.state = .pskInit → cfg.specP = false → False) := by
    intro s1 ⟨hm1, hp⟩
    simp only [hc, Bool.false_eq_true, if_false] at hp
    simp only [presetOk, mid, Bool.and_eq_true, Bool.or_eq_true, beq_iff_eq] at hp
    constructor
    · intro hst hT; rw [hst, hT] at hp; simp only [Bool.false_eq_true, if_false] at hp; grind
    · intro hst hP; rw [hst, hP] at hp; simp only [Bool.false_eq_true, if_false] at hp; grind
  generalize buildHandshakeState cfg load lr s = r at hb ⊢
  obtain ⟨s', o⟩ := r
  cases o with
  | none =>
    rcases hb with ⟨hl, _⟩ | ⟨_, s1, hp, _⟩
    · constructor <;> intro hst _ <;> simp_all
    · have := noPreset s1 hp
      exact ⟨fun a b => (this.1 a b).elim, fun a b => (this.2 a b).elim⟩
  | some o =>
    rcases hb with ⟨_, ⟨_, hf⟩ | ⟨s1, hp, _⟩⟩
    · simp only [presetFail, Bool.and_eq_true, Bool.or_eq_true, beq_iff_eq] at hf
      constructor <;> intro hst _ <;> simp_all
    · have := noPreset s1 hp
      exact ⟨fun a b => (this.1 a b).elim, fun a b => (this.2 a b).elim⟩

end SessionCtl
