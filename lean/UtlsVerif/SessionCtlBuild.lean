import UtlsVerif.SessionCtlTail
/-!
# SessionCtlBuild — invariants of the `SessionCtl` machine, part 3

Composition of the piece specifications into the specification of `buildHandshakeState` on a
parrot / HelloCustom connection (`build_parrot`): a build on a locked connection changes no session
field; a build on a not yet built hello goes through the preset (unless HelloCustom) and the tail,
and can only fail with the two "specification doesn't contain one" errors or the documented
`assertCanSkip` panic.
-/
namespace SessionCtl

/-- the state after the tail of a build that started in a `mid` state `s`. -/
def tailOk (load : Bool) (s s' : St) : Bool :=
  !s'.hsDone && s'.hasCache == s.hasCache && s'.tRef == s.tRef && s'.pRef == s.pRef && s'.lT == s.lT && s'.lP == s.lP
  && s'.sharesFilled == s.sharesFilled && s'.keysHeld == s.keysHeld && s'.raw == some (slots s')
  && (if load then
        s'.locked && s'.status == .byUtls
        && (match s.state with
            | .ticketInit =>
              s'.state == .ticketAllSet && sameObjs s s'
              && (match s.tRef with
                  | some r => s'.hsSession == (s.tObj r).sess && s'.helloTicket == (s.tObj r).ticket
                  | none => false)
            | .pskInit =>
              s'.state == .pskAllSet && sameObjs s s' && pskSynced s'
              && (match s.pRef with
                  | some r => s'.hsSession == (s.pObj r).sess && s'.hsEarly == (s.pObj r).sess && s'.helloPsk == (s.pObj r).id
                  | none => false)
            | _ => (s'.state == .noSession && sameObjs s s' && freshObjs s') || s'.state == .ticketAllSet
                    || (s'.state == .pskAllSet && pskSynced s'))
      else
        !s'.locked && s'.status == .notBuilt && s'.state == s.state && sameObjs s s' && s'.tracker == s.tracker
        && s'.hsSession == s.hsSession && s'.hsEarly == s.hsEarly && s'.helloTicket == s.helloTicket && s'.helloPsk == s.helloPsk)

theorem mid_applyConfig (cfg : Cfg) (s : St) (h : mid cfg s = true) : mid cfg (applyConfig s) = true := by
  simpa [mid, applyConfig, keysOk, usable, freshObjs] using h

theorem afterLoad_marshal (s : St) (h : afterLoad s = true) : afterLoad (marshal s) = true := by
  simpa [afterLoad, marshal, keysOk, pskSynced, freshObjs, St.pObj] using h

theorem tail_mid_noload (cfg : Cfg) (lr : LoadRes) (s : St) (h : mid cfg s = true) :
    ∃ s', buildTail cfg false lr s = (s', none) ∧ tailOk false s s' = true := by
  refine ⟨marshal (applyConfig s), ?_, ?_⟩
  · simp [buildTail, okR, R.andThen]
  · simp [tailOk, marshal, applyConfig, slots, sameObjs]
    simp [mid] at h
    simp_all


theorem buildTail_load_eq (cfg : Cfg) (lr : LoadRes) (s : St) :
    buildTail cfg true lr s = (uLoadSession cfg lr (applyConfig s)).andThen fun s => finish (marshal s) := rfl

/-- how a failed build tail leaves the state: only the documented `assertCanSkip` panic can happen. -/
def tailFail (cfg : Cfg) (s s' : St) (o : Outcome) : Bool :=
  o == .panic .documented .canskip && !cfg.skipOnNil && (s.tRef.isNone != s.pRef.isNone) && s.state == .noSession
  && s'.state == .noSession && s'.status == .notBuilt && !s'.locked && !s'.hsDone && s'.hasCache == s.hasCache && sameObjs s s'
  && s'.tRef == s.tRef && s'.pRef == s.pRef && s'.keysHeld == s.keysHeld && s'.sharesFilled == s.sharesFilled

set_option maxHeartbeats 1000000 in
theorem tail_mid_load (cfg : Cfg) (lr : LoadRes) (s : St) (h : mid cfg s = true) :
    (match buildTail cfg true lr s with
     | (s', none) => tailOk true s s'
     | (s', some o) => tailFail cfg s s' o) = true := by
  have hu := uLoadSession_post cfg lr (applyConfig s) (mid_applyConfig cfg s h)
  rw [buildTail_load_eq]
  generalize uLoadSession cfg lr (applyConfig s) = r at hu ⊢
  obtain ⟨s2, o2⟩ := r
  cases o2 with
  | some o =>
    simp only [R.andThen]
    simp only [sameFrame, sameObjs, applyConfig, Bool.and_eq_true, beq_iff_eq] at hu
    simp only [mid, Bool.and_eq_true, beq_iff_eq] at h
    simp [tailFail, sameObjs]
    simp_all
  | none =>
    simp only [R.andThen]
    have ha := loadedOk_afterLoad cfg (applyConfig s) s2 (mid_applyConfig cfg s h) hu
    have hf := finish_post (marshal s2) (afterLoad_marshal s2 ha)
    generalize finish (marshal s2) = r2 at hf ⊢
    obtain ⟨s3, o3⟩ := r2
    cases o3 with
    | some o => simp at hf
    | none =>
      simp only [loadedOk, sameFrame, sameObjs, applyConfig, Bool.and_eq_true, Bool.or_eq_true, beq_iff_eq] at hu
      simp only [finishedOk, sameObjs, marshal, Bool.and_eq_true, beq_iff_eq] at hf
      simp only [mid, Bool.and_eq_true, beq_iff_eq] at h
      cases hst : s.state
      case noSession =>
        simp only [hst, Bool.and_eq_true, Bool.or_eq_true, beq_iff_eq] at hu
        rcases hu with ⟨hfr, (h1 | h2) | h3⟩ <;> simp_all [tailOk, sameObjs, slots, freshObjs, usable, pskSynced]
      all_goals
        rcases htr : s.tRef with _ | _ | _ <;> rcases hpr : s.pRef with _ | _ | _ <;>
          simp_all [tailOk, sameObjs, slots, St.tObj, St.pObj, pskSynced]


/-! ## from the pieces to `buildHandshakeState` -/

theorem mid_inv (cfg : Cfg) (s : St) (hg : cfg.golang = false) (h : mid cfg s = true) : inv cfg s = true := by
  simp only [mid, Bool.and_eq_true, Bool.or_eq_true, beq_iff_eq] at h
  cases hst : s.state <;> simp_all [inv]

theorem tailOk_inv (cfg : Cfg) (load : Bool) (s s' : St) (hg : cfg.golang = false) (hm : mid cfg s = true)
    (ht : tailOk load s s' = true) : inv cfg s' = true := by
  simp only [mid, Bool.and_eq_true, Bool.or_eq_true, beq_iff_eq] at hm
  cases load <;> cases hst : s.state <;> simp_all [tailOk, inv, keysOk, usable, sameObjs]
  · simp_all [freshObjs]
  · rcases ht with ⟨_, _, (h1 | h2) | h3⟩ <;> simp_all [freshObjs]

theorem tailFail_inv (cfg : Cfg) (s s' : St) (o : Outcome) (hg : cfg.golang = false) (hm : mid cfg s = true)
    (ht : tailFail cfg s s' o = true) : inv cfg s' = true ∧ o.isAssertion = false := by
  simp only [mid, Bool.and_eq_true, Bool.or_eq_true, beq_iff_eq] at hm
  simp_all [tailFail, inv, keysOk, usable, sameObjs, freshObjs, Outcome.isAssertion]


/-- result of a build on a locked parrot connection (see `tail_locked`). -/
def lockedSame (cfg : Cfg) (s s' : St) : Bool :=
  inv cfg s' && sessionView s' == sessionView s && s'.hsDone == s.hsDone && s'.hasCache == s.hasCache
  && s'.status == s.status && s'.tracker == s.tracker && s'.keysHeld == s.keysHeld && s'.sharesFilled == s.sharesFilled
  && s'.lT == s.lT && s'.lP == s.lP && sameObjs s s' && s'.tRef == s.tRef && s'.pRef == s.pRef

/-- the state the tail of a build starts from: `s` itself for HelloCustom, else `s` after the preset. -/
def PresetOf (cfg : Cfg) (s s1 : St) : Prop :=
  mid cfg s1 = true ∧ (if cfg.custom = true then s1 = s else presetOk cfg s s1 = true)

def BuiltOk (cfg : Cfg) (load : Bool) (s s' : St) : Prop :=
  (s.locked = true ∧ lockedSame cfg s s' = true) ∨
  (s.status = .notBuilt ∧ ∃ s1, PresetOf cfg s s1 ∧ tailOk load s1 s' = true)

def BuiltFail (cfg : Cfg) (s s' : St) (o : Outcome) : Prop :=
  s.status = .notBuilt ∧
  ((cfg.custom = false ∧ presetFail cfg s s' o = true) ∨ ∃ s1, PresetOf cfg s s1 ∧ tailFail cfg s1 s' o = true)

theorem tail_mid (cfg : Cfg) (load : Bool) (lr : LoadRes) (s : St) (h : mid cfg s = true) :
    (match buildTail cfg load lr s with
     | (s', none) => tailOk load s s' = true
     | (s', some o) => tailFail cfg s s' o = true) := by
  cases load with
  | false =>
    obtain ⟨s', he, ht⟩ := tail_mid_noload cfg lr s h
    simp [he, ht]
  | true =>
    have := tail_mid_load cfg lr s h
    generalize buildTail cfg true lr s = r at this ⊢
    obtain ⟨s', o⟩ := r
    cases o <;> simpa using this

theorem build_parrot (cfg : Cfg) (load : Bool) (lr : LoadRes) (s : St) (hg : cfg.golang = false)
    (h : inv cfg s = true) (hd : s.hsDone = false) :
    (match buildHandshakeState cfg load lr s with
     | (s', none) => BuiltOk cfg load s s'
     | (s', some o) => BuiltFail cfg s s' o) := by
  have hinv := h
  simp only [inv, hg, Bool.and_eq_true, Bool.or_eq_true, beq_iff_eq] at hinv
  cases hst : s.status with
  | byGo => simp_all
  | byUtls =>
    have hl : s.locked = true := by simp_all
    have ht := tail_locked cfg load lr s hg h hl
    have he : buildHandshakeState cfg load lr s = buildTail cfg load lr s := by
      simp [buildHandshakeState, hg, hst, uAssert, okR, R.andThen]
    rw [he]
    generalize buildTail cfg load lr s = r at ht ⊢
    obtain ⟨s', o⟩ := r
    cases o with
    | some o => simp at ht
    | none =>
      have ht' : lockedSame cfg s s' = true := by simpa [lockedSame] using ht
      show BuiltOk cfg load s s'
      exact Or.inl ⟨hl, ht'⟩
  | notBuilt =>
    have hm := inv_mid cfg s h hg hst hd
    cases hc : cfg.custom with
    | true =>
      have he : buildHandshakeState cfg load lr s = buildTail cfg load lr s := by
        simp [buildHandshakeState, hg, hst, hc, uAssert, okR, R.andThen]
      rw [he]
      have ht := tail_mid cfg load lr s hm
      generalize buildTail cfg load lr s = r at ht ⊢
      obtain ⟨s', o⟩ := r
      cases o with
      | none => exact Or.inr ⟨hst, s, ⟨hm, by simp [hc]⟩, ht⟩
      | some o => exact ⟨hst, Or.inr ⟨s, ⟨hm, by simp [hc]⟩, ht⟩⟩
    | false =>
      have he : buildHandshakeState cfg load lr s = (applyPreset cfg s).andThen (buildTail cfg load lr) := by
        simp [buildHandshakeState, hg, hst, hc, uAssert, okR, R.andThen]
      rw [he]
      have hp := applyPreset_spec cfg s hm
      generalize applyPreset cfg s = r1 at hp ⊢
      obtain ⟨s1, o1⟩ := r1
      cases o1 with
      | some o => exact ⟨hst, Or.inl ⟨hc, by simpa using hp⟩⟩
      | none =>
        have hp' : presetOk cfg s s1 = true := by simpa using hp
        have hm1 : mid cfg s1 = true := by
          have := hp'
          simp only [presetOk, Bool.and_eq_true] at this
          simp_all
        have ht := tail_mid cfg load lr s1 hm1
        simp only [R.andThen]
        generalize buildTail cfg load lr s1 = r at ht ⊢
        obtain ⟨s', o⟩ := r
        cases o with
        | none => exact Or.inr ⟨hst, s1, ⟨hm1, by simp [hc, hp']⟩, ht⟩
        | some o => exact ⟨hst, Or.inr ⟨s1, ⟨hm1, by simp [hc, hp']⟩, ht⟩⟩

end SessionCtl
