import UtlsVerif.SessionCtl
/-!
# SessionCtlDefs — predicates used by the invariant proofs of the `SessionCtl` machine

Boolean state predicates (`inv`: the boundary invariant that holds between API calls whatever their
order; `mid`, `loadedOk`, `afterLoad`, `finishedOk`, `tailOk`, …: what holds between the pieces of one
build; `pinv`: the invariant of (state, documentation automaton) pairs along documented orders),
`sessionView`, and the small lemmas about call sequences.
-/
namespace SessionCtl


theorem final_nil (cfg : Cfg) (s : St) : final cfg s [] = s := rfl

theorem final_cons (cfg : Cfg) (s : St) (op : Op) (ops : List Op) :
    final cfg s (op :: ops) = final cfg (step cfg s op).1 ops := by
  simp [final, run]

theorem outcomes_nil (cfg : Cfg) (s : St) : outcomes cfg s [] = [] := rfl

theorem outcomes_cons (cfg : Cfg) (s : St) (op : Op) (ops : List Op) :
    outcomes cfg s (op :: ops) = (step cfg s op).2 :: outcomes cfg (step cfg s op).1 ops := by
  simp [outcomes, run]

theorem final_append (cfg : Cfg) (s : St) (ops ops' : List Op) :
    final cfg s (ops ++ ops') = final cfg (final cfg s ops) ops' := by
  induction ops generalizing s with
  | nil => rfl
  | cons op ops ih => simp [final_cons, ih]


def usable (cfg : Cfg) (s : St) : Bool := s.hasCache && !cfg.disabled

def freshObjs (s : St) : Bool :=
  !s.specT.init && s.specP.sess.isNone && (s.tRef != some .user || !s.userT.init) && (s.pRef != some .user || s.userP.sess.isNone)

def pskSynced (s : St) : Bool :=
  match s.pRef with
  | none => false
  | some r => s.hsSession == (s.pObj r).sess && s.hsEarly == (s.pObj r).sess && (s.helloPsk.isNone || s.helloPsk == (s.pObj r).id)

def keysOk (s : St) : Bool := !s.sharesFilled || s.keysHeld

/-- boundary invariant: holds before and after every API call, whatever the order. -/
def inv (cfg : Cfg) (s : St) : Bool :=
  keysOk s
  && (if cfg.golang then
        !s.locked && s.status != .byUtls && s.state != .ticketAllSet && s.state != .pskAllSet && (s.hsDone || s.tracker == .never)
      else
        s.status != .byGo && (s.locked == (s.status == .byUtls)) && ((s.state != .ticketAllSet && s.state != .pskAllSet) || s.locked))
  && (s.state != .ticketInit || (s.tRef.isSome && usable cfg s && !s.locked))
  && (s.state != .pskInit || (s.pRef.isSome && usable cfg s && !s.locked))
  && (s.state != .pskAllSet || pskSynced s)
  && (s.state != .noSession || freshObjs s)
  && (!s.locked || s.raw == some (slots s))

/-- between the pieces of a parrot build on a hello that is not built yet. -/
def mid (cfg : Cfg) (s : St) : Bool :=
  keysOk s && s.status == .notBuilt && !s.locked && !s.hsDone
  && (s.state == .noSession || s.state == .ticketInit || s.state == .pskInit)
  && (s.state != .ticketInit || (s.tRef.isSome && usable cfg s))
  && (s.state != .pskInit || (s.pRef.isSome && usable cfg s))
  && (s.state != .noSession || freshObjs s)

def sameObjs (s s' : St) : Bool :=
  s'.specT == s.specT && s'.userT == s.userT && s'.specP == s.specP && s'.userP == s.userP

/-- the state after a successful `applyPreset` from a `mid` state `s`. -/
def presetOk (cfg : Cfg) (s s' : St) : Bool :=
  mid cfg s' && s'.state == s.state && s'.hasCache == s.hasCache && sameObjs s s'
  && s'.tRef == (if cfg.specT then (if s.tRef.isSome then s.tRef else some .spec) else none)
  && s'.pRef == (if cfg.specP then (if s.pRef.isSome then s.pRef else some .spec) else none)
  && s'.lT == s'.tRef && s'.lP == s'.pRef
  && s'.sharesFilled && s'.keysHeld && s'.raw.isNone && s'.tracker == s.tracker

/-- the state after `applyPreset` returned the "specification doesn't contain one" error. -/
def presetFail (cfg : Cfg) (s s' : St) (o : Outcome) : Bool :=
  mid cfg s' && s'.state == s.state && s'.hasCache == s.hasCache && sameObjs s s' && s'.tracker == s.tracker
  && ((o == .err .noTicketSpec && !cfg.specT && s.state == .ticketInit) || (o == .err .noPskSpec && !cfg.specP && s.state == .pskInit))

/-- everything `uLoadSession` / `uApplyPatch` leave alone. -/
def sameFrame (s s' : St) : Bool :=
  s'.status == s.status && s'.locked == s.locked && s'.hsDone == s.hsDone && s'.hasCache == s.hasCache
  && s'.tRef == s.tRef && s'.pRef == s.pRef && s'.lT == s.lT && s'.lP == s.lP && s'.raw == s.raw
  && s'.sharesFilled == s.sharesFilled && s'.keysHeld == s.keysHeld && s'.helloShares == s.helloShares && s'.helloTS == s.helloTS

/-- the state after a successful `uLoadSession` from a `mid` state `s`. -/
def loadedOk (cfg : Cfg) (s s' : St) : Bool :=
  sameFrame s s'
  && (match s.state with
      | .ticketInit =>
        s'.state == .ticketAllSet && sameObjs s s' && s'.helloPsk == s.helloPsk && s'.hsEarly == s.hsEarly && s'.tracker == s.tracker
        && (match s.tRef with
            | some r => s'.hsSession == (s.tObj r).sess && s'.helloTicket == (s.tObj r).ticket
            | none => false)
      | .pskInit =>
        s'.state == .pskAllSet && sameObjs s s' && s'.helloTicket == s.helloTicket && pskSynced s' && s'.tracker == s.tracker
        && (match s.pRef with
            | some r => s'.hsSession == (s.pObj r).sess && s'.hsEarly == (s.pObj r).sess && s'.helloPsk == (s.pObj r).id
            | none => false)
      | .noSession =>
        (s'.state == .noSession && freshObjs s' && sameObjs s s' && s'.hsSession == s.hsSession && s'.hsEarly == s.hsEarly
            && s'.helloTicket == s.helloTicket && s'.helloPsk == s.helloPsk)
        || (s'.state == .ticketAllSet && usable cfg s && s.tRef.isSome && s'.hsSession == some .cache && s'.helloTicket == some .cache)
        || (s'.state == .pskInit && s.pRef.isSome && usable cfg s)
      | _ => false)


/-- after `uLoadSession` (and `marshal`, which only writes `raw`). -/
def afterLoad (s : St) : Bool :=
  keysOk s && s.status == .notBuilt && !s.locked && !s.hsDone
  && (s.state == .noSession || s.state == .ticketAllSet || s.state == .pskInit || s.state == .pskAllSet)
  && (s.state != .pskInit || s.pRef.isSome)
  && (s.state != .pskAllSet || pskSynced s)
  && (s.state != .noSession || freshObjs s)

/-- the state after `uApplyPatch`, `finalCheck` and the status update. -/
def finishedOk (s s' : St) : Bool :=
  (s'.state != .pskAllSet || s'.binderFresh) && s'.locked && s'.status == .byUtls && s'.hsDone == s.hsDone && s'.hasCache == s.hasCache
  && s'.tRef == s.tRef && s'.pRef == s.pRef && s'.lT == s.lT && s'.lP == s.lP && s'.raw == s.raw
  && s'.sharesFilled == s.sharesFilled && s'.keysHeld == s.keysHeld && s'.helloShares == s.helloShares && s'.helloTS == s.helloTS
  && sameObjs s s' && s'.helloTicket == s.helloTicket && s'.tracker == s.tracker
  && (match s.state with
      | .pskInit => s'.state == .pskAllSet && pskSynced s'
          && (match s.pRef with
              | some r => s'.hsSession == (s.pObj r).sess && s'.hsEarly == (s.pObj r).sess && s'.helloPsk == (s.pObj r).id
              | none => false)
      | st => s'.state == st && s'.hsSession == s.hsSession && s'.hsEarly == s.hsEarly && s'.helloPsk == s.helloPsk)

/-- the last three steps of a full build. -/
def finish (s : St) : R :=
  (uApplyPatch s).andThen fun s => (finalCheck s).andThen fun s => okR { s with status := .byUtls }

/-- the session fields that must not change once the controller is locked: controller state, the
owned extensions and every extension object, the session / secrets / ticket / identities of the
handshake state, and the marshalled session extensions. -/
def sessionView (s : St) : CState × Bool × Option Ref × Option Ref × TExt × TExt × PExt × PExt
    × Option Src × Option Src × Option Src × Option Src × Option (Slot × Slot) :=
  (s.state, s.locked, s.tRef, s.pRef, s.specT, s.userT, s.specP, s.userP,
   s.hsSession, s.hsEarly, s.helloTicket, s.helloPsk, s.raw)


/-- the state after the tail of a build that started in a `mid` state `s`. -/
def tailOk (load : Bool) (s s' : St) : Bool :=
  (!load || s'.state != .pskAllSet || s'.binderFresh) && !s'.hsDone && s'.hasCache == s.hasCache && s'.tRef == s.tRef && s'.pRef == s.pRef && s'.lT == s.lT && s'.lP == s.lP
  && s'.sharesFilled == s.sharesFilled && s'.keysHeld == s.keysHeld && s'.raw == some (slots s')
  && (if load then
        s'.locked && s'.status == .byUtls
        && (match s.state with
            | .ticketInit =>
              s'.state == .ticketAllSet && sameObjs s s'
              && (match s.tRef with
                  | some r => s'.hsSession == (s.tObj r).sess && s'.helloTicket == (s.tObj r).ticket
                  | none => false)
            | .pskInit =>
              s'.state == .pskAllSet && sameObjs s s' && pskSynced s'
              && (match s.pRef with
                  | some r => s'.hsSession == (s.pObj r).sess && s'.hsEarly == (s.pObj r).sess && s'.helloPsk == (s.pObj r).id
                  | none => false)
            | _ => (s'.state == .noSession && sameObjs s s' && freshObjs s') || s'.state == .ticketAllSet
                    || (s'.state == .pskAllSet && pskSynced s'))
      else
        !s'.locked && s'.status == .notBuilt && s'.state == s.state && sameObjs s s' && s'.tracker == s.tracker
        && s'.hsSession == s.hsSession && s'.hsEarly == s.hsEarly && s'.helloTicket == s.helloTicket && s'.helloPsk == s.helloPsk)

/-- how a failed build tail leaves the state: only the documented `assertCanSkip` panic can happen. -/
def tailFail (cfg : Cfg) (s s' : St) (o : Outcome) : Bool :=
  o == .panic .documented .canskip && !cfg.skipOnNil && (s.tRef.isNone != s.pRef.isNone) && s.state == .noSession
  && s'.state == .noSession && s'.status == .notBuilt && !s'.locked && !s'.hsDone && s'.hasCache == s.hasCache && sameObjs s s'
  && s'.tRef == s.tRef && s'.pRef == s.pRef && s'.keysHeld == s.keysHeld && s'.sharesFilled == s.sharesFilled

/-- result of a build on a locked parrot connection (see `tail_locked`): no session field changes;
a full build recomputes the binder over the bytes it marshalled. -/
def lockedSame (cfg : Cfg) (load : Bool) (s s' : St) : Bool :=
  (!load || s'.state != .pskAllSet || s'.binderFresh) && inv cfg s' && sessionView s' == sessionView s && s'.hsDone == s.hsDone && s'.hasCache == s.hasCache
  && s'.status == s.status && s'.tracker == s.tracker && s'.keysHeld == s.keysHeld && s'.sharesFilled == s.sharesFilled
  && s'.lT == s.lT && s'.lP == s.lP && sameObjs s s' && s'.tRef == s.tRef && s'.pRef == s.pRef

/-- the state the tail of a build starts from: `s` itself for HelloCustom, else `s` after the preset. -/
def PresetOf (cfg : Cfg) (s s1 : St) : Prop :=
  mid cfg s1 = true ∧ (if cfg.custom = true then s1 = s else presetOk cfg s s1 = true)

def BuiltOk (cfg : Cfg) (load : Bool) (s s' : St) : Prop :=
  (s.locked = true ∧ lockedSame cfg load s s' = true) ∨
  (s.status = .notBuilt ∧ ∃ s1, PresetOf cfg s s1 ∧ tailOk load s1 s' = true)

def BuiltFail (cfg : Cfg) (s s' : St) (o : Outcome) : Prop :=
  s.status = .notBuilt ∧
  ((cfg.custom = false ∧ presetFail cfg s s' o = true) ∨ ∃ s1, PresetOf cfg s s1 ∧ tailFail cfg s1 s' o = true)


def isSetter : Op → Bool
  | .setTicket _ => true
  | .setPsk _ => true
  | _ => false


/-- the part of `handshake` after the build. -/
def hsTail (cfg : Cfg) (lr : LoadRes) (s : St) : R :=
  if s.locked then okR { s with hsDone := true }
  else
    let (r, res) := loadSession cfg lr s
    r.andThen fun s =>
    let usable := !(cfg.disabled || !s.hasCache)
    let s := match res with
      | .s12 => { s with hsSession := some .cache, helloTicket := some .cache }
      | .s13 => { s with hsSession := some .cache, hsEarly := some .cache, helloPsk := some .cache }
      | .none => s
    let ts := s.helloTS || usable
    let t : Slot := if !ts then .absent else if res == .s12 then .tok .cache else .empty
    let p : Slot := if res == .s13 then .tok .cache else .absent
    okR { s with raw := some (t, p), helloTS := ts, hsDone := true, binderFresh := true }

theorem handshake_eq (cfg : Cfg) (lr : LoadRes) (s : St) :
    handshake cfg lr s = (buildHandshakeState cfg true lr s).andThen (hsTail cfg lr) := rfl

theorem buildTail_load_eq (cfg : Cfg) (lr : LoadRes) (s : St) :
    buildTail cfg true lr s = (uLoadSession cfg lr (applyConfig s)).andThen fun s => finish (marshal s) := rfl

theorem mid_applyConfig (cfg : Cfg) (s : St) (h : mid cfg s = true) : mid cfg (applyConfig s) = true := by
  simpa [mid, applyConfig, keysOk, usable, freshObjs] using h

theorem afterLoad_marshal (s : St) (h : afterLoad s = true) : afterLoad (marshal s) = true := by
  simpa [afterLoad, marshal, keysOk, pskSynced, freshObjs, St.pObj] using h


theorem mid_inv (cfg : Cfg) (s : St) (hg : cfg.golang = false) (h : mid cfg s = true) : inv cfg s = true := by
  simp only [mid, Bool.and_eq_true, Bool.or_eq_true, beq_iff_eq] at h
  cases hst : s.state <;> simp_all [inv]


/-- Well-formed configurations for the "documented orders succeed" theorems: resumption with a missing
extension is skipped (`skipResumptionOnNilExtension`, true for every predefined id), or the spec
has both or none of the two session extensions. Otherwise a plain build may end in the documented
`assertCanSkip` panic. -/
def Cfg.WF (cfg : Cfg) : Bool := cfg.skipOnNil || (cfg.specT == cfg.specP)

/-- invariant of (state, documentation automaton) pairs along documented call orders. -/
def pinvRest (cfg : Cfg) (s : St) (d : Doc) : Bool :=
  (!d.done || s.state != .pskAllSet || s.binderFresh)
  && d.cache == usable cfg s
  && d.done == s.hsDone
  && (if cfg.golang then (!d.built || s.status == .byGo) else d.built == s.locked)
  && (!(d.built && d.injected) || d.fresh)
  && (!d.built || (s.sharesFilled && s.keysHeld))
  && (!(cfg.golang && s.status == .byGo) || (s.sharesFilled && s.keysHeld))
  && (!cfg.custom || (s.sharesFilled && s.tRef.isSome == cfg.specT && s.pRef.isSome == cfg.specP
                      && (cfg.golang || (s.lT == s.tRef && s.lP == s.pRef))))
  && (d.injT.isNone || d.injP.isNone)
  && (match d.injT with
      | none => true
      | some a =>
        a.isInit && cfg.specT && !cfg.golang && !cfg.custom && s.tRef == some .user && s.userT == a.ext
        && (if d.built then s.state == .ticketAllSet && s.hsSession == a.ext.sess && s.helloTicket == a.ext.ticket
            else s.state == .ticketInit)
        && (!d.fresh || (s.lT == some .user && s.raw == some (slots s))))
  && (match d.injP with
      | none => true
      | some a =>
        a.isInit && cfg.specP && !cfg.golang && !cfg.custom && s.pRef == some .user && s.userP == a.ext
        && (if d.built then s.state == .pskAllSet && s.hsSession == a.ext.sess && s.hsEarly == a.ext.sess && s.helloPsk == a.ext.id
            else s.state == .pskInit)
        && (!d.fresh || (s.lP == some .user && s.raw == some (slots s))))
  && (d.injected || d.built || s.state == .noSession)
  && (!d.done || s.raw.isSome)

def pinv (cfg : Cfg) (s : St) (d : Doc) : Bool := inv cfg s && pinvRest cfg s d

theorem pinv_inv {cfg : Cfg} {s : St} {d : Doc} (h : pinv cfg s d = true) : inv cfg s = true := by
  simp only [pinv, Bool.and_eq_true] at h; exact h.1

theorem inv_golang_unlocked {cfg : Cfg} {s : St} (h : inv cfg s = true) (hg : cfg.golang = true) : s.locked = false := by
  simp only [inv, hg, if_true, Bool.and_eq_true, Bool.not_eq_true'] at h
  exact h.1.1.1.1.1.2.1.1.1.1

theorem pinv_done {cfg : Cfg} {s : St} {d : Doc} (h : pinv cfg s d = true) : s.hsDone = d.done := by
  simp only [pinv, pinvRest, Bool.and_eq_true, beq_iff_eq] at h
  grind


/-- the documentation automaton after a build call. -/
def Doc.afterBuild (d : Doc) (load : Bool) : Doc :=
  { d with built := d.built || load, fresh := d.injected }

end SessionCtl
