import UtlsVerif.SessionCtlStep
/-!
# SessionCtlFacts — consequences of the boundary invariant

* `inv_start`, `inv_final`, `no_assert_of_inv`: the invariant holds at `UClient` and along every call
  sequence, hence no call of any sequence ends in an internal assertion;
* `locked_step`: once locked, no call changes a session field;
* `build_spec_lacks`: an injected extension whose kind the spec lacks makes every build return the
  documented error.
-/
namespace SessionCtl

theorem inv_start (cfg : Cfg) (c : Bool) : inv cfg (St.start cfg c) = true := by
  obtain ⟨golang, custom, cT, cP, skip, disabled⟩ := cfg
  cases custom <;> cases golang <;> cases cT <;> cases cP <;> cases c <;> cases disabled <;>
    simp [St.start, St.init, inv, applyPreset, syncSessionExts, okR, failR, R.andThen, docAssert, uAssert, keysOk, usable, freshObjs, pskSynced]

theorem inv_final (cfg : Cfg) (s : St) (h : inv cfg s = true) (ops : List Op) : inv cfg (final cfg s ops) = true := by
  induction ops generalizing s with
  | nil => exact h
  | cons op ops ih => rw [final_cons]; exact ih _ (inv_step cfg s op h).1

theorem no_assert_of_inv (cfg : Cfg) (s : St) (h : inv cfg s = true) (ops : List Op) :
    ∀ o ∈ outcomes cfg s ops, o.isAssertion = false := by
  induction ops generalizing s with
  | nil => simp [outcomes_nil]
  | cons op ops ih =>
    rw [outcomes_cons]
    intro o ho
    rcases List.mem_cons.mp ho with rfl | ho
    · exact (inv_step cfg s op h).2
    · exact ih _ (inv_step cfg s op h).1 o ho


/-- a refused or harmless setter / SetSessionCache on a locked connection changes no session field. -/
theorem setters_locked (cfg : Cfg) (s : St) (op : Op) (hop : isSetter op = true ∨ op = .setCache) (hl : s.locked = true) :
    sessionView (stepR cfg s op).1 = sessionView s := by
  obtain ⟨hasCache, state, locked, tracker, calling, status, tRef, pRef, specT, userT, specP, userP, lT, lP, hsS, hsE, hT, hP, raw, ts, shares, filled, held, done⟩ := s
  simp only at hl; subst hl
  cases op with
  | setCache => cases done <;> simp [stepR, okR, sessionView, St.tObj, St.pObj]
  | setTicket a =>
    cases done <;> cases a <;> cases hu : (cfg.disabled || !hasCache) <;>
      simp_all [stepR, setTicketOp, overrideTicket, okR, failR, R.andThen, docAssert, sessionView, St.tObj, St.pObj]
  | setPsk a =>
    cases done <;> cases a <;> cases hu : (cfg.disabled || !hasCache) <;>
      simp_all [stepR, setPskOp, overridePsk, okR, failR, R.andThen, docAssert, sessionView, St.tObj, St.pObj]
  | buildNoSession => simp [isSetter] at hop
  | build lr => simp [isSetter] at hop
  | handshake lr => simp [isSetter] at hop

/-- once locked, no call changes a session field. -/
theorem locked_step (cfg : Cfg) (s : St) (op : Op) (h : inv cfg s = true) (hl : s.locked = true) :
    sessionView (step cfg s op).1 = sessionView s := by
  have hg : cfg.golang = false := by
    cases hg : cfg.golang with
    | false => rfl
    | true => simp [inv, hg, hl] at h
  cases hd : s.hsDone with
  | true => simp [step, stepR, hd, okR]
  | false =>
    have built : ∀ load lr, sessionView (buildHandshakeState cfg load lr s).1 = sessionView s
        ∧ (buildHandshakeState cfg load lr s).2 = none ∧ (buildHandshakeState cfg load lr s).1.locked = true := by
      intro load lr
      have hb := build_parrot cfg load lr s hg h hd
      have hst : s.status = .byUtls := by
        have := h; simp only [inv, hg, Bool.and_eq_true, beq_iff_eq] at this; simp_all
      generalize buildHandshakeState cfg load lr s = r at hb ⊢
      obtain ⟨s', o⟩ := r
      cases o with
      | some o => simp [BuiltFail, hst] at hb
      | none =>
        rcases hb with ⟨_, hs⟩ | ⟨hnb, _⟩
        · simp only [lockedSame, Bool.and_eq_true, beq_iff_eq] at hs
          have hv : sessionView s' = sessionView s := hs.1.1.1.1.1.1.1.1.1.1.1.2
          refine ⟨hv, rfl, ?_⟩
          have hlk : s'.locked = s.locked := by
            simp only [sessionView, Prod.mk.injEq] at hv; exact hv.2.1
          simp [hlk, hl]
        · simp [hst] at hnb
    cases op with
    | setCache => simpa [step] using setters_locked cfg s .setCache (Or.inr rfl) hl
    | setTicket a => simpa [step] using setters_locked cfg s (.setTicket a) (Or.inl rfl) hl
    | setPsk a => simpa [step] using setters_locked cfg s (.setPsk a) (Or.inl rfl) hl
    | buildNoSession => simpa [step, stepR, hd] using (built false .none).1
    | build lr => simpa [step, stepR, hd] using (built true lr).1
    | handshake lr =>
      obtain ⟨hv, ho, hlk⟩ := built true lr
      simp only [step, stepR, hd, handshake_eq]
      generalize buildHandshakeState cfg true lr s = r at hv ho hlk ⊢
      obtain ⟨s', o⟩ := r
      simp only at ho hlk hv; subst ho
      simp only [R.andThen, hsTail, hlk, okR, if_true]
      simp only [sessionView, Prod.mk.injEq] at hv ⊢
      simp_all


/-- an injected extension whose kind the spec lacks makes every build return the documented error. -/
theorem build_spec_lacks (cfg : Cfg) (load : Bool) (lr : LoadRes) (s : St) (hg : cfg.golang = false) (hc : cfg.custom = false)
    (h : inv cfg s = true) (hd : s.hsDone = false) :
    (s.state = .ticketInit → cfg.specT = false → (buildHandshakeState cfg load lr s).2 = some (.err .noTicketSpec))
    ∧ (s.state = .pskInit → cfg.specP = false → (buildHandshakeState cfg load lr s).2 = some (.err .noPskSpec)) := by
  have hb := build_parrot cfg load lr s hg h hd
  have hinv := h
  simp only [inv, hg, Bool.and_eq_true, Bool.or_eq_true, beq_iff_eq] at hinv
  have noPreset : ∀ s1, PresetOf cfg s s1 →
      (s.state = .ticketInit → cfg.specT = false → False) ∧ (s.state = .pskInit → cfg.specP = false → False) := by
    intro s1 ⟨hm1, hp⟩
    simp only [hc, Bool.false_eq_true, if_false] at hp
    simp only [presetOk, mid, Bool.and_eq_true, Bool.or_eq_true, beq_iff_eq] at hp
    constructor
    · intro hst hT; rw [hst, hT] at hp; simp only [Bool.false_eq_true, if_false] at hp; grind
    · intro hst hP; rw [hst, hP] at hp; simp only [Bool.false_eq_true, if_false] at hp; grind
  generalize buildHandshakeState cfg load lr s = r at hb ⊢
  obtain ⟨s', o⟩ := r
  cases o with
  | none =>
    rcases hb with ⟨hl, _⟩ | ⟨_, s1, hp, _⟩
    · constructor <;> intro hst _ <;> simp_all
    · have := noPreset s1 hp
      exact ⟨fun a b => (this.1 a b).elim, fun a b => (this.2 a b).elim⟩
  | some o =>
    rcases hb with ⟨_, ⟨_, hf⟩ | ⟨s1, hp, _⟩⟩
    · simp only [presetFail, Bool.and_eq_true, Bool.or_eq_true, beq_iff_eq] at hf
      constructor <;> intro hst _ <;> simp_all
    · have := noPreset s1 hp
      exact ⟨fun a b => (this.1 a b).elim, fun a b => (this.2 a b).elim⟩

end SessionCtl
