import UtlsVerif.SessionCtlDefs
/-!
# SessionCtlGolang — HelloGolang builds, the handshake tail, and `inv` at `UClient`
-/
namespace SessionCtl

theorem build_golang_inv (cfg : Cfg) (load : Bool) (lr : LoadRes) (s : St) (hg : cfg.golang = true)
    (h : inv cfg s = true) (hd : s.hsDone = false) :
    inv cfg (buildHandshakeState cfg load lr s).1 = true
    ∧ (buildHandshakeState cfg load lr s).2 = none
    ∧ (buildHandshakeState cfg load lr s).1.hsDone = false
    ∧ (buildHandshakeState cfg load lr s).1.locked = false
    ∧ (buildHandshakeState cfg load lr s).1.tracker = .never := by
  obtain ⟨hasCache, state, locked, tracker, calling, status, tRef, pRef, specT, userT, specP, userP, lT, lP, hsS, hsE, hT, hP, raw, ts, shares, filled, held, done, bfresh⟩ := s
  obtain ⟨golang, custom, cT, cP, skip, disabled⟩ := cfg
  cases status <;> cases state <;>
    simp_all [inv, buildHandshakeState, uAssert, okR, failR, R.andThen, keysOk, usable, freshObjs, pskSynced]

set_option maxHeartbeats 1000000 in
theorem hsTail_inv (cfg : Cfg) (lr : LoadRes) (s : St) (h : inv cfg s = true)
    (hp : cfg.golang = false → s.locked = true) (hgo : cfg.golang = true → s.tracker = .never) :
    inv cfg (hsTail cfg lr s).1 = true ∧ (hsTail cfg lr s).2 = none ∧ (hsTail cfg lr s).1.hsDone = true := by
  obtain ⟨hasCache, state, locked, tracker, calling, status, tRef, pRef, specT, userT, specP, userP, lT, lP, hsS, hsE, hT, hP, raw, ts, shares, filled, held, done, bfresh⟩ := s
  obtain ⟨golang, custom, cT, cP, skip, disabled⟩ := cfg
  cases golang with
  | false =>
    have hl : locked = true := by simpa using hp
    subst hl
    simp_all [inv, hsTail, okR, keysOk, usable, freshObjs, pskSynced, slots, St.pObj]
  | true =>
    cases locked <;> cases state <;> cases lr <;> cases status <;> cases disabled <;> cases hasCache <;>
      simp_all [inv, hsTail, loadSession, okR, failR, R.andThen, keysOk, usable, freshObjs, pskSynced, slots, St.pObj]


theorem inv_start (cfg : Cfg) (c : Bool) : inv cfg (St.start cfg c) = true := by
  obtain ⟨golang, custom, cT, cP, skip, disabled⟩ := cfg
  cases custom <;> cases golang <;> cases cT <;> cases cP <;> cases c <;> cases disabled <;>
    simp [St.start, St.init, inv, applyPreset, syncSessionExts, okR, failR, R.andThen, docAssert, uAssert, keysOk, usable, freshObjs, pskSynced]

end SessionCtl
