import UtlsVerif.SessionCtlBuild
/-!
# SessionCtlInv — invariants of the `SessionCtl` machine, part 4

`inv` is preserved by builds (parrot / HelloCustom and HelloGolang) and by the setters, and none of
them ends in an internal assertion.
-/
namespace SessionCtl

def isSetter : Op → Bool
  | .setTicket _ => true
  | .setPsk _ => true
  | _ => false

theorem build_parrot_inv (cfg : Cfg) (load : Bool) (lr : LoadRes) (s : St) (hg : cfg.golang = false)
    (h : inv cfg s = true) (hd : s.hsDone = false) :
    inv cfg (buildHandshakeState cfg load lr s).1 = true
    ∧ ((buildHandshakeState cfg load lr s).2.getD .ok).isAssertion = false
    ∧ (buildHandshakeState cfg load lr s).1.hsDone = false
    ∧ ((buildHandshakeState cfg load lr s).2 = none → load = true → (buildHandshakeState cfg load lr s).1.locked = true) := by
  have hb := build_parrot cfg load lr s hg h hd
  generalize buildHandshakeState cfg load lr s = r at hb ⊢
  obtain ⟨s', o⟩ := r
  cases o with
  | none =>
    rcases hb with ⟨hl, hs⟩ | ⟨hst, s1, ⟨hm1, _⟩, ht⟩
    · simp only [lockedSame, sessionView, Bool.and_eq_true, beq_iff_eq] at hs
      simp_all [Outcome.isAssertion]
    · have hi := tailOk_inv cfg load s1 s' hg hm1 ht
      refine ⟨hi, by simp [Outcome.isAssertion], ?_, ?_⟩
      · simp only [tailOk, Bool.and_eq_true] at ht; simp_all
      · intro _ hload; subst hload; simp only [tailOk, Bool.and_eq_true] at ht; simp_all
  | some o =>
    rcases hb with ⟨hst, ⟨hc, hf⟩ | ⟨s1, ⟨hm1, _⟩, hf⟩⟩
    · have hm' : mid cfg s' = true := by
        have := hf; simp only [presetFail, Bool.and_eq_true] at this; simp_all
      refine ⟨mid_inv cfg s' hg hm', ?_, ?_, by simp⟩
      · simp only [presetFail, Bool.and_eq_true, Bool.or_eq_true, beq_iff_eq] at hf
        rcases hf with ⟨_, ⟨h1, _⟩ | ⟨h1, _⟩⟩ <;> simp_all [Outcome.isAssertion]
      · simp only [mid, Bool.and_eq_true] at hm'; simp_all
    · have := tailFail_inv cfg s1 s' o hg hm1 hf
      refine ⟨this.1, this.2, ?_, by simp⟩
      simp only [tailFail, Bool.and_eq_true] at hf; simp_all


theorem build_golang_inv (cfg : Cfg) (load : Bool) (lr : LoadRes) (s : St) (hg : cfg.golang = true)
    (h : inv cfg s = true) (hd : s.hsDone = false) :
    inv cfg (buildHandshakeState cfg load lr s).1 = true
    ∧ (buildHandshakeState cfg load lr s).2 = none
    ∧ (buildHandshakeState cfg load lr s).1.hsDone = false
    ∧ (buildHandshakeState cfg load lr s).1.locked = false
    ∧ (buildHandshakeState cfg load lr s).1.tracker = .never := by
  obtain ⟨hasCache, state, locked, tracker, calling, status, tRef, pRef, specT, userT, specP, userP, lT, lP, hsS, hsE, hT, hP, raw, ts, shares, filled, held, done⟩ := s
  obtain ⟨golang, custom, cT, cP, skip, disabled⟩ := cfg
  cases status <;> cases state <;>
    simp_all [inv, buildHandshakeState, uAssert, okR, failR, R.andThen, keysOk, usable, freshObjs, pskSynced]

set_option maxHeartbeats 2000000 in
theorem setters_inv (cfg : Cfg) (s : St) (op : Op) (hop : isSetter op = true ∨ op = .setCache)
    (h : inv cfg s = true) :
    inv cfg (stepR cfg s op).1 = true ∧ ((stepR cfg s op).2.getD .ok).isAssertion = false
    ∧ (stepR cfg s op).1.hsDone = s.hsDone := by
  obtain ⟨hasCache, state, locked, tracker, calling, status, tRef, pRef, specT, userT, specP, userP, lT, lP, hsS, hsE, hT, hP, raw, ts, shares, filled, held, done⟩ := s
  obtain ⟨golang, custom, cT, cP, skip, disabled⟩ := cfg
  cases op with
  | setCache =>
    cases done <;> cases state <;> cases golang <;> cases locked <;> cases status <;>
      simp_all [inv, stepR, okR, keysOk, usable, freshObjs, pskSynced, slots, St.pObj, Outcome.isAssertion]
  | setTicket a =>
    cases done with
    | true => simp_all [stepR, okR, Outcome.isAssertion]
    | false =>
      cases hu : (disabled || !hasCache) with
      | true => simp_all [stepR, setTicketOp, failR, Outcome.isAssertion]
      | false =>
        cases a <;> cases locked <;> cases state <;> cases golang <;> cases status <;>
          simp_all [inv, stepR, setTicketOp, overrideTicket, okR, failR, R.andThen, docAssert, TArg.ext, Outcome.isAssertion,
            keysOk, usable, freshObjs, pskSynced, slots, St.pObj]
  | setPsk a =>
    cases done with
    | true => simp_all [stepR, okR, Outcome.isAssertion]
    | false =>
      cases hu : (disabled || !hasCache) with
      | true => simp_all [stepR, setPskOp, failR, Outcome.isAssertion]
      | false =>
        cases a <;> cases locked <;> cases state <;> cases golang <;> cases status <;>
          simp_all [inv, stepR, setPskOp, overridePsk, okR, failR, R.andThen, docAssert, PArg.ext, Outcome.isAssertion,
            keysOk, usable, freshObjs, pskSynced, slots, St.pObj]
  | buildNoSession => simp [isSetter] at hop
  | build lr => simp [isSetter] at hop
  | handshake lr => simp [isSetter] at hop



end SessionCtl
