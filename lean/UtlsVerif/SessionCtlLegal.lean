import UtlsVerif.SessionCtlFacts
/-!
# SessionCtlLegal — documented call orders, part 1

`pinv`: the invariant of (state, documentation automaton) pairs along call orders the
documentation allows; it holds at `UClient` and is preserved by `SetSessionCache` and the setters,
which succeed whenever the documentation allows them.
-/
namespace SessionCtl

/-- Well-formed configurations for the "documented orders succeed" theorems: resumption with a missing
extension is skipped (`skipResumptionOnNilExtension`, true for every predefined id), or the spec
has both or none of the two session extensions. Otherwise a plain build may end in the documented
`assertCanSkip` panic. -/
def Cfg.WF (cfg : Cfg) : Bool := cfg.skipOnNil || (cfg.specT == cfg.specP)

/-- invariant of (state, documentation automaton) pairs along documented call orders. -/
def pinvRest (cfg : Cfg) (s : St) (d : Doc) : Bool :=
  d.cache == usable cfg s
  && d.done == s.hsDone
  && (if cfg.golang then (!d.built || s.status == .byGo) else d.built == s.locked)
  && (!(d.built && d.injected) || d.fresh)
  && (!d.built || (s.sharesFilled && s.keysHeld))
  && (!(cfg.golang && s.status == .byGo) || (s.sharesFilled && s.keysHeld))
  && (!cfg.custom || (s.sharesFilled && s.tRef.isSome == cfg.specT && s.pRef.isSome == cfg.specP
                      && (cfg.golang || (s.lT == s.tRef && s.lP == s.pRef))))
  && (d.injT.isNone || d.injP.isNone)
  && (match d.injT with
      | none => true
      | some a =>
        a.isInit && cfg.specT && !cfg.golang && !cfg.custom && s.tRef == some .user && s.userT == a.ext
        && (if d.built then s.state == .ticketAllSet && s.hsSession == a.ext.sess && s.helloTicket == a.ext.ticket
            else s.state == .ticketInit)
        && (!d.fresh || (s.lT == some .user && s.raw == some (slots s))))
  && (match d.injP with
      | none => true
      | some a =>
        a.isInit && cfg.specP && !cfg.golang && !cfg.custom && s.pRef == some .user && s.userP == a.ext
        && (if d.built then s.state == .pskAllSet && s.hsSession == a.ext.sess && s.hsEarly == a.ext.sess && s.helloPsk == a.ext.id
            else s.state == .pskInit)
        && (!d.fresh || (s.lP == some .user && s.raw == some (slots s))))
  && (d.injected || d.built || s.state == .noSession)
  && (!d.done || s.raw.isSome)

def pinv (cfg : Cfg) (s : St) (d : Doc) : Bool := inv cfg s && pinvRest cfg s d

theorem pinv_inv {cfg : Cfg} {s : St} {d : Doc} (h : pinv cfg s d = true) : inv cfg s = true := by
  simp only [pinv, Bool.and_eq_true] at h; exact h.1

theorem pinv_start (cfg : Cfg) (c : Bool) : pinv cfg (St.start cfg c) (Doc.init cfg c) = true := by
  obtain ⟨golang, custom, cT, cP, skip, disabled⟩ := cfg
  cases custom <;> cases golang <;> cases cT <;> cases cP <;> cases c <;> cases disabled <;>
    simp [pinv, pinvRest, Doc.init, Doc.injected, St.start, St.init, inv, applyPreset, syncSessionExts, okR, failR, R.andThen, docAssert, uAssert, keysOk, usable, freshObjs, pskSynced]


theorem pinv_setCache (cfg : Cfg) (s : St) (d d' : Doc) (h : pinv cfg s d = true)
    (hl : legalStep cfg d .setCache = some d') :
    (stepR cfg s .setCache).2 = none ∧ pinv cfg (stepR cfg s .setCache).1 d' = true := by
  have hi := (setters_inv cfg s .setCache (Or.inr rfl) (pinv_inv h)).1
  obtain ⟨hasCache, state, locked, tracker, calling, status, tRef, pRef, specT, userT, specP, userP, lT, lP, hsS, hsE, hT, hP, raw, ts, shares, filled, held, done⟩ := s
  obtain ⟨cache, built, ddone, injT, injP, fresh⟩ := d
  obtain ⟨golang, custom, cT, cP, skip, disabled⟩ := cfg
  cases ddone with
  | true => simp [legalStep] at hl
  | false =>
    simp only [legalStep, Bool.false_eq_true, if_false, Option.some.injEq] at hl
    subst hl
    cases done with
    | true => simp [pinv, pinvRest] at h
    | false =>
      simp only [stepR, Bool.false_eq_true, if_false, okR] at hi ⊢
      refine ⟨by simp, ?_⟩
      simp only [pinv, pinvRest, Bool.and_eq_true] at h ⊢
      simp only [hi]
      cases injT <;> cases injP <;> cases golang <;> cases built <;> cases locked <;> cases custom <;> cases fresh <;> cases status <;> simp_all [usable, slots, Doc.injected]


theorem inv_golang_unlocked {cfg : Cfg} {s : St} (h : inv cfg s = true) (hg : cfg.golang = true) : s.locked = false := by
  simp only [inv, hg, if_true, Bool.and_eq_true, Bool.not_eq_true'] at h
  exact h.1.1.1.1.1.2.1.1.1.1

set_option maxHeartbeats 4000000 in
theorem pinv_setTicket' (cfg : Cfg) (s : St) (d : Doc) (a : TArg) (h : pinv cfg s d = true) :
    (match legalStep cfg d (.setTicket a) with
     | none => true
     | some d' => (stepR cfg s (.setTicket a)).2.isNone && pinv cfg (stepR cfg s (.setTicket a)).1 d') = true := by
  have hi := (setters_inv cfg s (.setTicket a) (Or.inl rfl) (pinv_inv h)).1
  have hgl := inv_golang_unlocked (pinv_inv h)
  obtain ⟨hasCache, state, locked, tracker, calling, status, tRef, pRef, specT, userT, specP, userP, lT, lP, hsS, hsE, hT, hP, raw, ts, shares, filled, held, done⟩ := s
  obtain ⟨cache, built, ddone, injT, injP, fresh⟩ := d
  obtain ⟨golang, custom, cT, cP, skip, disabled⟩ := cfg
  cases ddone <;> cases cache <;> simp only [legalStep, Bool.false_eq_true, Bool.true_or, Bool.or_true, Bool.or_false, Bool.not_true, Bool.not_false, if_false, if_true, reduceCtorEq]
  cases done with
  | true => simp [pinv, pinvRest] at h
  | false =>
    cases a with
    | nil =>
      cases disabled <;> cases hasCache <;> simp_all [pinv, pinvRest, usable, stepR, setTicketOp, okR]
    | uninit | real | forged | initNil =>
      cases built <;> cases injT <;> cases injP <;> cases custom <;> cases golang <;> cases cT <;>
        simp [Doc.injected, TArg.isInit] <;>
        cases locked <;> cases state <;> cases disabled <;> cases hasCache <;> cases fresh <;>
        simp_all [pinv, pinvRest, usable, stepR, setTicketOp, overrideTicket, okR, failR, R.andThen, docAssert, TArg.ext, Doc.injected, TArg.isInit, slots]

set_option maxHeartbeats 4000000 in
theorem pinv_setPsk' (cfg : Cfg) (s : St) (d : Doc) (a : PArg) (h : pinv cfg s d = true) :
    (match legalStep cfg d (.setPsk a) with
     | none => true
     | some d' => (stepR cfg s (.setPsk a)).2.isNone && pinv cfg (stepR cfg s (.setPsk a)).1 d') = true := by
  have hi := (setters_inv cfg s (.setPsk a) (Or.inl rfl) (pinv_inv h)).1
  have hgl := inv_golang_unlocked (pinv_inv h)
  obtain ⟨hasCache, state, locked, tracker, calling, status, tRef, pRef, specT, userT, specP, userP, lT, lP, hsS, hsE, hT, hP, raw, ts, shares, filled, held, done⟩ := s
  obtain ⟨cache, built, ddone, injT, injP, fresh⟩ := d
  obtain ⟨golang, custom, cT, cP, skip, disabled⟩ := cfg
  cases ddone <;> cases cache <;> simp only [legalStep, Bool.false_eq_true, Bool.true_or, Bool.or_true, Bool.or_false, Bool.not_true, Bool.not_false, if_false, if_true, reduceCtorEq]
  cases done with
  | true => simp [pinv, pinvRest] at h
  | false =>
    cases a with
    | nil =>
      cases disabled <;> cases hasCache <;> simp_all [pinv, pinvRest, usable, stepR, setPskOp, okR]
    | uninit | real =>
      cases built <;> cases injT <;> cases injP <;> cases custom <;> cases golang <;> cases cP <;>
        simp [Doc.injected, PArg.isInit] <;>
        cases locked <;> cases state <;> cases disabled <;> cases hasCache <;> cases fresh <;>
        simp_all [pinv, pinvRest, usable, stepR, setPskOp, overridePsk, okR, failR, R.andThen, docAssert, PArg.ext, Doc.injected, PArg.isInit, slots]


end SessionCtl
