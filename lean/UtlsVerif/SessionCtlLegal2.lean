import UtlsVerif.SessionCtlLegalBuild
import UtlsVerif.SessionCtlLegalHs
import UtlsVerif.SessionCtlLegalSetC
import UtlsVerif.SessionCtlLegalSetT
import UtlsVerif.SessionCtlLegalSetP
/-!
# SessionCtlLegal2 — every call the documentation allows succeeds and preserves `pinv` (`pinv_step`)
-/
namespace SessionCtl

/-- every call the documentation allows succeeds and preserves the product invariant. -/
theorem pinv_step (cfg : Cfg) (hwf : cfg.WF = true) (s : St) (d d' : Doc) (op : Op)
    (h : pinv cfg s d = true) (hl : legalStep cfg d op = some d') :
    (step cfg s op).2 = .ok ∧ pinv cfg (step cfg s op).1 d' = true := by
  have hdone := pinv_done h
  have key : ∀ (r : R), stepR cfg s op = r → r.2 = none ∧ pinv cfg r.1 d' = true →
      (step cfg s op).2 = .ok ∧ pinv cfg (step cfg s op).1 d' = true := by
    intro r hr hh; subst hr; simp only [step, outcomeOf, hh.1, Option.getD_none]; exact ⟨trivial, hh.2⟩
  cases op with
  | setCache => exact key _ rfl (pinv_setCache cfg s d d' h hl)
  | setTicket a =>
    have := pinv_setTicket' cfg s d a h
    rw [hl] at this
    simp only [Bool.and_eq_true, Option.isNone_iff_eq_none] at this
    exact key _ rfl this
  | setPsk a =>
    have := pinv_setPsk' cfg s d a h
    rw [hl] at this
    simp only [Bool.and_eq_true, Option.isNone_iff_eq_none] at this
    exact key _ rfl this
  | edit =>
    cases hdn : d.done with
    | true => simp [legalStep, hdn] at hl
    | false =>
      simp only [legalStep, hdn, Bool.false_eq_true, if_false, Option.some.injEq] at hl
      subst hl
      exact key (s, none) (by simp [stepR, hdone, hdn, okR]) ⟨rfl, h⟩
  | buildNoSession =>
    cases hdn : d.done with
    | true => simp [legalStep, hdn] at hl
    | false =>
      simp only [legalStep, hdn, Bool.false_eq_true, if_false, Option.some.injEq] at hl
      have hb := pinv_build cfg hwf false .none s d h hdn
      have hd' : d.afterBuild false = d' := by rw [← hl]; simp [Doc.afterBuild, hdn]
      rw [hd'] at hb
      exact key (buildHandshakeState cfg false .none s) (by simp [stepR, hdone, hdn]) hb
  | build lr =>
    cases hdn : d.done with
    | true => simp [legalStep, hdn] at hl
    | false =>
      simp only [legalStep, hdn, Bool.false_eq_true, if_false, Option.some.injEq] at hl
      have hb := pinv_build cfg hwf true lr s d h hdn
      have hd' : d.afterBuild true = d' := by rw [← hl]; simp [Doc.afterBuild, hdn]
      rw [hd'] at hb
      exact key (buildHandshakeState cfg true lr s) (by simp [stepR, hdone, hdn]) hb
  | handshake lr =>
    cases hdn : d.done with
    | true => simp [legalStep, hdn] at hl
    | false =>
      simp only [legalStep, hdn, Bool.false_eq_true, if_false, Option.some.injEq] at hl
      have hb := pinv_build cfg hwf true lr s d h hdn
      refine key (handshake cfg lr s) (by simp [stepR, hdone, hdn]) ?_
      rw [handshake_eq]
      generalize hr : buildHandshakeState cfg true lr s = r at hb ⊢
      obtain ⟨s1, o1⟩ := r
      obtain ⟨ho, hp1⟩ := hb
      simp only at ho; subst ho
      simp only [R.andThen]
      have hbuilt : (d.afterBuild true).built = true := by simp [Doc.afterBuild]
      have hdn1 : (d.afterBuild true).done = false := by simp [Doc.afterBuild, hdn]
      have hlock : cfg.golang = false → s1.locked = true := by
        intro hg
        have := (build_parrot_inv cfg true lr s hg (pinv_inv h) (by rw [hdone, hdn])).2.2.2
        rw [hr] at this
        exact this rfl rfl
      have htr : cfg.golang = true → s1.tracker = .never := by
        intro hg
        have := (build_golang_inv cfg true lr s hg (pinv_inv h) (by rw [hdone, hdn])).2.2.2.2
        rw [hr] at this
        exact this
      have hbf : (s1.state != .pskAllSet || s1.binderFresh) = true := by
        cases hg : cfg.golang with
        | false =>
          have := build_binder_fresh cfg lr s hg (pinv_inv h) (by rw [hdone, hdn]) (by rw [hr])
          rw [hr] at this
          exact this
        | true =>
          have hi := pinv_inv hp1
          simp only [inv, hg, if_true, Bool.and_eq_true, bne_iff_ne, ne_eq] at hi
          have : s1.state ≠ .pskAllSet := hi.1.1.1.1.1.2.1.2
          simp [this]
      have ht := pinv_hsTail cfg lr s1 (d.afterBuild true) hp1 hbuilt hdn1 hlock htr hbf
      have hd' : { d.afterBuild true with done := true } = d' := by rw [← hl]; simp [Doc.afterBuild, hdn]
      rw [hd'] at ht
      exact ht

end SessionCtl
