import UtlsVerif.SessionCtlLegal
/-!
# SessionCtlLegal2 — documented call orders, part 2

Builds and `Handshake` preserve the product invariant `pinv` and cannot fail on a documented call
order (well-formed configuration); `pinv_step` assembles all calls.
-/
namespace SessionCtl

/-- the documentation automaton after a build call. -/
def Doc.afterBuild (d : Doc) (load : Bool) : Doc :=
  { d with built := d.built || load, fresh := d.injected }

set_option maxHeartbeats 2000000 in
theorem pinv_build_golang (cfg : Cfg) (load : Bool) (lr : LoadRes) (s : St) (d : Doc) (hg : cfg.golang = true)
    (h : pinv cfg s d = true) (hdn : d.done = false) :
    (buildHandshakeState cfg load lr s).2 = none ∧ pinv cfg (buildHandshakeState cfg load lr s).1 (d.afterBuild load) = true := by
  have hb := build_golang_inv cfg load lr s hg (pinv_inv h) (by
    simp only [pinv, pinvRest, Bool.and_eq_true, beq_iff_eq] at h; simp_all)
  refine ⟨hb.2.1, ?_⟩
  obtain ⟨hi, hnone, -, -, -⟩ := hb
  simp only [pinv, hi, Bool.true_and]
  clear hi
  simp only [pinv, Bool.and_eq_true] at h
  replace h := h.2
  obtain ⟨hasCache, state, locked, tracker, calling, status, tRef, pRef, specT, userT, specP, userP, lT, lP, hsS, hsE, hT, hP, raw, ts, shares, filled, held, done⟩ := s
  obtain ⟨cache, built, ddone, injT, injP, fresh⟩ := d
  obtain ⟨golang, custom, cT, cP, skip, disabled⟩ := cfg
  simp only at hg hdn; subst hg; subst hdn
  cases status <;> cases injT <;> cases injP <;> cases load <;> cases built <;> cases custom <;>
    simp_all [pinvRest, Doc.afterBuild, Doc.injected, buildHandshakeState, uAssert, okR, failR, R.andThen, usable]


set_option maxHeartbeats 4000000 in
theorem pinv_build_parrot (cfg : Cfg) (load : Bool) (lr : LoadRes) (s : St) (d : Doc) (hg : cfg.golang = false)
    (hwf : cfg.WF = true) (h : pinv cfg s d = true) (hdn : d.done = false) :
    (buildHandshakeState cfg load lr s).2 = none ∧ pinv cfg (buildHandshakeState cfg load lr s).1 (d.afterBuild load) = true := by
  have hinv := pinv_inv h
  have hrest : pinvRest cfg s d = true := by simp only [pinv, Bool.and_eq_true] at h; exact h.2
  have hd : s.hsDone = false := by
    simp only [pinvRest, Bool.and_eq_true, beq_iff_eq] at hrest; simp_all
  have hb := build_parrot cfg load lr s hg hinv hd
  have hbi := (build_parrot_inv cfg load lr s hg hinv hd).1
  generalize buildHandshakeState cfg load lr s = r at hb hbi ⊢
  obtain ⟨s', o⟩ := r
  simp only at hbi
  simp only [pinv, hbi, Bool.true_and]
  obtain ⟨golang, custom, cT, cP, skip, disabled⟩ := cfg
  obtain ⟨cache, built, ddone, injT, injP, fresh⟩ := d
  simp only at hg hdn; subst hg; subst hdn
  cases o with
  | none =>
    refine ⟨rfl, ?_⟩
    rcases hb with ⟨hl, hs⟩ | ⟨hst, s1, ⟨hm1, hp⟩, ht⟩
    · -- locked: nothing changes
      simp only [lockedSame, sessionView, sameObjs, Bool.and_eq_true, beq_iff_eq, Prod.mk.injEq] at hs
      simp only [pinvRest, Bool.and_eq_true, Bool.or_eq_true, beq_iff_eq] at hrest
      cases injT <;> cases injP <;> cases load <;> cases built <;> cases custom <;> cases fresh <;>
        simp_all [pinvRest, Doc.afterBuild, Doc.injected, usable, slots]
    · have hlk : s.locked = false := by
        have := hinv; simp only [inv, Bool.and_eq_true, beq_iff_eq] at this; simp_all
      simp only [pinvRest, Bool.and_eq_true, Bool.or_eq_true, beq_iff_eq] at hrest
      simp only [tailOk, Bool.and_eq_true, beq_iff_eq] at ht
      simp only [mid, Bool.and_eq_true, Bool.or_eq_true, beq_iff_eq] at hm1
      cases custom with
      | true =>
        simp only [if_true] at hp; subst hp
        clear hinv h hbi
        cases injT with
        | some a => simp at hrest
        | none =>
          cases injP with
          | some a => simp at hrest
          | none =>
            simp only [Doc.injected, Option.isSome_none, Bool.or_false, Bool.and_false, Bool.not_false, Bool.false_eq_true, if_false, Bool.not_true, false_or, true_or, or_true, and_true, true_and] at hrest
            cases load <;> cases built <;> cases fresh <;>
              simp only [pinvRest, Doc.afterBuild, Doc.injected, usable, keysOk, Option.isSome_none, Bool.or_false, Bool.and_eq_true, Bool.or_eq_true, beq_iff_eq, Bool.false_eq_true, if_false, if_true, Bool.or_true, Bool.true_or, Bool.not_eq_true'] at ht hm1 hrest ⊢ <;>
              grind
      | false =>
        simp only [Bool.false_eq_true, if_false, presetOk, sameObjs, mid, Bool.and_eq_true, Bool.or_eq_true, beq_iff_eq] at hp
        clear hinv h hbi
        have hbf : built = false := by
          have h1 : built = s.locked := by grind
          rw [h1, hlk]
        subst hbf
        cases load <;> cases injT <;> cases injP <;>
          simp only [pinvRest, Doc.afterBuild, Doc.injected, usable, keysOk, slots, sameObjs, Option.isSome_none, Option.isSome_some, Option.isNone_none, Option.isNone_some,
            Bool.or_false, Bool.and_eq_true, Bool.or_eq_true, beq_iff_eq, Bool.false_eq_true, if_false, if_true, Bool.or_true, Bool.true_or,
            Bool.not_eq_true', Bool.and_false, Bool.false_and, Bool.not_false, Bool.not_true, Bool.false_or] at ht hm1 hrest hp ⊢ <;>
          grind [St.tObj, St.pObj]
  | some o =>
    exfalso
    obtain ⟨hst, hb⟩ := hb
    have hlk : s.locked = false := by
      have := hinv; simp only [inv, Bool.and_eq_true, beq_iff_eq] at this; grind
    clear hinv h hbi
    simp only [Cfg.WF, Bool.or_eq_true, beq_iff_eq] at hwf
    simp only [pinvRest, Doc.injected, usable, Bool.and_eq_true, Bool.or_eq_true, beq_iff_eq, Bool.false_eq_true, if_false,
      Bool.not_eq_true', Bool.false_and, Bool.not_false] at hrest
    rcases hb with ⟨hc, hf⟩ | ⟨s1, ⟨hm1, hp⟩, hf⟩
    · simp only [presetFail, Bool.and_eq_true, Bool.or_eq_true, beq_iff_eq, Bool.not_eq_true'] at hf
      cases injT <;> cases injP <;> grind
    · simp only [tailFail, Bool.and_eq_true, bne_iff_ne, beq_iff_eq, Bool.not_eq_true'] at hf
      cases custom with
      | true =>
        simp only [if_true] at hp; subst hp
        cases injT <;> cases injP <;> cases htr : s1.tRef <;> cases hpr : s1.pRef <;>
          simp only [htr, hpr, Option.isSome_none, Option.isSome_some, Option.isNone_none, Option.isNone_some, ne_eq, not_true_eq_false, and_false, false_and] at hf hrest <;>
          grind
      | false =>
        simp only [Bool.false_eq_true, if_false, presetOk, Bool.and_eq_true, beq_iff_eq] at hp
        cases cT <;> cases cP <;> cases injT <;> cases injP <;> cases htr : s1.tRef <;> cases hpr : s1.pRef <;>
          simp only [htr, hpr, Option.isSome_none, Option.isSome_some, Option.isNone_none, Option.isNone_some, ne_eq, not_true_eq_false, and_false, false_and] at hf hp <;>
          grind


set_option maxHeartbeats 2000000 in
theorem pinv_hsTail (cfg : Cfg) (lr : LoadRes) (s : St) (d : Doc) (h : pinv cfg s d = true)
    (hb : d.built = true) (hdn : d.done = false)
    (hp : cfg.golang = false → s.locked = true) (hgo : cfg.golang = true → s.tracker = .never) :
    (hsTail cfg lr s).2 = none ∧ pinv cfg (hsTail cfg lr s).1 { d with done := true } = true := by
  have ht := hsTail_inv cfg lr s (pinv_inv h) hp hgo
  refine ⟨ht.2.1, ?_⟩
  have hrest : pinvRest cfg s d = true := by simp only [pinv, Bool.and_eq_true] at h; exact h.2
  have hlr : s.locked = true → s.raw.isSome = true := by
    intro hl; have := pinv_inv h
    simp only [inv, Bool.and_eq_true, Bool.or_eq_true, beq_iff_eq, hl, Bool.not_true, Bool.false_eq_true, false_or] at this
    rw [this.2]; rfl
  have hgl := inv_golang_unlocked (pinv_inv h)
  simp only [pinv, ht.1, Bool.true_and]
  clear ht h
  obtain ⟨hasCache, state, locked, tracker, calling, status, tRef, pRef, specT, userT, specP, userP, lT, lP, hsS, hsE, hT, hP, raw, ts, shares, filled, held, done⟩ := s
  obtain ⟨cache, built, ddone, injT, injP, fresh⟩ := d
  obtain ⟨golang, custom, cT, cP, skip, disabled⟩ := cfg
  simp only at hb hdn; subst hb; subst hdn
  cases golang with
  | false =>
    have hl : locked = true := by simpa using hp
    subst hl
    cases injT <;> cases injP <;> cases fresh <;> cases custom <;> simp_all [pinvRest, hsTail, okR, usable, slots, Doc.injected]
  | true =>
    have hl : locked = false := by simpa using hgl
    subst hl
    cases injT <;> cases injP <;> cases lr <;> cases status <;> cases disabled <;> cases hasCache <;> cases custom <;>
      simp_all [pinvRest, hsTail, loadSession, okR, failR, R.andThen, usable, Doc.injected]


theorem pinv_done {cfg : Cfg} {s : St} {d : Doc} (h : pinv cfg s d = true) : s.hsDone = d.done := by
  simp only [pinv, pinvRest, Bool.and_eq_true, beq_iff_eq] at h
  grind

theorem pinv_build (cfg : Cfg) (hwf : cfg.WF = true) (load : Bool) (lr : LoadRes) (s : St) (d : Doc)
    (h : pinv cfg s d = true) (hdn : d.done = false) :
    (buildHandshakeState cfg load lr s).2 = none ∧ pinv cfg (buildHandshakeState cfg load lr s).1 (d.afterBuild load) = true := by
  cases hg : cfg.golang with
  | false => exact pinv_build_parrot cfg load lr s d hg hwf h hdn
  | true => exact pinv_build_golang cfg load lr s d hg h hdn

/-- every call the documentation allows succeeds and preserves the product invariant. -/
theorem pinv_step (cfg : Cfg) (hwf : cfg.WF = true) (s : St) (d d' : Doc) (op : Op)
    (h : pinv cfg s d = true) (hl : legalStep cfg d op = some d') :
    (step cfg s op).2 = .ok ∧ pinv cfg (step cfg s op).1 d' = true := by
  have hdone := pinv_done h
  have key : ∀ (r : R), stepR cfg s op = r → r.2 = none ∧ pinv cfg r.1 d' = true →
      (step cfg s op).2 = .ok ∧ pinv cfg (step cfg s op).1 d' = true := by
    intro r hr hh; subst hr; simp only [step, outcomeOf, hh.1, Option.getD_none]; exact ⟨trivial, hh.2⟩
  cases op with
  | setCache => exact key _ rfl (pinv_setCache cfg s d d' h hl)
  | setTicket a =>
    have := pinv_setTicket' cfg s d a h
    rw [hl] at this
    simp only [Bool.and_eq_true, Option.isNone_iff_eq_none] at this
    exact key _ rfl this
  | setPsk a =>
    have := pinv_setPsk' cfg s d a h
    rw [hl] at this
    simp only [Bool.and_eq_true, Option.isNone_iff_eq_none] at this
    exact key _ rfl this
  | buildNoSession =>
    cases hdn : d.done with
    | true => simp [legalStep, hdn] at hl
    | false =>
      simp only [legalStep, hdn, Bool.false_eq_true, if_false, Option.some.injEq] at hl
      have hb := pinv_build cfg hwf false .none s d h hdn
      have hd' : d.afterBuild false = d' := by rw [← hl]; simp [Doc.afterBuild, hdn]
      rw [hd'] at hb
      exact key (buildHandshakeState cfg false .none s) (by simp [stepR, hdone, hdn]) hb
  | build lr =>
    cases hdn : d.done with
    | true => simp [legalStep, hdn] at hl
    | false =>
      simp only [legalStep, hdn, Bool.false_eq_true, if_false, Option.some.injEq] at hl
      have hb := pinv_build cfg hwf true lr s d h hdn
      have hd' : d.afterBuild true = d' := by rw [← hl]; simp [Doc.afterBuild, hdn]
      rw [hd'] at hb
      exact key (buildHandshakeState cfg true lr s) (by simp [stepR, hdone, hdn]) hb
  | handshake lr =>
    cases hdn : d.done with
    | true => simp [legalStep, hdn] at hl
    | false =>
      simp only [legalStep, hdn, Bool.false_eq_true, if_false, Option.some.injEq] at hl
      have hb := pinv_build cfg hwf true lr s d h hdn
      refine key (handshake cfg lr s) (by simp [stepR, hdone, hdn]) ?_
      rw [handshake_eq]
      generalize hr : buildHandshakeState cfg true lr s = r at hb ⊢
      obtain ⟨s1, o1⟩ := r
      obtain ⟨ho, hp1⟩ := hb
      simp only at ho; subst ho
      simp only [R.andThen]
      have hbuilt : (d.afterBuild true).built = true := by simp [Doc.afterBuild]
      have hdn1 : (d.afterBuild true).done = false := by simp [Doc.afterBuild, hdn]
      have hlock : cfg.golang = false → s1.locked = true := by
        intro hg
        have := (build_parrot_inv cfg true lr s hg (pinv_inv h) (by rw [hdone, hdn])).2.2.2
        rw [hr] at this
        exact this rfl rfl
      have htr : cfg.golang = true → s1.tracker = .never := by
        intro hg
        have := (build_golang_inv cfg true lr s hg (pinv_inv h) (by rw [hdone, hdn])).2.2.2.2
        rw [hr] at this
        exact this
      have ht := pinv_hsTail cfg lr s1 (d.afterBuild true) hp1 hbuilt hdn1 hlock htr
      have hd' : { d.afterBuild true with done := true } = d' := by rw [← hl]; simp [Doc.afterBuild, hdn]
      rw [hd'] at ht
      exact ht

end SessionCtl
