import UtlsVerif.SessionCtlStep
/-!
# SessionCtlLegalBuild — documented builds succeed and preserve `pinv`
-/
namespace SessionCtl

set_option maxHeartbeats 2000000 in
theorem pinv_build_golang (cfg : Cfg) (load : Bool) (lr : LoadRes) (s : St) (d : Doc) (hg : cfg.golang = true)
    (h : pinv cfg s d = true) (hdn : d.done = false) :
    (buildHandshakeState cfg load lr s).2 = none ∧ pinv cfg (buildHandshakeState cfg load lr s).1 (d.afterBuild load) = true := by
  have hb := build_golang_inv cfg load lr s hg (pinv_inv h) (by
    simp only [pinv, pinvRest, Bool.and_eq_true, beq_iff_eq] at h; simp_all)
  refine ⟨hb.2.1, ?_⟩
  obtain ⟨hi, hnone, -, -, -⟩ := hb
  simp only [pinv, hi, Bool.true_and]
  clear hi
  simp only [pinv, Bool.and_eq_true] at h
  replace h := h.2
  obtain ⟨hasCache, state, locked, tracker, calling, status, tRef, pRef, specT, userT, specP, userP, lT, lP, hsS, hsE, hT, hP, raw, ts, shares, filled, held, done, bfresh⟩ := s
  obtain ⟨cache, built, ddone, injT, injP, fresh⟩ := d
  obtain ⟨golang, custom, cT, cP, skip, disabled⟩ := cfg
  simp only at hg hdn; subst hg; subst hdn
  cases status <;> cases injT <;> cases injP <;> cases load <;> cases built <;> cases custom <;>
    simp_all [pinvRest, Doc.afterBuild, Doc.injected, buildHandshakeState, uAssert, okR, failR, R.andThen, usable]

set_option maxHeartbeats 4000000 in
theorem pinv_build_parrot (cfg : Cfg) (load : Bool) (lr : LoadRes) (s : St) (d : Doc) (hg : cfg.golang = false)
    (hwf : cfg.WF = true) (h : pinv cfg s d = true) (hdn : d.done = false) :
    (buildHandshakeState cfg load lr s).2 = none ∧ pinv cfg (buildHandshakeState cfg load lr s).1 (d.afterBuild load) = true := by
  have hinv := pinv_inv h
  have hrest : pinvRest cfg s d = true := by simp only [pinv, Bool.and_eq_true] at h; exact h.2
  have hd : s.hsDone = false := by
    simp only [pinvRest, Bool.and_eq_true, beq_iff_eq] at hrest; simp_all
  have hb := build_parrot cfg load lr s hg hinv hd
  have hbi := (build_parrot_inv cfg load lr s hg hinv hd).1
  generalize buildHandshakeState cfg load lr s = r at hb hbi ⊢
  obtain ⟨s', o⟩ := r
  simp only at hbi
  simp only [pinv, hbi, Bool.true_and]
  obtain ⟨golang, custom, cT, cP, skip, disabled⟩ := cfg
  obtain ⟨cache, built, ddone, injT, injP, fresh⟩ := d
  simp only at hg hdn; subst hg; subst hdn
  cases o with
  | none =>
    refine ⟨rfl, ?_⟩
    rcases hb with ⟨hl, hs⟩ | ⟨hst, s1, ⟨hm1, hp⟩, ht⟩
    · -- locked: nothing changes
      simp only [lockedSame, sessionView, sameObjs, Bool.and_eq_true, beq_iff_eq, Prod.mk.injEq] at hs
      simp only [pinvRest, Bool.and_eq_true, Bool.or_eq_true, beq_iff_eq] at hrest
      cases injT <;> cases injP <;> cases load <;> cases built <;> cases custom <;> cases fresh <;>
        simp_all [pinvRest, Doc.afterBuild, Doc.injected, usable, slots]
    · have hlk : s.locked = false := by
        have := hinv; simp only [inv, Bool.and_eq_true, beq_iff_eq] at this; simp_all
      simp only [pinvRest, Bool.and_eq_true, Bool.or_eq_true, beq_iff_eq] at hrest
      simp only [tailOk, Bool.and_eq_true, beq_iff_eq] at ht
      simp only [mid, Bool.and_eq_true, Bool.or_eq_true, beq_iff_eq] at hm1
      cases custom with
      | true =>
        simp only [if_true] at hp; subst hp
        clear hinv h hbi
        cases injT with
        | some a => simp at hrest
        | none =>
          cases injP with
          | some a => simp at hrest
          | none =>
            simp only [Doc.injected, Option.isSome_none, Bool.or_false, Bool.and_false, Bool.not_false, Bool.false_eq_true, if_false, Bool.not_true, false_or, true_or, or_true, and_true, true_and] at hrest
            cases load <;> cases built <;> cases fresh <;>
              simp only [pinvRest, Doc.afterBuild, Doc.injected, usable, keysOk, Option.isSome_none, Bool.or_false, Bool.and_eq_true, Bool.or_eq_true, beq_iff_eq, Bool.false_eq_true, if_false, if_true, Bool.or_true, Bool.true_or, Bool.not_eq_true'] at ht hm1 hrest ⊢ <;>
              grind
      | false =>
        simp only [Bool.false_eq_true, if_false, presetOk, sameObjs, mid, Bool.and_eq_true, Bool.or_eq_true, beq_iff_eq] at hp
        clear hinv h hbi
        have hbf : built = false := by
          have h1 : built = s.locked := by grind
          rw [h1, hlk]
        subst hbf
        cases load <;> cases injT <;> cases injP <;>
          simp only [pinvRest, Doc.afterBuild, Doc.injected, usable, keysOk, slots, sameObjs, Option.isSome_none, Option.isSome_some, Option.isNone_none, Option.isNone_some,
            Bool.or_false, Bool.and_eq_true, Bool.or_eq_true, beq_iff_eq, Bool.false_eq_true, if_false, if_true, Bool.or_true, Bool.true_or,
            Bool.not_eq_true', Bool.and_false, Bool.false_and, Bool.not_false, Bool.not_true, Bool.false_or] at ht hm1 hrest hp ⊢ <;>
          grind [St.tObj, St.pObj]
  | some o =>
    exfalso
    obtain ⟨hst, hb⟩ := hb
    have hlk : s.locked = false := by
      have := hinv; simp only [inv, Bool.and_eq_true, beq_iff_eq] at this; grind
    clear hinv h hbi
    simp only [Cfg.WF, Bool.or_eq_true, beq_iff_eq] at hwf
    simp only [pinvRest, Doc.injected, usable, Bool.and_eq_true, Bool.or_eq_true, beq_iff_eq, Bool.false_eq_true, if_false,
      Bool.not_eq_true', Bool.false_and, Bool.not_false] at hrest
    rcases hb with ⟨hc, hf⟩ | ⟨s1, ⟨hm1, hp⟩, hf⟩
    · simp only [presetFail, Bool.and_eq_true, Bool.or_eq_true, beq_iff_eq, Bool.not_eq_true'] at hf
      cases injT <;> cases injP <;> grind
    · simp only [tailFail, Bool.and_eq_true, bne_iff_ne, beq_iff_eq, Bool.not_eq_true'] at hf
      cases custom with
      | true =>
        simp only [if_true] at hp; subst hp
        cases injT <;> cases injP <;> cases htr : s1.tRef <;> cases hpr : s1.pRef <;>
          simp only [htr, hpr, Option.isSome_none, Option.isSome_some, Option.isNone_none, Option.isNone_some, ne_eq, not_true_eq_false, and_false, false_and] at hf hrest <;>
          grind
      | false =>
        simp only [Bool.false_eq_true, if_false, presetOk, Bool.and_eq_true, beq_iff_eq] at hp
        cases cT <;> cases cP <;> cases injT <;> cases injP <;> cases htr : s1.tRef <;> cases hpr : s1.pRef <;>
          simp only [htr, hpr, Option.isSome_none, Option.isSome_some, Option.isNone_none, Option.isNone_some, ne_eq, not_true_eq_false, and_false, false_and] at hf hp <;>
          grind

theorem pinv_build (cfg : Cfg) (hwf : cfg.WF = true) (load : Bool) (lr : LoadRes) (s : St) (d : Doc)
    (h : pinv cfg s d = true) (hdn : d.done = false) :
    (buildHandshakeState cfg load lr s).2 = none ∧ pinv cfg (buildHandshakeState cfg load lr s).1 (d.afterBuild load) = true := by
  cases hg : cfg.golang with
  | false => exact pinv_build_parrot cfg load lr s d hg hwf h hdn
  | true => exact pinv_build_golang cfg load lr s d hg h hdn

/-- a full build leaves the binder of the marshalled hello computed over exactly the bytes it
marshalled — on every full build, also on a locked connection and whatever was edited in between
(so the binder `Handshake` sends is the binder of the bytes it sends). -/
theorem build_binder_fresh (cfg : Cfg) (lr : LoadRes) (s : St) (hg : cfg.golang = false)
    (h : inv cfg s = true) (hd : s.hsDone = false) (hok : (buildHandshakeState cfg true lr s).2 = none) :
    ((buildHandshakeState cfg true lr s).1.state != .pskAllSet || (buildHandshakeState cfg true lr s).1.binderFresh) = true := by
  have hb := build_parrot cfg true lr s hg h hd
  generalize buildHandshakeState cfg true lr s = r at hb hok ⊢
  obtain ⟨s', o⟩ := r
  simp only at hok; subst hok
  rcases hb with ⟨_, hs⟩ | ⟨_, s1, _, ht⟩
  · simp only [lockedSame, Bool.and_eq_true] at hs
    have := hs.1.1.1.1.1.1.1.1.1.1.1.1.1
    simpa using this
  · simp only [tailOk, Bool.and_eq_true] at ht
    have := ht.1.1.1.1.1.1.1.1.1.1
    simpa using this

end SessionCtl
