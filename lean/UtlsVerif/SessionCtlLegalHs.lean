import UtlsVerif.SessionCtlGolang
/-!
# SessionCtlLegalHs — the handshake tail preserves `pinv`
-/
namespace SessionCtl

set_option maxHeartbeats 2000000 in
theorem pinv_hsTail (cfg : Cfg) (lr : LoadRes) (s : St) (d : Doc) (h : pinv cfg s d = true)
    (hb : d.built = true) (hdn : d.done = false)
    (hp : cfg.golang = false → s.locked = true) (hgo : cfg.golang = true → s.tracker = .never)
    (hbf : (s.state != .pskAllSet || s.binderFresh) = true) :
    (hsTail cfg lr s).2 = none ∧ pinv cfg (hsTail cfg lr s).1 { d with done := true } = true := by
  have ht := hsTail_inv cfg lr s (pinv_inv h) hp hgo
  refine ⟨ht.2.1, ?_⟩
  have hrest : pinvRest cfg s d = true := by simp only [pinv, Bool.and_eq_true] at h; exact h.2
  have hlr : s.locked = true → s.raw.isSome = true := by
    intro hl; have := pinv_inv h
    simp only [inv, Bool.and_eq_true, Bool.or_eq_true, beq_iff_eq, hl, Bool.not_true, Bool.false_eq_true, false_or] at this
    rw [this.2]; rfl
  have hgl := inv_golang_unlocked (pinv_inv h)
  simp only [pinv, ht.1, Bool.true_and]
  clear ht h
  obtain ⟨hasCache, state, locked, tracker, calling, status, tRef, pRef, specT, userT, specP, userP, lT, lP, hsS, hsE, hT, hP, raw, ts, shares, filled, held, done, bfresh⟩ := s
  obtain ⟨cache, built, ddone, injT, injP, fresh⟩ := d
  obtain ⟨golang, custom, cT, cP, skip, disabled⟩ := cfg
  simp only at hb hdn; subst hb; subst hdn
  cases golang with
  | false =>
    have hl : locked = true := by simpa using hp
    subst hl
    cases injT <;> cases injP <;> cases fresh <;> cases custom <;> simp_all [pinvRest, hsTail, okR, usable, slots, Doc.injected]
  | true =>
    have hl : locked = false := by simpa using hgl
    subst hl
    cases injT <;> cases injP <;> cases lr <;> cases status <;> cases disabled <;> cases hasCache <;> cases custom <;>
      simp_all [pinvRest, hsTail, loadSession, okR, failR, R.andThen, usable, Doc.injected]

end SessionCtl
