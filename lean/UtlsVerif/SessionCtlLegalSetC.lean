import UtlsVerif.SessionCtlSetters
import UtlsVerif.SessionCtlGolang
/-!
# SessionCtlLegalSetC — `pinv` at `UClient` and across `SetSessionCache`
-/
namespace SessionCtl

theorem pinv_start (cfg : Cfg) (c : Bool) : pinv cfg (St.start cfg c) (Doc.init cfg c) = true := by
  obtain ⟨golang, custom, cT, cP, skip, disabled⟩ := cfg
  cases custom <;> cases golang <;> cases cT <;> cases cP <;> cases c <;> cases disabled <;>
    simp [pinv, pinvRest, Doc.init, Doc.injected, St.start, St.init, inv, applyPreset, syncSessionExts, okR, failR, R.andThen, docAssert, uAssert, keysOk, usable, freshObjs, pskSynced]

theorem pinv_setCache (cfg : Cfg) (s : St) (d d' : Doc) (h : pinv cfg s d = true)
    (hl : legalStep cfg d .setCache = some d') :
    (stepR cfg s .setCache).2 = none ∧ pinv cfg (stepR cfg s .setCache).1 d' = true := by
  have hi := (setters_inv cfg s .setCache (Or.inr rfl) (pinv_inv h)).1
  obtain ⟨hasCache, state, locked, tracker, calling, status, tRef, pRef, specT, userT, specP, userP, lT, lP, hsS, hsE, hT, hP, raw, ts, shares, filled, held, done, bfresh⟩ := s
  obtain ⟨cache, built, ddone, injT, injP, fresh⟩ := d
  obtain ⟨golang, custom, cT, cP, skip, disabled⟩ := cfg
  cases ddone with
  | true => simp [legalStep] at hl
  | false =>
    simp only [legalStep, Bool.false_eq_true, if_false, Option.some.injEq] at hl
    subst hl
    cases done with
    | true => simp [pinv, pinvRest] at h
    | false =>
      simp only [stepR, Bool.false_eq_true, if_false, okR] at hi ⊢
      refine ⟨by simp, ?_⟩
      simp only [pinv, pinvRest, Bool.and_eq_true] at h ⊢
      simp only [hi]
      cases injT <;> cases injP <;> cases golang <;> cases built <;> cases locked <;> cases custom <;> cases fresh <;> cases status <;> simp_all [usable, slots, Doc.injected]

end SessionCtl
