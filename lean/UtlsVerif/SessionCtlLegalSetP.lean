import UtlsVerif.SessionCtlSetters
/-!
# SessionCtlLegalSetP — `pinv` across `SetPskExtension`
-/
namespace SessionCtl

set_option maxHeartbeats 4000000 in
theorem pinv_setPsk' (cfg : Cfg) (s : St) (d : Doc) (a : PArg) (h : pinv cfg s d = true) :
    (match legalStep cfg d (.setPsk a) with
     | none => true
     | some d' => (stepR cfg s (.setPsk a)).2.isNone && pinv cfg (stepR cfg s (.setPsk a)).1 d') = true := by
  have hi := (setters_inv cfg s (.setPsk a) (Or.inl rfl) (pinv_inv h)).1
  have hgl := inv_golang_unlocked (pinv_inv h)
  obtain ⟨hasCache, state, locked, tracker, calling, status, tRef, pRef, specT, userT, specP, userP, lT, lP, hsS, hsE, hT, hP, raw, ts, shares, filled, held, done, bfresh⟩ := s
  obtain ⟨cache, built, ddone, injT, injP, fresh⟩ := d
  obtain ⟨golang, custom, cT, cP, skip, disabled⟩ := cfg
  cases ddone <;> cases cache <;> simp only [legalStep, Bool.false_eq_true, Bool.true_or, Bool.or_true, Bool.or_false, Bool.not_true, Bool.not_false, if_false, if_true, reduceCtorEq]
  cases done with
  | true => simp [pinv, pinvRest] at h
  | false =>
    cases a with
    | nil =>
      cases disabled <;> cases hasCache <;> simp_all [pinv, pinvRest, usable, stepR, setPskOp, okR]
    | uninit | real =>
      cases built <;> cases injT <;> cases injP <;> cases custom <;> cases golang <;> cases cP <;>
        simp [Doc.injected, PArg.isInit] <;>
        cases locked <;> cases state <;> cases disabled <;> cases hasCache <;> cases fresh <;>
        simp_all [pinv, pinvRest, usable, stepR, setPskOp, overridePsk, okR, failR, R.andThen, docAssert, PArg.ext, Doc.injected, PArg.isInit, slots]

end SessionCtl
