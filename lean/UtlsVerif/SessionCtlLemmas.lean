import UtlsVerif.SessionCtl
/-!
# SessionCtlLemmas — invariants of the `SessionCtl` machine, part 1

Boolean state predicates (`inv`: the boundary invariant that holds between API calls whatever their
order; `mid`, `loadedOk`: what holds between the pieces of one build) and the Hoare-style
specifications of `applyPreset` (with `syncSessionExts`) and `uLoadSession`. Each specification
is proved by splitting on the control fields the function reads and letting `simp` evaluate the
function on the (otherwise symbolic) state.
-/
namespace SessionCtl

/-! ## call sequences -/

theorem final_nil (cfg : Cfg) (s : St) : final cfg s [] = s := rfl

theorem final_cons (cfg : Cfg) (s : St) (op : Op) (ops : List Op) :
    final cfg s (op :: ops) = final cfg (step cfg s op).1 ops := by
  simp [final, run]

theorem outcomes_nil (cfg : Cfg) (s : St) : outcomes cfg s [] = [] := rfl

theorem outcomes_cons (cfg : Cfg) (s : St) (op : Op) (ops : List Op) :
    outcomes cfg s (op :: ops) = (step cfg s op).2 :: outcomes cfg (step cfg s op).1 ops := by
  simp [outcomes, run]

theorem final_append (cfg : Cfg) (s : St) (ops ops' : List Op) :
    final cfg s (ops ++ ops') = final cfg (final cfg s ops) ops' := by
  induction ops generalizing s with
  | nil => rfl
  | cons op ops ih => simp [final_cons, ih]

/-! ## predicates -/

def usable (cfg : Cfg) (s : St) : Bool := s.hasCache && !cfg.disabled

def freshObjs (s : St) : Bool :=
  !s.specT.init && s.specP.sess.isNone && (s.tRef != some .user || !s.userT.init) && (s.pRef != some .user || s.userP.sess.isNone)

def pskSynced (s : St) : Bool :=
  match s.pRef with
  | none => false
  | some r => s.hsSession == (s.pObj r).sess && s.hsEarly == (s.pObj r).sess && (s.helloPsk.isNone || s.helloPsk == (s.pObj r).id)

def keysOk (s : St) : Bool := !s.sharesFilled || s.keysHeld

/-- boundary invariant: holds before and after every API call, whatever the order. -/
def inv (cfg : Cfg) (s : St) : Bool :=
  keysOk s
  && (if cfg.golang then
        !s.locked && s.status != .byUtls && s.state != .ticketAllSet && s.state != .pskAllSet && (s.hsDone || s.tracker == .never)
      else
        s.status != .byGo && (s.locked == (s.status == .byUtls)) && ((s.state != .ticketAllSet && s.state != .pskAllSet) || s.locked))
  && (s.state != .ticketInit || (s.tRef.isSome && usable cfg s && !s.locked))
  && (s.state != .pskInit || (s.pRef.isSome && usable cfg s && !s.locked))
  && (s.state != .pskAllSet || pskSynced s)
  && (s.state != .noSession || freshObjs s)
  && (!s.locked || s.raw == some (slots s))

/-- between the pieces of a parrot build on a hello that is not built yet. -/
def mid (cfg : Cfg) (s : St) : Bool :=
  keysOk s && s.status == .notBuilt && !s.locked && !s.hsDone
  && (s.state == .noSession || s.state == .ticketInit || s.state == .pskInit)
  && (s.state != .ticketInit || (s.tRef.isSome && usable cfg s))
  && (s.state != .pskInit || (s.pRef.isSome && usable cfg s))
  && (s.state != .noSession || freshObjs s)

def sameObjs (s s' : St) : Bool :=
  s'.specT == s.specT && s'.userT == s.userT && s'.specP == s.specP && s'.userP == s.userP

theorem inv_mid (cfg : Cfg) (s : St) (h : inv cfg s = true) (hg : cfg.golang = false) (hs : s.status = .notBuilt) (hd : s.hsDone = false) :
    mid cfg s = true := by
  obtain ⟨hasCache, state, locked, tracker, calling, status, tRef, pRef, specT, userT, specP, userP, lT, lP, hsS, hsE, hT, hP, raw, ts, shares, filled, held, done⟩ := s
  obtain ⟨golang, custom, cT, cP, skip, disabled⟩ := cfg
  cases state <;> cases locked <;> simp_all [inv, mid, usable, freshObjs, keysOk]

/-- the state after a successful `applyPreset` from a `mid` state `s`. -/
def presetOk (cfg : Cfg) (s s' : St) : Bool :=
  mid cfg s' && s'.state == s.state && s'.hasCache == s.hasCache && sameObjs s s'
  && s'.tRef == (if cfg.specT then (if s.tRef.isSome then s.tRef else some .spec) else none)
  && s'.pRef == (if cfg.specP then (if s.pRef.isSome then s.pRef else some .spec) else none)
  && s'.lT == s'.tRef && s'.lP == s'.pRef
  && s'.sharesFilled && s'.keysHeld && s'.raw.isNone && s'.tracker == s.tracker

/-- the state after `applyPreset` returned the "specification doesn't contain one" error. -/
def presetFail (cfg : Cfg) (s s' : St) (o : Outcome) : Bool :=
  mid cfg s' && s'.state == s.state && s'.hasCache == s.hasCache && sameObjs s s' && s'.tracker == s.tracker
  && ((o == .err .noTicketSpec && !cfg.specT && s.state == .ticketInit) || (o == .err .noPskSpec && !cfg.specP && s.state == .pskInit))

set_option maxHeartbeats 4000000 in
theorem applyPreset_spec (cfg : Cfg) (s : St) (h : mid cfg s = true) :
    (match applyPreset cfg s with
     | (s', none) => presetOk cfg s s'
     | (s', some o) => presetFail cfg s s' o) = true := by
  obtain ⟨hasCache, state, locked, tracker, calling, status, tRef, pRef, specT, userT, specP, userP, lT, lP, hsS, hsE, hT, hP, raw, ts, shares, filled, held, done⟩ := s
  obtain ⟨golang, custom, cT, cP, skip, disabled⟩ := cfg
  cases cT <;> cases cP <;> cases state <;> cases tRef <;> cases pRef <;> cases filled <;>
    simp_all [mid, applyPreset, syncSessionExts, okR, failR, R.andThen, docAssert, uAssert, usable, freshObjs, keysOk, sameObjs, presetOk, presetFail]


/-- everything `uLoadSession` / `uApplyPatch` leave alone. -/
def sameFrame (s s' : St) : Bool :=
  s'.status == s.status && s'.locked == s.locked && s'.hsDone == s.hsDone && s'.hasCache == s.hasCache
  && s'.tRef == s.tRef && s'.pRef == s.pRef && s'.lT == s.lT && s'.lP == s.lP && s'.raw == s.raw
  && s'.sharesFilled == s.sharesFilled && s'.keysHeld == s.keysHeld && s'.helloShares == s.helloShares && s'.helloTS == s.helloTS

/-- the state after a successful `uLoadSession` from a `mid` state `s`. -/
def loadedOk (cfg : Cfg) (s s' : St) : Bool :=
  sameFrame s s'
  && (match s.state with
      | .ticketInit =>
        s'.state == .ticketAllSet && sameObjs s s' && s'.helloPsk == s.helloPsk && s'.hsEarly == s.hsEarly && s'.tracker == s.tracker
        && (match s.tRef with
            | some r => s'.hsSession == (s.tObj r).sess && s'.helloTicket == (s.tObj r).ticket
            | none => false)
      | .pskInit =>
        s'.state == .pskAllSet && sameObjs s s' && s'.helloTicket == s.helloTicket && pskSynced s' && s'.tracker == s.tracker
        && (match s.pRef with
            | some r => s'.hsSession == (s.pObj r).sess && s'.hsEarly == (s.pObj r).sess && s'.helloPsk == (s.pObj r).id
            | none => false)
      | .noSession =>
        (s'.state == .noSession && freshObjs s' && sameObjs s s' && s'.hsSession == s.hsSession && s'.hsEarly == s.hsEarly
            && s'.helloTicket == s.helloTicket && s'.helloPsk == s.helloPsk)
        || (s'.state == .ticketAllSet && usable cfg s && s.tRef.isSome && s'.hsSession == some .cache && s'.helloTicket == some .cache)
        || (s'.state == .pskInit && s.pRef.isSome && usable cfg s)
      | _ => false)

set_option maxHeartbeats 4000000 in
theorem uLoadSession_post (cfg : Cfg) (lr : LoadRes) (s : St) (h : mid cfg s = true) :
    (match uLoadSession cfg lr s with
     | (s', none) => loadedOk cfg s s'
     | (s', some o) =>
        o == .panic .documented .canskip && !cfg.skipOnNil && (s.tRef.isNone != s.pRef.isNone)
        && sameFrame s s' && sameObjs s s' && s'.state == .noSession && s.state == .noSession) = true := by
  obtain ⟨hasCache, state, locked, tracker, calling, status, tRef, pRef, specT, userT, specP, userP, lT, lP, hsS, hsE, hT, hP, raw, ts, shares, filled, held, done⟩ := s
  obtain ⟨golang, custom, cT, cP, skip, disabled⟩ := cfg
  rcases tRef with _ | _ | _ <;> rcases pRef with _ | _ | _ <;>
  cases disabled <;> cases hasCache <;> cases state <;> cases lr <;> cases skip <;>
    simp_all [mid, uLoadSession, loadSession, setSessionTicketToUConn, setPskToUConn, initSessionTicketExt, initPskExt,
      okR, failR, R.andThen, docAssert, uAssert, usable, freshObjs, keysOk, sameObjs, sameFrame, loadedOk, pskSynced,
      St.tObj, St.pObj, St.setTObj, St.setPObj]

end SessionCtl
