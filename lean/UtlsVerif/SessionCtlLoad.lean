import UtlsVerif.SessionCtlDefs
/-!
# SessionCtlLoad — specification of `uLoadSession`
-/
namespace SessionCtl

set_option maxHeartbeats 4000000 in
theorem uLoadSession_post (cfg : Cfg) (lr : LoadRes) (s : St) (h : mid cfg s = true) :
    (match uLoadSession cfg lr s with
     | (s', none) => loadedOk cfg s s'
     | (s', some o) =>
        o == .panic .documented .canskip && !cfg.skipOnNil && (s.tRef.isNone != s.pRef.isNone)
        && sameFrame s s' && sameObjs s s' && s'.state == .noSession && s.state == .noSession) = true := by
  obtain ⟨hasCache, state, locked, tracker, calling, status, tRef, pRef, specT, userT, specP, userP, lT, lP, hsS, hsE, hT, hP, raw, ts, shares, filled, held, done, bfresh⟩ := s
  obtain ⟨golang, custom, cT, cP, skip, disabled⟩ := cfg
  rcases tRef with _ | _ | _ <;> rcases pRef with _ | _ | _ <;>
  cases disabled <;> cases hasCache <;> cases state <;> cases lr <;> cases skip <;>
    simp_all [mid, uLoadSession, loadSession, setSessionTicketToUConn, setPskToUConn, initSessionTicketExt, initPskExt,
      okR, failR, R.andThen, docAssert, uAssert, usable, freshObjs, keysOk, sameObjs, sameFrame, loadedOk, pskSynced,
      St.tObj, St.pObj, St.setTObj, St.setPObj]

end SessionCtl
