import UtlsVerif.SessionCtlDefs
/-!
# SessionCtlLocked — on a locked connection neither a build nor a setter changes a session field
-/
namespace SessionCtl

set_option maxHeartbeats 1000000 in
/-- a build on a locked parrot connection changes nothing but `Hello.KeyShares` / `TicketSupported`. -/
theorem tail_locked (cfg : Cfg) (load : Bool) (lr : LoadRes) (s : St) (hg : cfg.golang = false)
    (h : inv cfg s = true) (hl : s.locked = true) :
    (match buildTail cfg load lr s with
     | (s', none) => (!load || s'.state != .pskAllSet || s'.binderFresh) && inv cfg s' && sessionView s' == sessionView s && s'.hsDone == s.hsDone && s'.hasCache == s.hasCache
                      && s'.status == s.status && s'.tracker == s.tracker && s'.keysHeld == s.keysHeld && s'.sharesFilled == s.sharesFilled
                      && s'.lT == s.lT && s'.lP == s.lP && sameObjs s s' && s'.tRef == s.tRef && s'.pRef == s.pRef
     | (_, some _) => false) = true := by
  obtain ⟨hasCache, state, locked, tracker, calling, status, tRef, pRef, specT, userT, specP, userP, lT, lP, hsS, hsE, hT, hP, raw, ts, shares, filled, held, done, bfresh⟩ := s
  obtain ⟨golang, custom, cT, cP, skip, disabled⟩ := cfg
  rcases pRef with _ | _ | _ <;> cases state <;> cases load <;> cases disabled <;> cases hasCache <;> cases status <;>
    simp_all [inv, buildTail, applyConfig, uLoadSession, marshal, uApplyPatch, setPskToUConn, finalCheck, okR, failR, R.andThen, uAssert,
      sessionView, slots, pskSynced, sameObjs, keysOk, usable, freshObjs, St.pObj, St.tObj]

/-- a refused or harmless setter / SetSessionCache on a locked connection changes no session field. -/
theorem setters_locked (cfg : Cfg) (s : St) (op : Op) (hop : isSetter op = true ∨ op = .setCache) (hl : s.locked = true) :
    sessionView (stepR cfg s op).1 = sessionView s := by
  obtain ⟨hasCache, state, locked, tracker, calling, status, tRef, pRef, specT, userT, specP, userP, lT, lP, hsS, hsE, hT, hP, raw, ts, shares, filled, held, done, bfresh⟩ := s
  simp only at hl; subst hl
  cases op with
  | setCache => cases done <;> simp [stepR, okR, sessionView, St.tObj, St.pObj]
  | setTicket a =>
    cases done <;> cases a <;> cases hu : (cfg.disabled || !hasCache) <;>
      simp_all [stepR, setTicketOp, overrideTicket, okR, failR, R.andThen, docAssert, sessionView, St.tObj, St.pObj]
  | setPsk a =>
    cases done <;> cases a <;> cases hu : (cfg.disabled || !hasCache) <;>
      simp_all [stepR, setPskOp, overridePsk, okR, failR, R.andThen, docAssert, sessionView, St.tObj, St.pObj]
  | buildNoSession => simp [isSetter] at hop
  | build lr => simp [isSetter] at hop
  | handshake lr => simp [isSetter] at hop
  | edit => simp [isSetter] at hop

end SessionCtl
