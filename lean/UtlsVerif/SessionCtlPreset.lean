import UtlsVerif.SessionCtlDefs
/-!
# SessionCtlPreset — specification of `applyPreset` (with `syncSessionExts`)

Proved by splitting on the control fields the function reads and letting `simp` evaluate the
function on the otherwise symbolic state.
-/
namespace SessionCtl

theorem inv_mid (cfg : Cfg) (s : St) (h : inv cfg s = true) (hg : cfg.golang = false) (hs : s.status = .notBuilt) (hd : s.hsDone = false) :
    mid cfg s = true := by
  obtain ⟨hasCache, state, locked, tracker, calling, status, tRef, pRef, specT, userT, specP, userP, lT, lP, hsS, hsE, hT, hP, raw, ts, shares, filled, held, done, bfresh⟩ := s
  obtain ⟨golang, custom, cT, cP, skip, disabled⟩ := cfg
  cases state <;> cases locked <;> simp_all [inv, mid, usable, freshObjs, keysOk]

set_option maxHeartbeats 4000000 in
theorem applyPreset_spec (cfg : Cfg) (s : St) (h : mid cfg s = true) :
    (match applyPreset cfg s with
     | (s', none) => presetOk cfg s s'
     | (s', some o) => presetFail cfg s s' o) = true := by
  obtain ⟨hasCache, state, locked, tracker, calling, status, tRef, pRef, specT, userT, specP, userP, lT, lP, hsS, hsE, hT, hP, raw, ts, shares, filled, held, done, bfresh⟩ := s
  obtain ⟨golang, custom, cT, cP, skip, disabled⟩ := cfg
  cases cT <;> cases cP <;> cases state <;> cases tRef <;> cases pRef <;> cases filled <;>
    simp_all [mid, applyPreset, syncSessionExts, okR, failR, R.andThen, docAssert, uAssert, usable, freshObjs, keysOk, sameObjs, presetOk, presetFail]

end SessionCtl
