import UtlsVerif.SessionCtlDefs
/-!
# SessionCtlSetters — `SetSessionCache` and the setters preserve `inv` and never assert
-/
namespace SessionCtl

set_option maxHeartbeats 2000000 in
theorem setters_inv (cfg : Cfg) (s : St) (op : Op) (hop : isSetter op = true ∨ op = .setCache)
    (h : inv cfg s = true) :
    inv cfg (stepR cfg s op).1 = true ∧ ((stepR cfg s op).2.getD .ok).isAssertion = false
    ∧ (stepR cfg s op).1.hsDone = s.hsDone := by
  obtain ⟨hasCache, state, locked, tracker, calling, status, tRef, pRef, specT, userT, specP, userP, lT, lP, hsS, hsE, hT, hP, raw, ts, shares, filled, held, done, bfresh⟩ := s
  obtain ⟨golang, custom, cT, cP, skip, disabled⟩ := cfg
  cases op with
  | setCache =>
    cases done <;> cases state <;> cases golang <;> cases locked <;> cases status <;>
      simp_all [inv, stepR, okR, keysOk, usable, freshObjs, pskSynced, slots, St.pObj, Outcome.isAssertion]
  | setTicket a =>
    cases done with
    | true => simp_all [stepR, okR, Outcome.isAssertion]
    | false =>
      cases hu : (disabled || !hasCache) with
      | true => simp_all [stepR, setTicketOp, failR, Outcome.isAssertion]
      | false =>
        cases a <;> cases locked <;> cases state <;> cases golang <;> cases status <;>
          simp_all [inv, stepR, setTicketOp, overrideTicket, okR, failR, R.andThen, docAssert, TArg.ext, Outcome.isAssertion,
            keysOk, usable, freshObjs, pskSynced, slots, St.pObj]
  | setPsk a =>
    cases done with
    | true => simp_all [stepR, okR, Outcome.isAssertion]
    | false =>
      cases hu : (disabled || !hasCache) with
      | true => simp_all [stepR, setPskOp, failR, Outcome.isAssertion]
      | false =>
        cases a <;> cases locked <;> cases state <;> cases golang <;> cases status <;>
          simp_all [inv, stepR, setPskOp, overridePsk, okR, failR, R.andThen, docAssert, PArg.ext, Outcome.isAssertion,
            keysOk, usable, freshObjs, pskSynced, slots, St.pObj]
  | buildNoSession => simp [isSetter] at hop
  | build lr => simp [isSetter] at hop
  | handshake lr => simp [isSetter] at hop
  | edit => simp [isSetter] at hop

end SessionCtl
