import UtlsVerif.SessionCtlBuild
import UtlsVerif.SessionCtlSetters
import UtlsVerif.SessionCtlGolang
/-!
# SessionCtlStep — every API call preserves `inv` and never ends in an internal assertion

`inv_step`, its lifting to call sequences (`inv_final`, `no_assert_of_inv`) and `locked_step`.
-/
namespace SessionCtl

/-- every API call preserves the boundary invariant and never ends in an internal assertion. -/
theorem inv_step (cfg : Cfg) (s : St) (op : Op) (h : inv cfg s = true) :
    inv cfg (step cfg s op).1 = true ∧ (step cfg s op).2.isAssertion = false := by
  cases hd : s.hsDone with
  | true => simp [step, stepR, hd, okR, outcomeOf, h, Outcome.isAssertion]
  | false =>
    have key : ∀ (r : R), stepR cfg s op = r → inv cfg r.1 = true ∧ (r.2.getD .ok).isAssertion = false →
        inv cfg (step cfg s op).1 = true ∧ (step cfg s op).2.isAssertion = false := by
      intro r hr hh; simpa [step, outcomeOf, hr] using hh
    cases op with
    | setCache => exact key _ rfl (by have := setters_inv cfg s .setCache (Or.inr rfl) h; exact ⟨this.1, this.2.1⟩)
    | setTicket a => exact key _ rfl (by have := setters_inv cfg s (.setTicket a) (Or.inl rfl) h; exact ⟨this.1, this.2.1⟩)
    | setPsk a => exact key _ rfl (by have := setters_inv cfg s (.setPsk a) (Or.inl rfl) h; exact ⟨this.1, this.2.1⟩)
    | edit => exact key (s, none) (by simp [stepR, hd, okR]) ⟨h, rfl⟩
    | buildNoSession =>
      refine key (buildHandshakeState cfg false .none s) (by simp [stepR, hd]) ?_
      cases hg : cfg.golang with
      | false => have := build_parrot_inv cfg false .none s hg h hd; exact ⟨this.1, this.2.1⟩
      | true => have := build_golang_inv cfg false .none s hg h hd; exact ⟨this.1, by simp [this.2.1, Outcome.isAssertion]⟩
    | build lr =>
      refine key (buildHandshakeState cfg true lr s) (by simp [stepR, hd]) ?_
      cases hg : cfg.golang with
      | false => have := build_parrot_inv cfg true lr s hg h hd; exact ⟨this.1, this.2.1⟩
      | true => have := build_golang_inv cfg true lr s hg h hd; exact ⟨this.1, by simp [this.2.1, Outcome.isAssertion]⟩
    | handshake lr =>
      refine key (handshake cfg lr s) (by simp [stepR, hd]) ?_
      rw [handshake_eq]
      cases hg : cfg.golang with
      | false =>
        have hb := build_parrot_inv cfg true lr s hg h hd
        generalize buildHandshakeState cfg true lr s = r at hb ⊢
        obtain ⟨s', o⟩ := r
        cases o with
        | some o => simpa [R.andThen] using ⟨hb.1, hb.2.1⟩
        | none =>
          have ht := hsTail_inv cfg lr s' hb.1 (fun _ => hb.2.2.2 rfl rfl) (by simp [hg])
          simp only [R.andThen]
          exact ⟨ht.1, by simp [ht.2.1, Outcome.isAssertion]⟩
      | true =>
        have hb := build_golang_inv cfg true lr s hg h hd
        generalize buildHandshakeState cfg true lr s = r at hb ⊢
        obtain ⟨s', o⟩ := r
        obtain ⟨h1, h2, h3, h4, h5⟩ := hb
        simp only at h2; subst h2
        have ht := hsTail_inv cfg lr s' h1 (by simp [hg]) (fun _ => h5)
        simp only [R.andThen]
        exact ⟨ht.1, by simp [ht.2.1, Outcome.isAssertion]⟩

theorem inv_final (cfg : Cfg) (s : St) (h : inv cfg s = true) (ops : List Op) : inv cfg (final cfg s ops) = true := by
  induction ops generalizing s with
  | nil => exact h
  | cons op ops ih => rw [final_cons]; exact ih _ (inv_step cfg s op h).1

theorem no_assert_of_inv (cfg : Cfg) (s : St) (h : inv cfg s = true) (ops : List Op) :
    ∀ o ∈ outcomes cfg s ops, o.isAssertion = false := by
  induction ops generalizing s with
  | nil => simp [outcomes_nil]
  | cons op ops ih =>
    rw [outcomes_cons]
    intro o ho
    rcases List.mem_cons.mp ho with rfl | ho
    · exact (inv_step cfg s op h).2
    · exact ih _ (inv_step cfg s op h).1 o ho

/-- once locked, no call changes a session field. -/
theorem locked_step (cfg : Cfg) (s : St) (op : Op) (h : inv cfg s = true) (hl : s.locked = true) :
    sessionView (step cfg s op).1 = sessionView s := by
  have hg : cfg.golang = false := by
    cases hg : cfg.golang with
    | false => rfl
    | true => simp [inv, hg, hl] at h
  cases hd : s.hsDone with
  | true => simp [step, stepR, hd, okR]
  | false =>
    have built : ∀ load lr, sessionView (buildHandshakeState cfg load lr s).1 = sessionView s
        ∧ (buildHandshakeState cfg load lr s).2 = none ∧ (buildHandshakeState cfg load lr s).1.locked = true := by
      intro load lr
      have hb := build_parrot cfg load lr s hg h hd
      have hst : s.status = .byUtls := by
        have := h; simp only [inv, hg, Bool.and_eq_true, beq_iff_eq] at this; simp_all
      generalize buildHandshakeState cfg load lr s = r at hb ⊢
      obtain ⟨s', o⟩ := r
      cases o with
      | some o => simp [BuiltFail, hst] at hb
      | none =>
        rcases hb with ⟨_, hs⟩ | ⟨hnb, _⟩
        · simp only [lockedSame, Bool.and_eq_true, beq_iff_eq] at hs
          have hv : sessionView s' = sessionView s := hs.1.1.1.1.1.1.1.1.1.1.1.2
          refine ⟨hv, rfl, ?_⟩
          have hlk : s'.locked = s.locked := by
            simp only [sessionView, Prod.mk.injEq] at hv; exact hv.2.1
          simp [hlk, hl]
        · simp [hst] at hnb
    cases op with
    | setCache => simpa [step] using setters_locked cfg s .setCache (Or.inr rfl) hl
    | setTicket a => simpa [step] using setters_locked cfg s (.setTicket a) (Or.inl rfl) hl
    | setPsk a => simpa [step] using setters_locked cfg s (.setPsk a) (Or.inl rfl) hl
    | edit => simp [step, stepR, hd, okR]
    | buildNoSession => simpa [step, stepR, hd] using (built false .none).1
    | build lr => simpa [step, stepR, hd] using (built true lr).1
    | handshake lr =>
      obtain ⟨hv, ho, hlk⟩ := built true lr
      simp only [step, stepR, hd, handshake_eq]
      generalize buildHandshakeState cfg true lr s = r at hv ho hlk ⊢
      obtain ⟨s', o⟩ := r
      simp only at ho hlk hv; subst ho
      simp only [R.andThen, hsTail, hlk, okR, if_true]
      simp only [sessionView, Prod.mk.injEq] at hv ⊢
      simp_all

end SessionCtl
