import UtlsVerif.SessionCtlInv
/-!
# SessionCtlStep — invariants of the `SessionCtl` machine, part 5

`inv_step`: every API call preserves the boundary invariant `inv` and never ends in an internal
assertion panic — for every configuration, every state satisfying `inv`, every call and every
oracle answer.
-/
namespace SessionCtl

/-- the part of `handshake` after the build. -/
def hsTail (cfg : Cfg) (lr : LoadRes) (s : St) : R :=
  if s.locked then okR { s with hsDone := true }
  else
    let (r, res) := loadSession cfg lr s
    r.andThen fun s =>
    let usable := !(cfg.disabled || !s.hasCache)
    let s := match res with
      | .s12 => { s with hsSession := some .cache, helloTicket := some .cache }
      | .s13 => { s with hsSession := some .cache, hsEarly := some .cache, helloPsk := some .cache }
      | .none => s
    let ts := s.helloTS || usable
    let t : Slot := if !ts then .absent else if res == .s12 then .tok .cache else .empty
    let p : Slot := if res == .s13 then .tok .cache else .absent
    okR { s with raw := some (t, p), helloTS := ts, hsDone := true }

theorem handshake_eq (cfg : Cfg) (lr : LoadRes) (s : St) :
    handshake cfg lr s = (buildHandshakeState cfg true lr s).andThen (hsTail cfg lr) := rfl

set_option maxHeartbeats 1000000 in
theorem hsTail_inv (cfg : Cfg) (lr : LoadRes) (s : St) (h : inv cfg s = true)
    (hp : cfg.golang = false → s.locked = true) (hgo : cfg.golang = true → s.tracker = .never) :
    inv cfg (hsTail cfg lr s).1 = true ∧ (hsTail cfg lr s).2 = none ∧ (hsTail cfg lr s).1.hsDone = true := by
  obtain ⟨hasCache, state, locked, tracker, calling, status, tRef, pRef, specT, userT, specP, userP, lT, lP, hsS, hsE, hT, hP, raw, ts, shares, filled, held, done⟩ := s
  obtain ⟨golang, custom, cT, cP, skip, disabled⟩ := cfg
  cases golang with
  | false =>
    have hl : locked = true := by simpa using hp
    subst hl
    simp_all [inv, hsTail, okR, keysOk, usable, freshObjs, pskSynced, slots, St.pObj]
  | true =>
    cases locked <;> cases state <;> cases lr <;> cases status <;> cases disabled <;> cases hasCache <;>
      simp_all [inv, hsTail, loadSession, okR, failR, R.andThen, keysOk, usable, freshObjs, pskSynced, slots, St.pObj]


/-- every API call preserves the boundary invariant and never ends in an internal assertion. -/
theorem inv_step (cfg : Cfg) (s : St) (op : Op) (h : inv cfg s = true) :
    inv cfg (step cfg s op).1 = true ∧ (step cfg s op).2.isAssertion = false := by
  cases hd : s.hsDone with
  | true => simp [step, stepR, hd, okR, outcomeOf, h, Outcome.isAssertion]
  | false =>
    have key : ∀ (r : R), stepR cfg s op = r → inv cfg r.1 = true ∧ (r.2.getD .ok).isAssertion = false →
        inv cfg (step cfg s op).1 = true ∧ (step cfg s op).2.isAssertion = false := by
      intro r hr hh; simpa [step, outcomeOf, hr] using hh
    cases op with
    | setCache => exact key _ rfl (by have := setters_inv cfg s .setCache (Or.inr rfl) h; exact ⟨this.1, this.2.1⟩)
    | setTicket a => exact key _ rfl (by have := setters_inv cfg s (.setTicket a) (Or.inl rfl) h; exact ⟨this.1, this.2.1⟩)
    | setPsk a => exact key _ rfl (by have := setters_inv cfg s (.setPsk a) (Or.inl rfl) h; exact ⟨this.1, this.2.1⟩)
    | buildNoSession =>
      refine key (buildHandshakeState cfg false .none s) (by simp [stepR, hd]) ?_
      cases hg : cfg.golang with
      | false => have := build_parrot_inv cfg false .none s hg h hd; exact ⟨this.1, this.2.1⟩
      | true => have := build_golang_inv cfg false .none s hg h hd; exact ⟨this.1, by simp [this.2.1, Outcome.isAssertion]⟩
    | build lr =>
      refine key (buildHandshakeState cfg true lr s) (by simp [stepR, hd]) ?_
      cases hg : cfg.golang with
      | false => have := build_parrot_inv cfg true lr s hg h hd; exact ⟨this.1, this.2.1⟩
      | true => have := build_golang_inv cfg true lr s hg h hd; exact ⟨this.1, by simp [this.2.1, Outcome.isAssertion]⟩
    | handshake lr =>
      refine key (handshake cfg lr s) (by simp [stepR, hd]) ?_
      rw [handshake_eq]
      cases hg : cfg.golang with
      | false =>
        have hb := build_parrot_inv cfg true lr s hg h hd
        generalize buildHandshakeState cfg true lr s = r at hb ⊢
        obtain ⟨s', o⟩ := r
        cases o with
        | some o => simpa [R.andThen] using ⟨hb.1, hb.2.1⟩
        | none =>
          have ht := hsTail_inv cfg lr s' hb.1 (fun _ => hb.2.2.2 rfl rfl) (by simp [hg])
          simp only [R.andThen]
          exact ⟨ht.1, by simp [ht.2.1, Outcome.isAssertion]⟩
      | true =>
        have hb := build_golang_inv cfg true lr s hg h hd
        generalize buildHandshakeState cfg true lr s = r at hb ⊢
        obtain ⟨s', o⟩ := r
        obtain ⟨h1, h2, h3, h4, h5⟩ := hb
        simp only at h2; subst h2
        have ht := hsTail_inv cfg lr s' h1 (by simp [hg]) (fun _ => h5)
        simp only [R.andThen]
        exact ⟨ht.1, by simp [ht.2.1, Outcome.isAssertion]⟩

end SessionCtl
