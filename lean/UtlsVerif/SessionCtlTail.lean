import UtlsVerif.SessionCtlDefs
/-!
# SessionCtlTail — specifications of the last pieces of a build (`uApplyPatch`, `finalCheck`) and glue to `inv`
-/
namespace SessionCtl

theorem loadedOk_afterLoad (cfg : Cfg) (s s' : St) (h : mid cfg s = true) (h' : loadedOk cfg s s' = true) :
    afterLoad s' = true := by
  simp only [mid, loadedOk, sameFrame, Bool.and_eq_true, Bool.or_eq_true] at h h'
  cases hst : s.state <;> simp_all [afterLoad, keysOk, usable]
  · rcases h' with ⟨_, (h' | h') | h'⟩ <;> simp_all

theorem finish_post (s : St) (h : afterLoad s = true) :
    (match finish s with
     | (s', none) => finishedOk s s'
     | (_, some _) => false) = true := by
  obtain ⟨hasCache, state, locked, tracker, calling, status, tRef, pRef, specT, userT, specP, userP, lT, lP, hsS, hsE, hT, hP, raw, ts, shares, filled, held, done, bfresh⟩ := s
  rcases pRef with _ | _ | _ <;> cases state <;>
    simp_all [afterLoad, finish, uApplyPatch, setPskToUConn, finalCheck, okR, failR, R.andThen, uAssert, finishedOk, pskSynced, sameObjs, St.pObj]

theorem tail_mid_noload (cfg : Cfg) (lr : LoadRes) (s : St) (h : mid cfg s = true) :
    ∃ s', buildTail cfg false lr s = (s', none) ∧ tailOk false s s' = true := by
  refine ⟨marshal (applyConfig s), ?_, ?_⟩
  · simp [buildTail, okR, R.andThen]
  · simp [tailOk, marshal, applyConfig, slots, sameObjs]
    simp [mid] at h
    simp_all

theorem tailOk_inv (cfg : Cfg) (load : Bool) (s s' : St) (hg : cfg.golang = false) (hm : mid cfg s = true)
    (ht : tailOk load s s' = true) : inv cfg s' = true := by
  simp only [mid, Bool.and_eq_true, Bool.or_eq_true, beq_iff_eq] at hm
  cases load <;> cases hst : s.state <;> simp_all [tailOk, inv, keysOk, usable, sameObjs]
  · simp_all [freshObjs]
  · rcases ht with ⟨_, _, (h1 | h2) | h3⟩ <;> simp_all [freshObjs]

theorem tailFail_inv (cfg : Cfg) (s s' : St) (o : Outcome) (hg : cfg.golang = false) (hm : mid cfg s = true)
    (ht : tailFail cfg s s' o = true) : inv cfg s' = true ∧ o.isAssertion = false := by
  simp only [mid, Bool.and_eq_true, Bool.or_eq_true, beq_iff_eq] at hm
  simp_all [tailFail, inv, keysOk, usable, sameObjs, freshObjs, Outcome.isAssertion]

end SessionCtl
