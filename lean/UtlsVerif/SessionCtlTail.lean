import UtlsVerif.SessionCtlLemmas
/-!
# SessionCtlTail — invariants of the `SessionCtl` machine, part 2

Specifications of the last pieces of a build (`uApplyPatch`, `finalCheck`), of a build on a locked
connection, and `sessionView`.
-/
namespace SessionCtl

/-- after `uLoadSession` (and `marshal`, which only writes `raw`). -/
def afterLoad (s : St) : Bool :=
  keysOk s && s.status == .notBuilt && !s.locked && !s.hsDone
  && (s.state == .noSession || s.state == .ticketAllSet || s.state == .pskInit || s.state == .pskAllSet)
  && (s.state != .pskInit || s.pRef.isSome)
  && (s.state != .pskAllSet || pskSynced s)
  && (s.state != .noSession || freshObjs s)

theorem loadedOk_afterLoad (cfg : Cfg) (s s' : St) (h : mid cfg s = true) (h' : loadedOk cfg s s' = true) :
    afterLoad s' = true := by
  simp only [mid, loadedOk, sameFrame, Bool.and_eq_true, Bool.or_eq_true] at h h'
  cases hst : s.state <;> simp_all [afterLoad, keysOk, usable]
  · rcases h' with ⟨_, (h' | h') | h'⟩ <;> simp_all

/-- the state after `uApplyPatch`, `finalCheck` and the status update. -/
def finishedOk (s s' : St) : Bool :=
  s'.locked && s'.status == .byUtls && s'.hsDone == s.hsDone && s'.hasCache == s.hasCache
  && s'.tRef == s.tRef && s'.pRef == s.pRef && s'.lT == s.lT && s'.lP == s.lP && s'.raw == s.raw
  && s'.sharesFilled == s.sharesFilled && s'.keysHeld == s.keysHeld && s'.helloShares == s.helloShares && s'.helloTS == s.helloTS
  && sameObjs s s' && s'.helloTicket == s.helloTicket && s'.tracker == s.tracker
  && (match s.state with
      | .pskInit => s'.state == .pskAllSet && pskSynced s'
          && (match s.pRef with
              | some r => s'.hsSession == (s.pObj r).sess && s'.hsEarly == (s.pObj r).sess && s'.helloPsk == (s.pObj r).id
              | none => false)
      | st => s'.state == st && s'.hsSession == s.hsSession && s'.hsEarly == s.hsEarly && s'.helloPsk == s.helloPsk)

/-- the last three steps of a full build. -/
def finish (s : St) : R :=
  (uApplyPatch s).andThen fun s => (finalCheck s).andThen fun s => okR { s with status := .byUtls }

theorem finish_post (s : St) (h : afterLoad s = true) :
    (match finish s with
     | (s', none) => finishedOk s s'
     | (_, some _) => false) = true := by
  obtain ⟨hasCache, state, locked, tracker, calling, status, tRef, pRef, specT, userT, specP, userP, lT, lP, hsS, hsE, hT, hP, raw, ts, shares, filled, held, done⟩ := s
  rcases pRef with _ | _ | _ <;> cases state <;>
    simp_all [afterLoad, finish, uApplyPatch, setPskToUConn, finalCheck, okR, failR, R.andThen, uAssert, finishedOk, pskSynced, sameObjs, St.pObj]


/-- the session fields that must not change once the controller is locked: controller state, the
owned extensions and every extension object, the session / secrets / ticket / identities of the
handshake state, and the marshalled session extensions. -/
def sessionView (s : St) : CState × Bool × Option Ref × Option Ref × TExt × TExt × PExt × PExt
    × Option Src × Option Src × Option Src × Option Src × Option (Slot × Slot) :=
  (s.state, s.locked, s.tRef, s.pRef, s.specT, s.userT, s.specP, s.userP,
   s.hsSession, s.hsEarly, s.helloTicket, s.helloPsk, s.raw)

set_option maxHeartbeats 1000000 in
/-- a build on a locked parrot connection changes nothing but `Hello.KeyShares` / `TicketSupported`. -/
theorem tail_locked (cfg : Cfg) (load : Bool) (lr : LoadRes) (s : St) (hg : cfg.golang = false)
    (h : inv cfg s = true) (hl : s.locked = true) :
    (match buildTail cfg load lr s with
     | (s', none) => inv cfg s' && sessionView s' == sessionView s && s'.hsDone == s.hsDone && s'.hasCache == s.hasCache
                      && s'.status == s.status && s'.tracker == s.tracker && s'.keysHeld == s.keysHeld && s'.sharesFilled == s.sharesFilled
                      && s'.lT == s.lT && s'.lP == s.lP && sameObjs s s' && s'.tRef == s.tRef && s'.pRef == s.pRef
     | (_, some _) => false) = true := by
  obtain ⟨hasCache, state, locked, tracker, calling, status, tRef, pRef, specT, userT, specP, userP, lT, lP, hsS, hsE, hT, hP, raw, ts, shares, filled, held, done⟩ := s
  obtain ⟨golang, custom, cT, cP, skip, disabled⟩ := cfg
  rcases pRef with _ | _ | _ <;> cases state <;> cases load <;> cases disabled <;> cases hasCache <;> cases status <;>
    simp_all [inv, buildTail, applyConfig, uLoadSession, marshal, uApplyPatch, setPskToUConn, finalCheck, okR, failR, R.andThen, uAssert,
      sessionView, slots, pskSynced, sameObjs, keysOk, usable, freshObjs, St.pObj, St.tObj]

end SessionCtl
