import UtlsVerif.Wire
/-!
# Sni — `hostnameInSNI` (/repo/handshake_client.go) with an independent recogniser of IP literals.

`net.ParseIP` is not transcribed: `isIP` is a grammar-level specification (RFC 4291 §2.2 text forms
and strict dotted quads, the forms `net/netip` accepts); the correspondence family `sni_host`
compares it with the implementation on generated names.
-/
namespace Sni
open Wire

def splitOn (sep : UInt8) : Bytes → List Bytes
  | [] => [[]]
  | c :: cs =>
    match splitOn sep cs with
    | [] => [[c]]   -- unreachable
    | p :: ps => if c = sep then [] :: p :: ps else (c :: p) :: ps

def isDigit (c : UInt8) : Bool := 48 ≤ c.toNat && c.toNat ≤ 57
def isHex (c : UInt8) : Bool :=
  isDigit c || (97 ≤ c.toNat && c.toNat ≤ 102) || (65 ≤ c.toNat && c.toNat ≤ 70)

def decVal (bs : Bytes) : Nat := bs.foldl (fun a c => a * 10 + (c.toNat - 48)) 0

/-- one dotted-quad field: digits only, no leading zero unless "0", value ≤ 255. -/
def okOctet (p : Bytes) : Bool :=
  !p.isEmpty && p.all isDigit && p.length ≤ 3 && (p.length == 1 || p.head? != some 48) && decVal p ≤ 255

def isIPv4 (s : Bytes) : Bool :=
  let parts := splitOn 46 s
  parts.length == 4 && parts.all okOctet

/-- one 16-bit group: 1–4 hex digits. -/
def okGroup (p : Bytes) : Bool := !p.isEmpty && p.length ≤ 4 && p.all isHex

/-- number of 16-bit fields a colon-separated run denotes (`none` = malformed); the last item may be
a dotted quad worth two fields when `allowV4`. -/
def fields (allowV4 : Bool) (run : Bytes) : Option Nat :=
  if run.isEmpty then some 0 else
  let parts := splitOn 58 run
  let front := parts.dropLast
  match parts.getLast? with
  | none => none
  | some last =>
    if !front.all okGroup then none
    else if okGroup last then some parts.length
    else if allowV4 && isIPv4 last then some (front.length + 2)
    else none

/-- position of the first "::", if any. -/
def findEllipsis : Bytes → Nat → Option Nat
  | 58 :: 58 :: _, i => some i
  | _ :: r, i => findEllipsis r (i + 1)
  | [], _ => none

def isIPv6 (s : Bytes) : Bool :=
  match findEllipsis s 0 with
  | none => fields true s == some 8 && !s.isEmpty
  | some i =>
    let left := s.take i
    let right := s.drop (i + 2)
    match fields false left, fields true right with
    | some l, some r => l + r ≤ 7
    | _, _ => false

def isIP (s : Bytes) : Bool := isIPv4 s || isIPv6 s

def lastIndexOf (c : UInt8) (s : Bytes) : Option Nat :=
  (List.range s.length).foldl (fun acc i => if s.getD i 0 = c then some i else acc) none

def stripTrailingDots (s : Bytes) : Bytes :=
  (s.reverse.dropWhile (· = 46)).reverse

/-- the part of the name handed to `net.ParseIP`: brackets and zone stripped. -/
def hostPart (name : Bytes) : Bytes :=
  let host := if name.length > 0 && name.head? = some 91 && name.getLast? = some 93
              then (name.drop 1).dropLast else name
  match lastIndexOf 37 host with
  | some i => if i > 0 then host.take i else host
  | none => host

/-- `hostnameInSNI`. -/
def hostnameInSNI (name : Bytes) : Bytes :=
  if isIP (hostPart name) then [] else stripTrailingDots name

end Sni
