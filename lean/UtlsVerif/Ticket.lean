import UtlsVerif.Wire
/-!
# Ticket — session-ticket sealing (`Config.encryptTicket` / `decryptTicket`, ticket.go) and the
ticket-key derivation (`Config.ticketKeyFromBytes`, common.go), over *symbolic* primitives.

AES-CTR, HMAC-SHA256 and SHA-512 are parameters (`Crypto`); the laws the theorems need are explicit
hypotheses (`Crypto.Laws`), never axioms. The driver instantiates nothing: it checks the layout the
model prescribes against bytes the harness computed with Go's own primitives.
-/
namespace Ticket
open Wire

/-- AES block size = IV length; SHA-256 size = tag length. -/
def ivLen : Nat := 16
def tagLen : Nat := 32

/-- `ticketKey`: 16-byte AES key and 16-byte HMAC key. -/
structure TKey where
  aes : Bytes
  hmac : Bytes
  deriving DecidableEq, Repr

/-- the primitives, uninterpreted. -/
structure Crypto where
  /-- `cipher.NewCTR(aes.NewCipher(key), iv).XORKeyStream(dst, src)` -/
  ctr : Bytes → Bytes → Bytes → Bytes
  /-- `hmac.New(sha256.New, key)` over the message -/
  mac : Bytes → Bytes → Bytes
  /-- `sha512.Sum512` -/
  hash : Bytes → Bytes

/-- the laws of the primitives the proofs use. -/
structure Crypto.Laws (C : Crypto) : Prop where
  ctr_len : ∀ k iv x, (C.ctr k iv x).length = x.length
  ctr_invol : ∀ k iv x, C.ctr k iv (C.ctr k iv x) = x
  mac_len : ∀ k m, (C.mac k m).length = tagLen

/-- `encryptTicket(state, ticketKeys)`: `none` = "session ticket keys unavailable". The IV is the
16 bytes read from `Config.rand()`. Only the first key seals. -/
def encrypt (C : Crypto) (keys : List TKey) (iv state : Bytes) : Option Bytes :=
  match keys with
  | [] => none
  | k :: _ =>
    let auth := iv ++ C.ctr k.aes iv state
    some (auth ++ C.mac k.hmac auth)

/-- the loop of `decryptTicket`: first key whose MAC over `authenticated` equals the tag. -/
def tryKeys (C : Crypto) (iv ct auth tag : Bytes) : List TKey → Option Bytes
  | [] => none
  | k :: ks => if C.mac k.hmac auth = tag then some (C.ctr k.aes iv ct) else tryKeys C iv ct auth tag ks

/-- `decryptTicket(encrypted, ticketKeys)`: `none` = nil. -/
def decrypt (C : Crypto) (keys : List TKey) (enc : Bytes) : Option Bytes :=
  if enc.length < ivLen + tagLen then none
  else
    let iv := enc.take ivLen
    let auth := enc.take (enc.length - tagLen)
    let ct := auth.drop ivLen
    let tag := enc.drop (enc.length - tagLen)
    tryKeys C iv ct auth tag keys

/-- `ticketKeyFromBytes`: `hashed := sha512(b)`; bytes 16..32 are the AES key, 32..48 the HMAC key
(the first 16 were the legacy key name and are not used). -/
def keyFromBytes (C : Crypto) (b : Bytes) : TKey :=
  let h := C.hash b
  { aes := (h.drop 16).take 16, hmac := (h.drop 32).take 16 }

/-- `SetSessionTicketKeys(keys)`: the installed list (panics on an empty list). -/
def setKeys (C : Crypto) (keys : List Bytes) : Option (List TKey) :=
  if keys.isEmpty then none else some (keys.map (keyFromBytes C))

/-- `TicketKeyFromBytes(b)` (u_public.go): an empty Config's `ticketKeyFromBytes`, made public. -/
def publicKeyFromBytes (C : Crypto) (b : Bytes) : TKey := keyFromBytes C b

/-! ### Which keys a Config uses (`Config.ticketKeys` + `initLegacySessionTicketKeyRLocked`)

`legacy` is a user-set, non-zero `Config.SessionTicketKey` (not the library's own marker);
`installed` is `c.sessionTicketKeys`. `none` from `current` means the auto-rotated keys are used
(random, not modelled). -/

structure KeyCfg where
  legacy : Option Bytes
  installed : List TKey

/-- one call of `c.ticketKeys(nil)`: explicit keys win; else a user-set legacy key is derived and
*installed*; else automatic keys. -/
def KeyCfg.current (C : Crypto) (c : KeyCfg) : KeyCfg × Option (List TKey) :=
  if c.installed.isEmpty then
    match c.legacy with
    | some b => ({ c with installed := [keyFromBytes C b] }, some [keyFromBytes C b])
    | none => (c, none)
  else (c, some c.installed)

/-- `SetSessionTicketKeys(bs)` for non-empty `bs`. -/
def KeyCfg.set (C : Crypto) (c : KeyCfg) (bs : List Bytes) : KeyCfg :=
  { c with installed := bs.map (keyFromBytes C) }

inductive KOp where
  | use
  | set (bs : List Bytes)

def KeyCfg.step (C : Crypto) (c : KeyCfg) : KOp → KeyCfg
  | .use => (c.current C).1
  | .set bs => c.set C bs

/-! ### Several Configs related by `Config.Clone`

`Clone` copies `SessionTicketKey` and `sessionTicketKeys`; in the model the key list is a value, so
a copy is independent by construction — this is what correct code must implement (a clone that
shared the slice's backing array with its original would not). `SOp` are the operations of a
history over a growing list of Configs; `clone i` appends the copy. -/

def KeyCfg.clone (c : KeyCfg) : KeyCfg := { legacy := c.legacy, installed := c.installed }

inductive SOp where
  | set (i : Nat) (bs : List Bytes)
  | use (i : Nat)
  | clone (i : Nat)

/-- the Config an operation may change (a clone only reads its original). -/
def SOp.writes : SOp → Option Nat
  | .set i _ => some i
  | .use i => some i
  | .clone _ => none

def sysStep (C : Crypto) (s : List KeyCfg) : SOp → List KeyCfg
  | .set i bs => s.modify i (fun c => c.set C bs)
  | .use i => s.modify i (fun c => (c.current C).1)
  | .clone i =>
    match s[i]? with
    | some c => s ++ [c.clone]
    | none => s

/-! ### Forged client sessions (`MakeClientSessionState` and the setters, u_public.go) -/

structure ClientSess where
  ticket : Bytes
  vers : Nat
  suite : Nat
  secret : Bytes
  ems : Bool := false
  createdAt : Nat := 0
  useBy : Nat := 0
  ageAdd : Nat := 0
  deriving DecidableEq, Repr

def makeClientSession (ticket : Bytes) (vers suite : Nat) (secret : Bytes) : ClientSess :=
  { ticket, vers, suite, secret }

inductive Setter where
  | ticket (b : Bytes) | vers (v : Nat) | suite (s : Nat) | secret (b : Bytes) | ems (b : Bool)
  | createdAt (n : Nat) | useBy (n : Nat) | ageAdd (n : Nat)

def applySetter (s : ClientSess) : Setter → ClientSess
  | .ticket b => { s with ticket := b }
  | .vers v => { s with vers := v }
  | .suite x => { s with suite := x }
  | .secret b => { s with secret := b }
  | .ems b => { s with ems := b }
  | .createdAt n => { s with createdAt := n }
  | .useBy n => { s with useBy := n }
  | .ageAdd n => { s with ageAdd := n }

end Ticket
