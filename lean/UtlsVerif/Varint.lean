import UtlsVerif.Wire
/-!
# Varint — transcription of /repo/internal/quicvarint/varint.go and of
`TransportParameters.Marshal` (/repo/u_quic_transport_parameters.go).

Inputs are Go `uint64`s: every theorem carries the guard `x < 2^64` where it matters;
the model itself is over `Nat` with explicit `panic` outcomes at the Go `panic` sites.
-/
namespace Varint
open Wire

def max1 : Nat := 63
def max2 : Nat := 16383
def max4 : Nat := 1073741823
def max8 : Nat := 4611686018427387903

/-- `quicvarint.Len`. -/
def vLen (x : Nat) : Res Nat :=
  if x ≤ max1 then .ok 1 else if x ≤ max2 then .ok 2 else if x ≤ max4 then .ok 4
  else if x ≤ max8 then .ok 8 else .panic

/-- `quicvarint.Append(nil, x)`. -/
def vAppend (x : Nat) : Res Bytes :=
  if x ≤ max1 then .ok [b x]
  else if x ≤ max2 then .ok [b (x / 256 + 64), b x]
  else if x ≤ max4 then .ok [b (x / 16777216 + 128), b (x / 65536), b (x / 256), b x]
  else if x ≤ max8 then
    .ok [b (x / 72057594037927936 + 192), b (x / 281474976710656), b (x / 1099511627776), b (x / 4294967296),
          b (x / 16777216), b (x / 65536), b (x / 256), b x]
  else .panic

/-- `quicvarint.Read` over a byte reader; `none` = the reader's EOF error. -/
def vRead : Bytes → Option (Nat × Bytes)
  | [] => none
  | f :: r =>
    let l := f.toNat / 64
    let b1 := f.toNat % 64
    if l = 0 then some (b1, r) else
    match r with
    | [] => none
    | b2 :: r =>
      if l = 1 then some (b2.toNat + b1 * 256, r) else
      match r with
      | b3 :: b4 :: r =>
        if l = 2 then some (b4.toNat + b3.toNat * 256 + b2.toNat * 65536 + b1 * 16777216, r) else
        match r with
        | b5 :: b6 :: b7 :: b8 :: r =>
          some (b8.toNat + b7.toNat * 256 + b6.toNat * 65536 + b5.toNat * 16777216 + b4.toNat * 4294967296
                + b3.toNat * 1099511627776 + b2.toNat * 281474976710656 + b1 * 72057594037927936, r)
        | _ => none
      | _ => none

/-- the last loop of `AppendWithLen`: `uint8(i >> (8*(l-1-j)))` for `j = 0 .. l-1`. -/
def beBytes (x : Nat) : Nat → Bytes
  | 0 => []
  | l + 1 => b (x / 256 ^ l) :: beBytes x l

/-- `quicvarint.AppendWithLen(nil, x, w)`. -/
def vAppendWithLen (x w : Nat) : Res Bytes :=
  if w ≠ 1 ∧ w ≠ 2 ∧ w ≠ 4 ∧ w ≠ 8 then .panic else
  match vLen x with
  | .panic => .panic
  | .ok l =>
    if l = w then vAppend x
    else if l > w then .panic
    else
      let pre : Bytes := if w = 2 then [b 64] else if w = 4 then [b 128] else if w = 8 then [b 192] else []
      .ok (pre ++ List.replicate (w - l - 1) (b 0) ++ beBytes x l)

/-! ## Transport parameters -/

/-- one `TransportParameter` as `Marshal` sees it: what `ID()` and `Value()` return. -/
structure RawTP where
  id : Nat
  value : Bytes
  deriving DecidableEq, Repr

/-- `TransportParameters.Marshal`. `len(value)` is a Go `int` and always fits 62 bits in
practice; the model keeps the panic that `Append` would raise otherwise. -/
def marshalTPs : List RawTP → Res Bytes
  | [] => .ok []
  | tp :: rest =>
    match vAppend tp.id, vAppend tp.value.length, marshalTPs rest with
    | .ok i, .ok l, .ok r => .ok (i ++ l ++ tp.value ++ r)
    | _, _, _ => .panic

/-! ## Destination slices: `append` into spare capacity

`Append`/`AppendWithLen` take a destination `b []byte`. What the caller sees of `b` is `b[0:len]`;
the backing array may extend beyond it (`cap(b) > len(b)`) and hold whatever an earlier user left
there (a scratch buffer reset with `b = b[:0]`). The functions below transcribe the Go code at that
level: every Go `append` either writes into the spare capacity or moves to a fresh, zeroed array
whose extra capacity is the runtime's choice (`grow`). `C24.append_ignores_capacity` shows the
visible result never depends on either. -/

/-- a Go `[]byte` as `append` sees it: `data = b[0:len]`, `spare = b[len:cap]`. -/
structure Slice where
  data : Bytes
  spare : Bytes
  deriving DecidableEq, Repr

/-- the nil slice (`var b []byte`). -/
def Slice.nil : Slice := ⟨[], []⟩

/-- Go `append(s, bs...)`. -/
def goAppend (grow : Nat → Nat) (s : Slice) (bs : Bytes) : Slice :=
  if bs.length ≤ s.spare.length then ⟨s.data ++ bs, s.spare.drop bs.length⟩
  else ⟨s.data ++ bs, List.replicate (grow (s.data.length + bs.length)) 0⟩

/-- a loop of single-byte appends `b = append(b, c)`. -/
def appendEach (grow : Nat → Nat) (s : Slice) : Bytes → Slice
  | [] => s
  | c :: cs => appendEach grow (goAppend grow s [c]) cs

/-- `quicvarint.Append(b, x)`: one `append` of the whole encoding. -/
def sAppend (grow : Nat → Nat) (s : Slice) (x : Nat) : Res Slice :=
  match vAppend x with
  | .ok bs => .ok (goAppend grow s bs)
  | .panic => .panic

/-- `quicvarint.AppendWithLen(b, x, w)`: prefix byte, `w-l-1` zero bytes, `l` value bytes, each
appended on its own. -/
def sAppendWithLen (grow : Nat → Nat) (s : Slice) (x w : Nat) : Res Slice :=
  if w ≠ 1 ∧ w ≠ 2 ∧ w ≠ 4 ∧ w ≠ 8 then .panic else
  match vLen x with
  | .panic => .panic
  | .ok l =>
    if l = w then sAppend grow s x
    else if l > w then .panic
    else
      let s1 := if w = 2 then goAppend grow s [b 64] else if w = 4 then goAppend grow s [b 128]
                else if w = 8 then goAppend grow s [b 192] else s
      let s2 := appendEach grow s1 (List.replicate (w - l - 1) (b 0))
      .ok (appendEach grow s2 (beBytes x l))

/-- what the caller sees of a result. -/
def viewOf : Res Slice → Res Bytes
  | .ok s => .ok s.data
  | .panic => .panic

/-- `pre ++ ·` under `Res`. -/
def prefixed (pre : Bytes) : Res Bytes → Res Bytes
  | .ok bs => .ok (pre ++ bs)
  | .panic => .panic

/-- `TransportParameters.Marshal` at slice level, from the destination `s` (`var b []byte` = `Slice.nil`). -/
def sMarshal (grow : Nat → Nat) : Slice → List RawTP → Res Slice
  | s, [] => .ok s
  | s, tp :: rest =>
    match sAppend grow s tp.id with
    | .panic => .panic
    | .ok s1 =>
      match sAppend grow s1 tp.value.length with
      | .panic => .panic
      | .ok s2 => sMarshal grow (goAppend grow s2 tp.value) rest

/-- several lists marshalled one after the other, every result kept by the caller. -/
def marshalSeq : List (List RawTP) → Res (List Bytes)
  | [] => .ok []
  | l :: ls =>
    match marshalTPs l, marshalSeq ls with
    | .ok bs, .ok rest => .ok (bs :: rest)
    | _, _ => .panic

/-! ## Memory: which array a result lives in

The slice model above has no notion of *which* array a slice points into, so it cannot say that a
result the caller keeps is not overwritten by a later call. The model below adds that: the heap is
the list of byte arrays allocated so far (address = index), a slice header is an address and a
length (`cap` = the array's length), `append` writes in place when the array has room and allocates
a new array otherwise. `Marshal` starts from the nil slice (`var b []byte`), so everything it writes
lies in arrays it allocated itself — `C24.marshal_results_survive_later_calls`. -/

abbrev Heap := List Bytes

structure Hdr where
  arr : Nat
  len : Nat
  deriving DecidableEq, Repr

/-- the bytes a (possibly nil) slice header shows in heap `h`. -/
def hView (h : Heap) : Option Hdr → Bytes
  | none => []
  | some s => (h.getD s.arr []).take s.len

/-- overwrite `a[off : off+len(bs)]`. -/
def writeAt (a : Bytes) (off : Nat) (bs : Bytes) : Bytes := a.take off ++ bs ++ a.drop (off + bs.length)

/-- Go `append(s, bs...)` on the heap. -/
def hAppend (grow : Nat → Nat) (h : Heap) (s : Option Hdr) (bs : Bytes) : Heap × Option Hdr :=
  match s with
  | none =>
    if bs = [] then (h, none)
    else (h ++ [bs ++ List.replicate (grow bs.length) 0], some ⟨h.length, bs.length⟩)
  | some s =>
    let a := h.getD s.arr []
    if s.len + bs.length ≤ a.length then (h.set s.arr (writeAt a s.len bs), some ⟨s.arr, s.len + bs.length⟩)
    else (h ++ [a.take s.len ++ bs ++ List.replicate (grow (s.len + bs.length)) 0], some ⟨h.length, s.len + bs.length⟩)

/-- `TransportParameters.Marshal` on the heap, continuing from slice `s`. -/
def hMarshalFrom (grow : Nat → Nat) : Heap → Option Hdr → List RawTP → Res (Heap × Option Hdr)
  | h, s, [] => .ok (h, s)
  | h, s, tp :: rest =>
    match vAppend tp.id, vAppend tp.value.length with
    | .ok ib, .ok lb =>
      let (h1, s1) := hAppend grow h s ib
      let (h2, s2) := hAppend grow h1 s1 lb
      let (h3, s3) := hAppend grow h2 s2 tp.value
      hMarshalFrom grow h3 s3 rest
    | _, _ => .panic

/-- `Marshal()`: from the nil slice. -/
def hMarshal (grow : Nat → Nat) (h : Heap) (tps : List RawTP) : Res (Heap × Option Hdr) :=
  hMarshalFrom grow h none tps

/-- several lists marshalled one after the other in one memory; the caller keeps every header. -/
def hMarshalSeq (grow : Nat → Nat) : Heap → List (List RawTP) → Res (Heap × List (Option Hdr))
  | h, [] => .ok (h, [])
  | h, l :: ls =>
    match hMarshal grow h l with
    | .panic => .panic
    | .ok (h1, r) =>
      match hMarshalSeq grow h1 ls with
      | .panic => .panic
      | .ok (hN, rs) => .ok (hN, r :: rs)

/-- independent parser of the RFC 9000 §18 grammar: a sequence of (varint id, varint length, value). -/
def parseTPsFuel : Nat → Bytes → Option (List RawTP)
  | _, [] => some []
  | 0, _ => none
  | fuel + 1, bs =>
    match vRead bs with
    | none => none
    | some (id, r1) =>
      match vRead r1 with
      | none => none
      | some (n, r2) =>
        match take? n r2 with
        | none => none
        | some (v, r3) => (parseTPsFuel fuel r3).map ({ id := id, value := v } :: ·)

def parseTPs (bs : Bytes) : Option (List RawTP) := parseTPsFuel bs.length bs

/-- the typed parameters of u_quic_transport_parameters.go as (id, value) producers. -/
inductive TP where
  | varint (id : Nat) (v : Nat)        -- MaxIdleTimeout … MaxDatagramFrameSize
  | empty (id : Nat)                   -- DisableActiveMigration, GREASEQUICBit
  | bytes (id : Nat) (v : Bytes)       -- InitialSourceConnectionID, Padding, GREASE (frozen), Fake
  | versionInfo (legacy : Bool) (chosen : Nat) (avail : List Nat)  -- GREASE versions already drawn
  deriving Repr

def TP.raw : TP → Res RawTP
  | .varint id v => match vAppend v with
      | .ok bs => .ok ⟨id, bs⟩
      | .panic => .panic
  | .empty id => .ok ⟨id, []⟩
  | .bytes id v => .ok ⟨id, v⟩
  | .versionInfo legacy chosen avail =>
      .ok ⟨if legacy then 0xff73db else 0x11, u32 chosen ++ avail.flatMap u32⟩

/-- `(*GREASETransportParameter).Value`: a non-empty `ValueOverride` is the value; otherwise
`Length` bytes are drawn (`drawn` = what `rand.Read` serves) and frozen into `ValueOverride`.
Returns (new ValueOverride, value). -/
def greaseValue (override : Bytes) (length : Nat) (drawn : Bytes) : Bytes × Bytes :=
  if override.isEmpty then (drawn.take length, drawn.take length) else (override, override)

end Varint
