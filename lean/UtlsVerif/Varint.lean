import UtlsVerif.Wire
/-!
# Varint — transcription of /repo/internal/quicvarint/varint.go and of
`TransportParameters.Marshal` (/repo/u_quic_transport_parameters.go).

Inputs are Go `uint64`s: every theorem carries the guard `x < 2^64` where it matters;
the model itself is over `Nat` with explicit `panic` outcomes at the Go `panic` sites.
-/
namespace Varint
open Wire

def max1 : Nat := 63
def max2 : Nat := 16383
def max4 : Nat := 1073741823
def max8 : Nat := 4611686018427387903

/-- `quicvarint.Len`. -/
def vLen (x : Nat) : Res Nat :=
  if x ≤ max1 then .ok 1 else if x ≤ max2 then .ok 2 else if x ≤ max4 then .ok 4
  else if x ≤ max8 then .ok 8 else .panic

/-- `quicvarint.Append(nil, x)`. -/
def vAppend (x : Nat) : Res Bytes :=
  if x ≤ max1 then .ok [b x]
  else if x ≤ max2 then .ok [b (x / 256 + 64), b x]
  else if x ≤ max4 then .ok [b (x / 16777216 + 128), b (x / 65536), b (x / 256), b x]
  else if x ≤ max8 then
    .ok [b (x / 72057594037927936 + 192), b (x / 281474976710656), b (x / 1099511627776), b (x / 4294967296),
          b (x / 16777216), b (x / 65536), b (x / 256), b x]
  else .panic

/-- `quicvarint.Read` over a byte reader; `none` = the reader's EOF error. -/
def vRead : Bytes → Option (Nat × Bytes)
  | [] => none
  | f :: r =>
    let l := f.toNat / 64
    let b1 := f.toNat % 64
    if l = 0 then some (b1, r) else
    match r with
    | [] => none
    | b2 :: r =>
      if l = 1 then some (b2.toNat + b1 * 256, r) else
      match r with
      | b3 :: b4 :: r =>
        if l = 2 then some (b4.toNat + b3.toNat * 256 + b2.toNat * 65536 + b1 * 16777216, r) else
        match r with
        | b5 :: b6 :: b7 :: b8 :: r =>
          some (b8.toNat + b7.toNat * 256 + b6.toNat * 65536 + b5.toNat * 16777216 + b4.toNat * 4294967296
                + b3.toNat * 1099511627776 + b2.toNat * 281474976710656 + b1 * 72057594037927936, r)
        | _ => none
      | _ => none

/-- the last loop of `AppendWithLen`: `uint8(i >> (8*(l-1-j)))` for `j = 0 .. l-1`. -/
def beBytes (x : Nat) : Nat → Bytes
  | 0 => []
  | l + 1 => b (x / 256 ^ l) :: beBytes x l

/-- `quicvarint.AppendWithLen(nil, x, w)`. -/
def vAppendWithLen (x w : Nat) : Res Bytes :=
  if w ≠ 1 ∧ w ≠ 2 ∧ w ≠ 4 ∧ w ≠ 8 then .panic else
  match vLen x with
  | .panic => .panic
  | .ok l =>
    if l = w then vAppend x
    else if l > w then .panic
    else
      let pre : Bytes := if w = 2 then [b 64] else if w = 4 then [b 128] else if w = 8 then [b 192] else []
      .ok (pre ++ List.replicate (w - l - 1) (b 0) ++ beBytes x l)

/-! ## Transport parameters -/

/-- one `TransportParameter` as `Marshal` sees it: what `ID()` and `Value()` return. -/
structure RawTP where
  id : Nat
  value : Bytes
  deriving DecidableEq, Repr

/-- `TransportParameters.Marshal`. `len(value)` is a Go `int` and always fits 62 bits in
practice; the model keeps the panic that `Append` would raise otherwise. -/
def marshalTPs : List RawTP → Res Bytes
  | [] => .ok []
  | tp :: rest =>
    match vAppend tp.id, vAppend tp.value.length, marshalTPs rest with
    | .ok i, .ok l, .ok r => .ok (i ++ l ++ tp.value ++ r)
    | _, _, _ => .panic

/-- independent parser of the RFC 9000 §18 grammar: a sequence of (varint id, varint length, value). -/
def parseTPsFuel : Nat → Bytes → Option (List RawTP)
  | _, [] => some []
  | 0, _ => none
  | fuel + 1, bs =>
    match vRead bs with
    | none => none
    | some (id, r1) =>
      match vRead r1 with
      | none => none
      | some (n, r2) =>
        match take? n r2 with
        | none => none
        | some (v, r3) => (parseTPsFuel fuel r3).map ({ id := id, value := v } :: ·)

def parseTPs (bs : Bytes) : Option (List RawTP) := parseTPsFuel bs.length bs

/-- the typed parameters of u_quic_transport_parameters.go as (id, value) producers. -/
inductive TP where
  | varint (id : Nat) (v : Nat)        -- MaxIdleTimeout … MaxDatagramFrameSize
  | empty (id : Nat)                   -- DisableActiveMigration, GREASEQUICBit
  | bytes (id : Nat) (v : Bytes)       -- InitialSourceConnectionID, Padding, GREASE (frozen), Fake
  | versionInfo (legacy : Bool) (chosen : Nat) (avail : List Nat)  -- GREASE versions already drawn
  deriving Repr

def TP.raw : TP → Res RawTP
  | .varint id v => match vAppend v with
      | .ok bs => .ok ⟨id, bs⟩
      | .panic => .panic
  | .empty id => .ok ⟨id, []⟩
  | .bytes id v => .ok ⟨id, v⟩
  | .versionInfo legacy chosen avail =>
      .ok ⟨if legacy then 0xff73db else 0x11, u32 chosen ++ avail.flatMap u32⟩

end Varint
