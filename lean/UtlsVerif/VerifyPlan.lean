/-!
# VerifyPlan — which certificate verification a uTLS client performs

Transcription of the decision logic of `(*Conn).verifyServerCertificate` (handshake_client.go, incl.
the `[UTLS SECTION]`s for `InsecureServerNameToVerify` / `InsecureSkipTimeVerify` and the
ECH-rejected branch **as repaired by the D09 fix**: the default name there is `c.serverName`, the
name sent in the outer ClientHello) and of `loadSession`'s re-check of a cached session.

x509 is not modelled: `Oracle` is a parameter — "does this chain verify against `Config.RootCAs` at
this time for this name". Core Lean only.
-/
namespace VerifyPlan

/-- the `Config` fields the decision reads. Roots and clock are carried by the oracle. -/
structure Cfg where
  serverName : String            -- Config.ServerName
  nameToVerify : String          -- Config.InsecureServerNameToVerify
  skipVerify : Bool              -- Config.InsecureSkipVerify
  skipTime : Bool                -- Config.InsecureSkipTimeVerify
  echConfigured : Bool           -- Config.EncryptedClientHelloConfigList != nil
  deriving DecidableEq, Repr

/-- `opts.CurrentTime`: `c.config.time()` or `certs[0].NotAfter`. -/
inductive TimeSpec where
  | configured
  | leafNotAfter
  deriving DecidableEq, Repr

/-- `x509.VerifyOptions` as far as the client chooses them (`Roots` is always `Config.RootCAs`).
`name = none` ⇔ `opts.DNSName == ""` ⇔ x509 performs no host-name check. -/
structure Plan where
  time : TimeSpec
  name : Option String
  deriving DecidableEq, Repr

inductive Decision where
  | skip
  | verify (p : Plan)
  deriving DecidableEq, Repr

/-- the `[UTLS SECTION]` choosing `opts.DNSName`; `dflt` is the name used when
`InsecureServerNameToVerify` is empty (`c.config.ServerName`, or `c.serverName` when ECH was rejected). -/
def chooseName (cfg : Cfg) (dflt : String) : Option String :=
  if cfg.nameToVerify.isEmpty then (if dflt.isEmpty then none else some dflt)
  else if cfg.nameToVerify != "*" then some cfg.nameToVerify
  else none

def chooseTime (cfg : Cfg) : TimeSpec := if cfg.skipTime then .leafNotAfter else .configured

/-- `echRejected := c.config.EncryptedClientHelloConfigList != nil && !c.echAccepted`. -/
def echRejected (cfg : Cfg) (echAccepted : Bool) : Bool := cfg.echConfigured && !echAccepted

/-- the verification `verifyServerCertificate` performs on a fresh handshake. `connName` is
`c.serverName` (the outer SNI = ECH public name until ECH is accepted).
(`EncryptedClientHelloRejectionVerify` is taken to be nil.) -/
def verifyPlan (cfg : Cfg) (echAccepted : Bool) (connName : String) : Decision :=
  if echRejected cfg echAccepted then .verify ⟨chooseTime cfg, chooseName cfg connName⟩
  else if !cfg.skipVerify then .verify ⟨chooseTime cfg, chooseName cfg cfg.serverName⟩
  else .skip

/-- x509: `certs[0].Verify(opts)` succeeds (and a FIPS-allowed chain exists). -/
abbrev Oracle (Chain : Type) := Plan → Chain → Bool

inductive CertErr where
  | verification        -- *CertificateVerificationError, alert bad_certificate
  deriving DecidableEq, Repr

/-- `none` = no error. -/
def verifyCert {Chain : Type} (O : Oracle Chain) (cfg : Cfg) (echAccepted : Bool) (connName : String)
    (chain : Chain) : Option CertErr :=
  match verifyPlan cfg echAccepted connName with
  | .skip => none
  | .verify p => if O p chain then none else some .verification

/-! ## resumed sessions: the re-check in `loadSession` -/

/-- what `loadSession` reads of a cached session. -/
structure Session (Chain : Type) where
  chain : Chain                 -- session.peerCertificates
  hasVerifiedChains : Bool      -- len(session.verifiedChains) != 0
  deriving Repr

/-- facts about the cached leaf at the time of the new handshake. -/
structure SessOracle (Chain : Type) where
  expired : Chain → Bool                -- c.config.time().After(peerCertificates[0].NotAfter)
  hostOk : String → Chain → Bool        -- peerCertificates[0].VerifyHostname(name) == nil

/-- the uTLS re-check of `loadSession`: may the cached session be offered at all? -/
def sessionUsable {Chain : Type} (S : SessOracle Chain) (cfg : Cfg) (s : Session Chain) : Bool :=
  (cfg.skipTime || !S.expired s.chain) &&
  (cfg.skipVerify ||
    (s.hasVerifiedChains &&
      (match chooseName cfg cfg.serverName with
       | none => true
       | some n => S.hostOk n s.chain)))

/-- an expired cached leaf also deletes the cache entry (`Put(cacheKey, nil)`). -/
def sessionDeleted {Chain : Type} (S : SessOracle Chain) (cfg : Cfg) (s : Session Chain) : Bool :=
  !cfg.skipTime && S.expired s.chain

inductive Outcome where
  | accepted (resumed : Bool)
  | certError
  | echRejection            -- *ECHRejectionError after a fully verified handshake
  deriving DecidableEq, Repr

/-- does `loadSession` offer the cached session? (`otherGuards`: the remaining version /
cipher-suite / ticket-age conditions.) -/
def offered {Chain : Type} (S : SessOracle Chain) (cfg : Cfg) (cached : Option (Session Chain))
    (otherGuards : Bool) : Bool :=
  match cached with
  | some s => sessionUsable S cfg s && otherGuards
  | none => false

/-- one client connection, as far as certificates are concerned. `cached` is the cache entry,
`otherGuards` the remaining (version / cipher-suite / ticket-age) conditions of `loadSession`,
`serverResumes` whether the server accepts the offered ticket/PSK; `chain` is what the server
presents in a full handshake. A resumed handshake never calls `verifyServerCertificate`. -/
def connect {Chain : Type} (O : Oracle Chain) (S : SessOracle Chain) (cfg : Cfg)
    (cached : Option (Session Chain)) (otherGuards serverResumes : Bool)
    (echAccepted : Bool) (connName : String) (chain : Chain) : Outcome :=
  if offered S cfg cached otherGuards && serverResumes then .accepted true
  else if (verifyCert O cfg echAccepted connName chain).isSome then .certError
  else if echRejected cfg echAccepted then .echRejection
  else .accepted false

end VerifyPlan
