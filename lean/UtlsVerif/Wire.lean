/-!
# Wire — byte-level foundation shared by every model

`Bytes := List UInt8`; *truncating* big-endian encoders exactly like the Go code's
`byte(x>>8), byte(x)`; readers mirroring `cryptobyte.String`.
Core Lean only (this module is linked into the `utlsmodel` executable).
-/
namespace Wire

abbrev Bytes := List UInt8

/-- `byte(n)`: truncation to the low 8 bits. -/
def b (n : Nat) : UInt8 := UInt8.ofNat (n % 256)

@[simp] theorem b_toNat (n : Nat) : (b n).toNat = n % 256 := by
  simp [b, UInt8.toNat_ofNat']

/-- outcome of a Go operation that may panic. -/
inductive Res (α : Type) where
  | ok (a : α)
  | panic
  deriving DecidableEq, Repr

def u8 (n : Nat) : Bytes := [b n]
/-- `byte(n>>8), byte(n)` — truncating, like the Go code. -/
def u16 (n : Nat) : Bytes := [b (n / 256), b n]
def u24 (n : Nat) : Bytes := [b (n / 65536), b (n / 256), b n]
def u32 (n : Nat) : Bytes := [b (n / 16777216), b (n / 65536), b (n / 256), b n]

@[simp] theorem u8_length (n : Nat) : (u8 n).length = 1 := rfl
@[simp] theorem u16_length (n : Nat) : (u16 n).length = 2 := rfl
@[simp] theorem u24_length (n : Nat) : (u24 n).length = 3 := rfl
@[simp] theorem u32_length (n : Nat) : (u32 n).length = 4 := rfl

def readU8 : Bytes → Option (Nat × Bytes)
  | a :: r => some (a.toNat, r)
  | _ => none

def readU16 : Bytes → Option (Nat × Bytes)
  | a :: c :: r => some (a.toNat * 256 + c.toNat, r)
  | _ => none

def readU24 : Bytes → Option (Nat × Bytes)
  | a :: c :: d :: r => some (a.toNat * 65536 + c.toNat * 256 + d.toNat, r)
  | _ => none

def readU32 : Bytes → Option (Nat × Bytes)
  | a :: c :: d :: e :: r => some (a.toNat * 16777216 + c.toNat * 65536 + d.toNat * 256 + e.toNat, r)
  | _ => none

theorem readU8_u8 (n : Nat) (r : Bytes) : readU8 (u8 n ++ r) = some (n % 256, r) := by
  simp [u8, readU8]

theorem readU16_u16 (n : Nat) (r : Bytes) : readU16 (u16 n ++ r) = some (n % 65536, r) := by
  simp [u16, readU16]; omega

theorem readU24_u24 (n : Nat) (r : Bytes) : readU24 (u24 n ++ r) = some (n % 16777216, r) := by
  simp [u24, readU24]; omega

theorem readU32_u32 (n : Nat) (r : Bytes) : readU32 (u32 n ++ r) = some (n % 4294967296, r) := by
  simp [u32, readU32]; omega

/-- `ReadBytes(n)`: fails when fewer than `n` bytes remain. -/
def take? (n : Nat) (bs : Bytes) : Option (Bytes × Bytes) :=
  if n ≤ bs.length then some (bs.take n, bs.drop n) else none

theorem take?_append (x r : Bytes) : take? x.length (x ++ r) = some (x, r) := by
  simp [take?]

def vec8 (body : Bytes) : Bytes := u8 body.length ++ body
def vec16 (body : Bytes) : Bytes := u16 body.length ++ body
def vec24 (body : Bytes) : Bytes := u24 body.length ++ body

@[simp] theorem vec8_length (x : Bytes) : (vec8 x).length = 1 + x.length := by simp [vec8]
@[simp] theorem vec16_length (x : Bytes) : (vec16 x).length = 2 + x.length := by simp [vec16]
@[simp] theorem vec24_length (x : Bytes) : (vec24 x).length = 3 + x.length := by simp [vec24]

def readVec8 (bs : Bytes) : Option (Bytes × Bytes) :=
  match readU8 bs with
  | some (n, r) => take? n r
  | none => none

def readVec16 (bs : Bytes) : Option (Bytes × Bytes) :=
  match readU16 bs with
  | some (n, r) => take? n r
  | none => none

def readVec24 (bs : Bytes) : Option (Bytes × Bytes) :=
  match readU24 bs with
  | some (n, r) => take? n r
  | none => none

theorem readVec8_vec8 (body r : Bytes) (h : body.length < 256) :
    readVec8 (vec8 body ++ r) = some (body, r) := by
  unfold readVec8 vec8
  rw [List.append_assoc, readU8_u8]
  simp [take?, Nat.mod_eq_of_lt h]

theorem readVec16_vec16 (body r : Bytes) (h : body.length < 65536) :
    readVec16 (vec16 body ++ r) = some (body, r) := by
  unfold readVec16 vec16
  rw [List.append_assoc, readU16_u16]
  simp [take?, Nat.mod_eq_of_lt h]

theorem readVec24_vec24 (body r : Bytes) (h : body.length < 16777216) :
    readVec24 (vec24 body ++ r) = some (body, r) := by
  unfold readVec24 vec24
  rw [List.append_assoc, readU24_u24]
  simp [take?, Nat.mod_eq_of_lt h]

/-- list of uint16 code points, 2 bytes each. -/
def encU16s : List Nat → Bytes
  | [] => []
  | x :: xs => u16 x ++ encU16s xs

@[simp] theorem encU16s_length (xs : List Nat) : (encU16s xs).length = 2 * xs.length := by
  induction xs with
  | nil => rfl
  | cons x xs ih => simp [encU16s, ih]; omega

def decU16s : Bytes → Option (List Nat)
  | [] => some []
  | [_] => none
  | a :: c :: r => (decU16s r).map ((a.toNat * 256 + c.toNat) :: ·)

theorem decU16s_encU16s (xs : List Nat) (h : ∀ x ∈ xs, x < 65536) :
    decU16s (encU16s xs) = some xs := by
  induction xs with
  | nil => rfl
  | cons x xs ih =>
    have hx : x < 65536 := h x (by simp)
    have ih' := ih (fun y hy => h y (by simp [hy]))
    simp [encU16s, u16, decU16s, ih']
    omega

def encU8s (xs : List Nat) : Bytes := xs.map b

@[simp] theorem encU8s_length (xs : List Nat) : (encU8s xs).length = xs.length := by
  simp [encU8s]

def decU8s (bs : Bytes) : List Nat := bs.map (·.toNat)

theorem decU8s_encU8s (xs : List Nat) (h : ∀ x ∈ xs, x < 256) : decU8s (encU8s xs) = xs := by
  induction xs with
  | nil => rfl
  | cons x xs ih =>
    have hx : x < 256 := h x (by simp)
    have ih' := ih (fun y hy => h y (by simp [hy]))
    simp only [decU8s, encU8s, List.map_cons, List.map_map] at *
    simp [ih', Nat.mod_eq_of_lt hx]

end Wire
