/-!
# WrClose — the `activeCall` interlock between `(*UConn).Write` and `(*Conn).Close` (C26)

`Conn.Close` must not queue behind a `Write` that is blocked in the transport: `Write` registers
itself in `activeCall` (+2) for the whole call, `Close` sets the closed bit and, if it observed
writers in flight, only closes the transport (which breaks the blocked `Write`) instead of taking
`c.out` to send close_notify.  That only works when the decrement is **deferred in the function that
performs the write**, so that the +2/−2 window spans the write.

Program texts are skeletons extracted from the Go source (`Gen.LockShapes.uconnWrite`,
`Gen.LockShapes.connClose`); calls to helper methods that touch `activeCall` are inlined by the
extractor with the helper's deferred calls run at the helper's return (a `defer` in a helper becomes
an immediate `dec`).  The model: one writer (which may call `Write` again after it returned), any
number of closers, the transport's `Write` blocks until the peer drains or the transport is closed.
Core Lean only.
-/
namespace WrClose

/-- skeleton of `Write` -/
inductive WStmt where
  /-- the CAS loop: `if x&1 != 0 { return 0, net.ErrClosed }`, else `activeCall += 2` -/
  | reg
  /-- `c.activeCall.Add(-2)` executed now (e.g. a helper's deferred decrement at the helper's return) -/
  | dec
  /-- `defer c.activeCall.Add(-2)` in the function itself -/
  | deferDec
  /-- `c.Handshake()` (post-handshake: the atomic fast path) -/
  | handshake
  | lockOut | unlockOut | deferUnlockOut
  /-- `c.writeRecordLocked(..)`: blocks in the transport until the peer drains or the transport is closed -/
  | write
  /-- a statement that may return (`if … { return … }`) or fall through -/
  | condRet
  | ret
  deriving DecidableEq, Repr

/-- skeleton of `Close` -/
inductive CStmt where
  /-- the CAS loop: `if x&1 != 0 { return net.ErrClosed }`, else `activeCall |= 1`, remembering `x` -/
  | cas
  /-- `if x != 0 { return c.conn.Close() }` -/
  | inflightRawClose
  /-- `if c.isHandshakeComplete.Load() { c.closeNotify() }` (takes `c.out`; bounded by its own write deadline) -/
  | closeNotify
  /-- `c.conn.Close()` -/
  | rawClose
  | ret
  deriving DecidableEq, Repr

inductive WDefer where
  | dec | unlockOut
  deriving DecidableEq, Repr

inductive Mode where
  | run | unwind | done
  deriving DecidableEq, Repr

inductive CMode where
  /-- executing the skeleton -/
  | run
  /-- inside `closeNotify`, holding `c.out` -/
  | notify
  | done
  deriving DecidableEq, Repr

inductive Owner where
  | writer | closer (k : Nat)
  deriving DecidableEq, Repr

structure Writer where
  pc : Nat := 0
  mode : Mode := .run
  defers : List WDefer := []
  /-- the call returned `net.ErrClosed` from the interlock -/
  errClosed : Bool := false

structure Closer where
  pc : Nat := 0
  mode : CMode := .run
  /-- this call set the closed bit -/
  won : Bool := false
  /-- the value of `activeCall` it observed when it did -/
  x : Nat := 0

structure Config where
  /-- `c.activeCall`: bit 0 = closed, the rest = 2 × writes in flight -/
  ac : Nat := 0
  outOwner : Option Owner := none
  transportClosed : Bool := false
  w : Writer := {}
  cl : Nat → Closer := fun _ => {}

def init : Config := {}

inductive Label where
  /-- the writer's next step; `drain`: the peer reads, so a transport write can complete;
  `alt`: a conditional return is taken -/
  | w (drain : Bool) (alt : Bool)
  /-- closer `k`'s next step -/
  | c (k : Nat)
  /-- the writer, having returned, calls `Write` again -/
  | again
  deriving DecidableEq, Repr

def Config.updC (c : Config) (k : Nat) (f : Closer → Closer) : Config :=
  { c with cl := fun i => if i = k then f (c.cl i) else c.cl i }

def stepW (wp : List WStmt) (c : Config) (drain alt : Bool) : Option Config :=
  let w := c.w
  match w.mode with
  | .done => none
  | .unwind =>
    match w.defers with
    | [] => some { c with w := { w with mode := .done } }
    | .dec :: d => some { c with ac := c.ac - 2, w := { w with defers := d } }
    | .unlockOut :: d =>
      if c.outOwner = some .writer then some { c with outOwner := none, w := { w with defers := d } } else none
  | .run =>
    match wp[w.pc]? with
    | none => none
    | some .reg =>
      if c.ac % 2 = 1 then some { c with w := { w with errClosed := true, mode := .unwind } }
      else some { c with ac := c.ac + 2, w := { w with pc := w.pc + 1 } }
    | some .dec => some { c with ac := c.ac - 2, w := { w with pc := w.pc + 1 } }
    | some .deferDec => some { c with w := { w with pc := w.pc + 1, defers := .dec :: w.defers } }
    | some .handshake => some { c with w := { w with pc := w.pc + 1 } }
    | some .lockOut =>
      if c.outOwner = none then some { c with outOwner := some .writer, w := { w with pc := w.pc + 1 } } else none
    | some .unlockOut =>
      if c.outOwner = some .writer then some { c with outOwner := none, w := { w with pc := w.pc + 1 } } else none
    | some .deferUnlockOut => some { c with w := { w with pc := w.pc + 1, defers := .unlockOut :: w.defers } }
    | some .write =>
      if drain || c.transportClosed then some { c with w := { w with pc := w.pc + 1 } } else none
    | some .condRet =>
      if alt then some { c with w := { w with mode := .unwind } } else some { c with w := { w with pc := w.pc + 1 } }
    | some .ret => some { c with w := { w with mode := .unwind } }

def stepC (cp : List CStmt) (c : Config) (k : Nat) : Option Config :=
  let cl := c.cl k
  match cl.mode with
  | .done => none
  | .notify =>
    if c.outOwner = some (.closer k) then
      some ({ c with outOwner := none }.updC k fun cl => { cl with mode := .run, pc := cl.pc + 1 })
    else none
  | .run =>
    match cp[cl.pc]? with
    | none => none
    | some .cas =>
      if c.ac % 2 = 1 then some (c.updC k fun cl => { cl with mode := .done })
      else some ({ c with ac := c.ac + 1 }.updC k fun cl => { cl with won := true, x := c.ac, pc := cl.pc + 1 })
    | some .inflightRawClose =>
      if cl.x ≠ 0 then some ({ c with transportClosed := true }.updC k fun cl => { cl with mode := .done })
      else some (c.updC k fun cl => { cl with pc := cl.pc + 1 })
    | some .closeNotify =>
      if c.outOwner = none then some ({ c with outOwner := some (.closer k) }.updC k fun cl => { cl with mode := .notify })
      else none
    | some .rawClose => some ({ c with transportClosed := true }.updC k fun cl => { cl with pc := cl.pc + 1 })
    | some .ret => some (c.updC k fun cl => { cl with mode := .done })

def step (wp : List WStmt) (cp : List CStmt) (c : Config) : Label → Option Config
  | .w drain alt => stepW wp c drain alt
  | .c k => stepC cp c k
  | .again => if c.w.mode = .done then some { c with w := {} } else none

def run (wp : List WStmt) (cp : List CStmt) (c : Config) : List Label → Option Config
  | [] => some c
  | l :: ls => (step wp cp c l).bind fun c' => run wp cp c' ls

inductive Reach (wp : List WStmt) (cp : List CStmt) : Config → Prop where
  | init : Reach wp cp init
  | step {c c' : Config} (l : Label) : Reach wp cp c → step wp cp c l = some c' → Reach wp cp c'

/-! ## Discipline predicates -/

/-- abstract state in front of a `Write` statement -/
structure WAbs where
  /-- inside the +2/−2 window -/
  reg : Bool := false
  held : Bool := false
  defers : List WDefer := []
  deriving DecidableEq, Repr

/-- the deferred calls unwind cleanly: the window is closed exactly once, after `c.out` was released -/
def unwindOkW : List WDefer → Bool → Bool → Bool
  | [], r, h => !r && !h
  | .dec :: d, r, h => r && !h && unwindOkW d false false
  | .unlockOut :: d, r, h => h && unwindOkW d r false

def wOk (s : WStmt) (a : WAbs) : Bool :=
  match s with
  | .reg => !a.reg && !a.held && unwindOkW a.defers false false
  | .dec => a.reg && !a.held
  | .deferDec => true
  | .handshake => true
  | .lockOut => a.reg && !a.held
  | .unlockOut => a.held
  | .deferUnlockOut => true
  | .write => a.reg && a.held
  | .condRet => unwindOkW a.defers a.reg a.held
  | .ret => unwindOkW a.defers a.reg a.held

def wEff (s : WStmt) (a : WAbs) : WAbs :=
  match s with
  | .reg => { a with reg := true }
  | .dec => { a with reg := false }
  | .deferDec => { a with defers := .dec :: a.defers }
  | .handshake => a
  | .lockOut => { a with held := true }
  | .unlockOut => { a with held := false }
  | .deferUnlockOut => { a with defers := .unlockOut :: a.defers }
  | .write => a
  | .condRet => a
  | .ret => a

def checkW : List WStmt → WAbs → Bool
  | [], _ => false
  | s :: rest, a => wOk s a && (s == .ret || checkW rest (wEff s a))

/-- **write discipline**: the transport write happens inside the registration window and under
`c.out`; the decrement is a deferred call of the function itself (or at least runs after the write
on every path), after `c.out` is released. -/
def wdisc (wp : List WStmt) : Bool := checkW wp {}
abbrev WDisc (wp : List WStmt) : Prop := wdisc wp = true

structure CAbs where
  casDone : Bool := false
  checked : Bool := false
  closedT : Bool := false
  deriving DecidableEq, Repr

def cOk (s : CStmt) (a : CAbs) : Bool :=
  match s with
  | .cas => !a.casDone && !a.checked
  | .inflightRawClose => a.casDone
  | .closeNotify => a.casDone && a.checked
  | .rawClose => a.casDone
  | .ret => a.closedT

def cEff (s : CStmt) (a : CAbs) : CAbs :=
  match s with
  | .cas => { a with casDone := true }
  | .inflightRawClose => { a with checked := true }
  | .closeNotify => a
  | .rawClose => { a with closedT := true }
  | .ret => a

def checkC : List CStmt → CAbs → Bool
  | [], _ => false
  | s :: rest, a => cOk s a && (s == .ret || checkC rest (cEff s a))

/-- **close discipline**: the closed bit is set first; `c.out` is only taken (close_notify) after
the in-flight test sent the call down the transport-close-only path; the transport is closed
before return. -/
def cdisc (cp : List CStmt) : Bool := checkC cp {}
abbrev CDisc (cp : List CStmt) : Prop := cdisc cp = true

/-! ## Diagnosis -/

def wName : WStmt → String
  | .reg => "reg" | .dec => "dec" | .deferDec => "deferDec" | .handshake => "handshake" | .lockOut => "lockOut"
  | .unlockOut => "unlockOut" | .deferUnlockOut => "deferUnlockOut" | .write => "write" | .condRet => "condRet" | .ret => "ret"

def cName : CStmt → String
  | .cas => "cas" | .inflightRawClose => "inflightRawClose" | .closeNotify => "closeNotify"
  | .rawClose => "rawClose" | .ret => "ret"

def wWhy (s : WStmt) (a : WAbs) : String :=
  match s with
  | .write => if !a.reg then "write_in_window:transport-write-outside-the-activeCall-window(decrement-not-deferred-in-the-writing-function)"
              else "write_in_window:transport-write-without-c.out"
  | .lockOut => if !a.reg then "write_in_window:c.out-taken-outside-the-activeCall-window(decrement-not-deferred-in-the-writing-function)"
                else "write_in_window:c.out-relocked"
  | .dec => if !a.reg then "window_balanced:decrement-without-registration" else "window_balanced:decrement-while-holding-c.out"
  | .reg => "window_balanced:second-registration-or-unbalanced-defers"
  | .unlockOut => "window_balanced:unlock-of-c.out-not-held"
  | .ret => "window_balanced:return-leaves-the-window-open-or-c.out-locked"
  | .condRet => "window_balanced:early-return-leaves-the-window-open-or-c.out-locked"
  | _ => "ok"

def diagW : List WStmt → WAbs → Nat → Option (Nat × String)
  | [], _, i => some (i, "window_balanced:function-falls-off-the-end")
  | s :: rest, a, i =>
    if !wOk s a then some (i, s!"{wWhy s a}/path=fallthrough[0..{i})+{wName s}@{i}")
    else if s == .ret then none else diagW rest (wEff s a) (i + 1)

def cWhy (s : CStmt) (a : CAbs) : String :=
  match s with
  | .cas => "close_interlock:closed-bit-set-twice"
  | .closeNotify => if !a.casDone then "close_interlock:close_notify-before-the-closed-bit-is-set"
                    else "close_interlock:close_notify-takes-c.out-without-the-in-flight-test"
  | .ret => "close_interlock:return-without-closing-the-transport"
  | _ => "close_interlock:closed-bit-not-set-first"

def diagC : List CStmt → CAbs → Nat → Option (Nat × String)
  | [], _, i => some (i, "close_interlock:function-falls-off-the-end")
  | s :: rest, a, i =>
    if !cOk s a then some (i, s!"{cWhy s a}/path=fallthrough[0..{i})+{cName s}@{i}")
    else if s == .ret then none else diagC rest (cEff s a) (i + 1)

/-! ## Progress vocabulary -/

/-- closer `k` can take a step right now -/
def canStepC (cp : List CStmt) (c : Config) (k : Nat) : Bool := (stepC cp c k).isSome
/-- the writer can take a step right now even if the peer never reads -/
def canStepW (wp : List WStmt) (c : Config) : Bool := (stepW wp c false false).isSome

end WrClose
