import UtlsVerif.WrClose
/-!
# WrCloseLemmas — inductive invariant of the activeCall interlock model
-/
namespace WrClose

theorem drop_cons' {α : Type} : ∀ (p : List α) (n : Nat) (s : α) (rest : List α),
    p.drop n = s :: rest → p[n]? = some s ∧ p.drop (n + 1) = rest
  | [], n, s, rest, h => by simp at h
  | x :: xs, 0, s, rest, h => by simp at h; simp [h]
  | x :: xs, n + 1, s, rest, h => by
    simp only [List.drop_succ_cons] at h
    simpa using drop_cons' xs n s rest h

@[simp] theorem updC_same (c : Config) (k : Nat) (f : Closer → Closer) : (c.updC k f).cl k = f (c.cl k) := by
  simp [Config.updC]
theorem updC_other (c : Config) {k j : Nat} (f : Closer → Closer) (h : j ≠ k) : (c.updC k f).cl j = c.cl j := by
  simp [Config.updC, h]
@[simp] theorem updC_ac (c : Config) (k : Nat) (f : Closer → Closer) : (c.updC k f).ac = c.ac := rfl
@[simp] theorem updC_out (c : Config) (k : Nat) (f : Closer → Closer) : (c.updC k f).outOwner = c.outOwner := rfl
@[simp] theorem updC_tc (c : Config) (k : Nat) (f : Closer → Closer) : (c.updC k f).transportClosed = c.transportClosed := rfl
@[simp] theorem updC_w (c : Config) (k : Nat) (f : Closer → Closer) : (c.updC k f).w = c.w := rfl

/-- writer's dynamic state vs. the abstract state of the walk -/
structure WMatch (c : Config) (a : WAbs) : Prop where
  defers : c.w.defers = a.defers
  held : c.outOwner = some .writer ↔ a.held = true
  reg : c.ac / 2 = (if a.reg = true then 1 else 0)
  hr : a.held = true → a.reg = true

def WInv (wp : List WStmt) (c : Config) : Prop :=
  match c.w.mode with
  | .run => ∃ a, checkW (wp.drop c.w.pc) a = true ∧ WMatch c a
  | .unwind =>
    c.ac / 2 ≤ 1 ∧ (c.outOwner = some .writer → c.ac / 2 = 1) ∧
    unwindOkW c.w.defers (decide (c.ac / 2 = 1)) (decide (c.outOwner = some .writer)) = true
  | .done => c.ac / 2 = 0 ∧ c.outOwner ≠ some .writer

structure CMatch (c : Config) (k : Nat) (a : CAbs) : Prop where
  cas : (c.cl k).won = true ↔ a.casDone = true
  chk : a.checked = true → (c.cl k).x = 0
  tc : a.closedT = true → c.transportClosed = true

def CInv (cp : List CStmt) (c : Config) (k : Nat) : Prop :=
  match (c.cl k).mode with
  | .run => ∃ a, checkC (cp.drop (c.cl k).pc) a = true ∧ CMatch c k a
  | .notify =>
    (c.cl k).won = true ∧ (c.cl k).x = 0 ∧
    ∃ a, checkC (cp.drop (c.cl k).pc) a = true ∧ CMatch c k a ∧ cp[(c.cl k).pc]? = some .closeNotify
  | .done => (c.cl k).won = true → c.transportClosed = true

structure GInv (c : Config) : Prop where
  bit : ∀ k, (c.cl k).won = true → c.ac % 2 = 1
  own : ∀ k, c.outOwner = some (.closer k) ↔ (c.cl k).mode = .notify
  idle : ∀ k, (c.cl k).won = true → (c.cl k).x = 0 → c.ac / 2 = 0
  uniq : ∀ k j, (c.cl k).won = true → (c.cl j).won = true → k = j

def Inv (wp : List WStmt) (cp : List CStmt) (c : Config) : Prop :=
  GInv c ∧ WInv wp c ∧ ∀ k, CInv cp c k

theorem inv_init {wp : List WStmt} {cp : List CStmt} (hw : WDisc wp) (hc : CDisc cp) : Inv wp cp init := by
  refine ⟨⟨?_, ?_, ?_, ?_⟩, ?_, ?_⟩
  · intro k h; simp [init] at h
  · intro k; simp [init]
  · intro k h; simp [init] at h
  · intro k j h; simp [init] at h
  · show ∃ a, checkW (wp.drop 0) a = true ∧ WMatch init a
    refine ⟨{}, by simpa [WDisc, wdisc] using hw, ⟨rfl, by simp [init], by simp [init], by simp⟩⟩
  · intro k
    show ∃ a, checkC (cp.drop 0) a = true ∧ CMatch init k a
    exact ⟨{}, by simpa [CDisc, cdisc] using hc, ⟨by simp [init], by simp, by simp⟩⟩


theorem cinv_of_eq {cp : List CStmt} {c c' : Config} {k : Nat} (h1 : c'.cl k = c.cl k)
    (h2 : c.transportClosed = true → c'.transportClosed = true) (h : CInv cp c k) : CInv cp c' k := by
  unfold CInv at h ⊢
  rw [h1]
  have cm : ∀ a, CMatch c k a → CMatch c' k a := fun a m =>
    ⟨by rw [h1]; exact m.cas, by rw [h1]; exact m.chk, fun x => h2 (m.tc x)⟩
  cases hm : (c.cl k).mode <;> rw [hm] at h <;> simp only at h ⊢
  · obtain ⟨a, h3, h4⟩ := h; exact ⟨a, h3, cm a h4⟩
  · obtain ⟨h3, h4, a, h5, h6, h7⟩ := h; exact ⟨h3, h4, a, h5, cm a h6, h7⟩
  · exact fun x => h2 (h x)

theorem winv_of_eq {wp : List WStmt} {c c' : Config} (h1 : c'.w = c.w) (h2 : c'.ac / 2 = c.ac / 2)
    (h3 : c'.outOwner = some .writer ↔ c.outOwner = some .writer) (h : WInv wp c) : WInv wp c' := by
  unfold WInv at h ⊢
  rw [h1]
  have e3 : (c'.outOwner = some Owner.writer) = (c.outOwner = some Owner.writer) := propext h3
  cases hm : c.w.mode <;> rw [hm] at h <;> simp only at h ⊢
  · obtain ⟨a, h4, h5⟩ := h
    exact ⟨a, h4, ⟨by rw [h1]; exact h5.defers, by rw [e3]; exact h5.held, by rw [h2]; exact h5.reg, h5.hr⟩⟩
  · rw [h2]; simp only [e3]; exact h
  · rw [h2]; exact ⟨h.1, fun x => h.2 (h3.1 x)⟩

/-- the abstract state's Booleans are the dynamic ones -/
theorem WMatch.dec_reg {c : Config} {a : WAbs} (m : WMatch c a) : decide (c.ac / 2 = 1) = a.reg := by
  have := m.reg
  cases h : a.reg <;> simp [h] at this ⊢ <;> omega
theorem WMatch.dec_held {c : Config} {a : WAbs} (m : WMatch c a) : decide (c.outOwner = some .writer) = a.held := by
  have := m.held
  cases h : a.held <;> simp [h] at this ⊢ <;> exact this

theorem wmatch_unwind {c : Config} {a : WAbs} (m : WMatch c a) (h : unwindOkW a.defers a.reg a.held = true) :
    c.ac / 2 ≤ 1 ∧ (c.outOwner = some .writer → c.ac / 2 = 1) ∧
    unwindOkW c.w.defers (decide (c.ac / 2 = 1)) (decide (c.outOwner = some .writer)) = true := by
  refine ⟨?_, ?_, ?_⟩
  · have := m.reg; split at this <;> omega
  · intro ho
    have := m.hr (m.held.1 ho)
    have := m.reg
    simp_all
  · rw [m.dec_reg, m.dec_held, m.defers]; exact h



/-- assemble `Inv` after a writer step: closers' records and the transport flag are untouched -/
theorem inv_after_w {wp : List WStmt} {cp : List CStmt} {c c' : Config} (hi : Inv wp cp c)
    (hcl : c'.cl = c.cl) (htc : c'.transportClosed = c.transportClosed)
    (hpar : c'.ac % 2 = c.ac % 2)
    (hown : ∀ k, c'.outOwner = some (.closer k) ↔ c.outOwner = some (.closer k))
    (hidle : (∃ k, (c.cl k).won = true ∧ (c.cl k).x = 0) → c'.ac / 2 = 0)
    (hw : WInv wp c') : Inv wp cp c' := by
  obtain ⟨g, _, hc⟩ := hi
  refine ⟨⟨?_, ?_, ?_, ?_⟩, hw, fun k => cinv_of_eq (by rw [hcl]) (by rw [htc]; exact id) (hc k)⟩
  · intro k h; rw [hcl] at h; rw [hpar]; exact g.bit k h
  · intro k; rw [hown k, hcl]; exact g.own k
  · intro k h1 h2; rw [hcl] at h1 h2; exact hidle ⟨k, h1, h2⟩
  · intro k j h1 h2; rw [hcl] at h1 h2; exact g.uniq k j h1 h2

theorem step_w {wp : List WStmt} {cp : List CStmt} {c c' : Config} {drain alt : Bool} (hi : Inv wp cp c)
    (hs : stepW wp c drain alt = some c') : Inv wp cp c' := by
  have g := hi.1
  have hW := hi.2.1
  unfold WInv at hW
  simp only [stepW] at hs
  cases hm : c.w.mode with
  | done => rw [hm] at hs; simp at hs
  | unwind =>
    rw [hm] at hs hW; simp only at hs hW
    obtain ⟨hle, hor, hu⟩ := hW
    cases hd : c.w.defers with
    | nil =>
      rw [hd] at hs hu
      simp only [Option.some.injEq] at hs; subst hs
      simp only [unwindOkW, Bool.and_eq_true, Bool.not_eq_true', decide_eq_false_iff_not] at hu
      refine inv_after_w hi rfl rfl rfl (fun _ => Iff.rfl) (fun ⟨k, h1, h2⟩ => g.idle k h1 h2) ?_
      show c.ac / 2 = 0 ∧ c.outOwner ≠ some .writer
      exact ⟨by omega, hu.2⟩
    | cons d ds =>
      rw [hd] at hs hu
      cases d with
      | dec =>
        simp only [Option.some.injEq] at hs; subst hs
        simp only [unwindOkW, Bool.and_eq_true, Bool.not_eq_true', decide_eq_false_iff_not, decide_eq_true_eq] at hu
        obtain ⟨⟨h1, h2⟩, h3⟩ := hu
        refine inv_after_w hi rfl rfl (by show (c.ac - 2) % 2 = c.ac % 2; omega) (fun _ => Iff.rfl)
          (fun _ => by show (c.ac - 2) / 2 = 0; omega) ?_
        unfold WInv
        dsimp only
        refine ⟨by omega, fun x => absurd x h2, ?_⟩
        rw [decide_eq_false (by omega : ¬ (c.ac - 2) / 2 = 1), decide_eq_false h2]
        exact h3
      | unlockOut =>
        simp only at hs
        simp only [unwindOkW, Bool.and_eq_true, decide_eq_true_eq] at hu
        rw [if_pos hu.1] at hs
        simp only [Option.some.injEq] at hs; subst hs
        refine inv_after_w hi rfl rfl rfl (fun k => by simp [hu.1]) (fun ⟨k, h1, h2⟩ => g.idle k h1 h2) ?_
        unfold WInv
        dsimp only
        refine ⟨hle, (fun x => by cases x), ?_⟩
        rw [decide_eq_false (by simp : ¬ (none : Option Owner) = some Owner.writer)]
        exact hu.2
  | run =>
    rw [hm] at hs hW; simp only at hs hW
    obtain ⟨a, hck, hM⟩ := hW
    cases hdrop : wp.drop c.w.pc with
    | nil => rw [hdrop] at hck; simp [checkW] at hck
    | cons s rest =>
      rw [hdrop] at hck
      obtain ⟨hget, hdrop1⟩ := drop_cons' _ _ _ _ hdrop
      simp only [checkW, Bool.and_eq_true, Bool.or_eq_true] at hck
      obtain ⟨hok, hrest⟩ := hck
      rw [hget] at hs
      have idle0 : (∃ k, (c.cl k).won = true ∧ (c.cl k).x = 0) → c.ac / 2 = 0 := fun ⟨k, h1, h2⟩ => g.idle k h1 h2
      -- fall-through with unchanged shared state except possibly defers
      have fall : ∀ (w' : Writer) (a' : WAbs), w'.mode = .run → w'.pc = c.w.pc + 1 →
          checkW rest a' = true → WMatch { c with w := w' } a' → Inv wp cp { c with w := w' } := by
        intro w' a' h1 h2 h3 h4
        refine inv_after_w hi rfl rfl rfl (fun _ => Iff.rfl) idle0 ?_
        unfold WInv
        simp only [h1, h2, hdrop1]
        exact ⟨a', h3, h4⟩
      -- start returning
      have retn : ∀ (w' : Writer), w'.mode = .unwind → w'.defers = c.w.defers →
          unwindOkW a.defers a.reg a.held = true → Inv wp cp { c with w := w' } := by
        intro w' h1 h2 h3
        refine inv_after_w hi rfl rfl rfl (fun _ => Iff.rfl) idle0 ?_
        unfold WInv
        simp only [h1, h2]
        exact wmatch_unwind hM h3
      cases s with
      | reg =>
        simp only [wOk, Bool.and_eq_true, Bool.not_eq_true'] at hok
        obtain ⟨⟨hr, hh⟩, hu⟩ := hok
        simp only at hs
        by_cases hb : c.ac % 2 = 1
        · rw [if_pos hb] at hs
          simp only [Option.some.injEq] at hs; subst hs
          exact retn _ rfl rfl (by rw [hr, hh]; exact hu)
        · rw [if_neg hb] at hs
          simp only [Option.some.injEq] at hs; subst hs
          have h0 : c.ac / 2 = 0 := by have := hM.reg; simpa [hr] using this
          have nowin : ∀ k, (c.cl k).won = true → False := fun k h => hb (g.bit k h)
          simp only [show (WStmt.reg == WStmt.ret) = false by decide, Bool.false_eq_true, false_or] at hrest
          refine inv_after_w hi rfl rfl (by show (c.ac + 2) % 2 = c.ac % 2; omega) (fun _ => Iff.rfl)
            (fun ⟨k, h1, _⟩ => (nowin k h1).elim) ?_
          unfold WInv
          simp only [hdrop1]
          refine ⟨_, hrest, ⟨hM.defers, hM.held, ?_, fun _ => rfl⟩⟩
          show (c.ac + 2) / 2 = _
          simp [wEff]; omega
      | ret =>
        simp only [Option.some.injEq] at hs; subst hs
        exact retn _ rfl rfl (by simpa [wOk] using hok)
      | condRet =>
        simp only at hs
        simp only [show (WStmt.condRet == WStmt.ret) = false by decide, Bool.false_eq_true, false_or] at hrest
        cases alt with
        | true =>
          simp only [if_true, Option.some.injEq] at hs; subst hs
          exact retn _ rfl rfl (by simpa [wOk] using hok)
        | false =>
          simp only [Bool.false_eq_true, if_false, Option.some.injEq] at hs; subst hs
          exact fall _ a rfl rfl hrest ⟨hM.defers, hM.held, hM.reg, hM.hr⟩
      | handshake =>
        simp only [Option.some.injEq] at hs; subst hs
        simp only [show (WStmt.handshake == WStmt.ret) = false by decide, Bool.false_eq_true, false_or] at hrest
        exact fall _ a rfl rfl hrest ⟨hM.defers, hM.held, hM.reg, hM.hr⟩
      | write =>
        simp only at hs
        simp only [show (WStmt.write == WStmt.ret) = false by decide, Bool.false_eq_true, false_or] at hrest
        split at hs
        · simp only [Option.some.injEq] at hs; subst hs
          exact fall _ a rfl rfl hrest ⟨hM.defers, hM.held, hM.reg, hM.hr⟩
        · cases hs
      | deferDec =>
        simp only [Option.some.injEq] at hs; subst hs
        simp only [show (WStmt.deferDec == WStmt.ret) = false by decide, Bool.false_eq_true, false_or] at hrest
        refine fall _ _ rfl rfl hrest ⟨?_, hM.held, hM.reg, hM.hr⟩
        show WDefer.dec :: c.w.defers = WDefer.dec :: a.defers
        rw [hM.defers]
      | deferUnlockOut =>
        simp only [Option.some.injEq] at hs; subst hs
        simp only [show (WStmt.deferUnlockOut == WStmt.ret) = false by decide, Bool.false_eq_true, false_or] at hrest
        refine fall _ _ rfl rfl hrest ⟨?_, hM.held, hM.reg, hM.hr⟩
        show WDefer.unlockOut :: c.w.defers = WDefer.unlockOut :: a.defers
        rw [hM.defers]
      | dec =>
        simp only [Option.some.injEq] at hs; subst hs
        simp only [show (WStmt.dec == WStmt.ret) = false by decide, Bool.false_eq_true, false_or] at hrest
        simp only [wOk, Bool.and_eq_true, Bool.not_eq_true'] at hok
        have h1 : c.ac / 2 = 1 := by have := hM.reg; simpa [hok.1] using this
        refine inv_after_w hi rfl rfl (by show (c.ac - 2) % 2 = c.ac % 2; omega) (fun _ => Iff.rfl)
          (fun _ => by show (c.ac - 2) / 2 = 0; omega) ?_
        unfold WInv
        simp only [hdrop1]
        refine ⟨_, hrest, ⟨hM.defers, hM.held, ?_, fun h => ?_⟩⟩
        · show (c.ac - 2) / 2 = _
          simp [wEff]; omega
        · simp [wEff, hok.2] at h
      | lockOut =>
        simp only at hs
        simp only [show (WStmt.lockOut == WStmt.ret) = false by decide, Bool.false_eq_true, false_or] at hrest
        simp only [wOk, Bool.and_eq_true, Bool.not_eq_true'] at hok
        by_cases hfree : c.outOwner = none
        · rw [if_pos hfree] at hs
          simp only [Option.some.injEq] at hs; subst hs
          refine inv_after_w hi rfl rfl rfl (fun k => by simp [hfree]) idle0 ?_
          unfold WInv
          simp only [hdrop1]
          exact ⟨_, hrest, ⟨hM.defers, by simp [wEff], hM.reg, fun _ => by simpa [wEff] using hok.1⟩⟩
        · rw [if_neg hfree] at hs; cases hs
      | unlockOut =>
        simp only at hs
        simp only [show (WStmt.unlockOut == WStmt.ret) = false by decide, Bool.false_eq_true, false_or] at hrest
        simp only [wOk] at hok
        have hmine := hM.held.2 hok
        rw [if_pos hmine] at hs
        simp only [Option.some.injEq] at hs; subst hs
        refine inv_after_w hi rfl rfl rfl (fun k => by simp [hmine]) idle0 ?_
        unfold WInv
        simp only [hdrop1]
        exact ⟨_, hrest, ⟨hM.defers, by simp [wEff], hM.reg, fun h => by simp [wEff] at h⟩⟩



/-- assemble `Inv` after a step of closer `k` -/
theorem inv_after_c {wp : List WStmt} {cp : List CStmt} {c c' : Config} {k : Nat} (hi : Inv wp cp c)
    (hoth : ∀ j, j ≠ k → c'.cl j = c.cl j) (htc : c.transportClosed = true → c'.transportClosed = true)
    (hw : c'.w = c.w) (hac : c'.ac / 2 = c.ac / 2)
    (hwo : c'.outOwner = some .writer ↔ c.outOwner = some .writer)
    (g' : GInv c') (hk : CInv cp c' k) : Inv wp cp c' := by
  refine ⟨g', winv_of_eq hw hac hwo hi.2.1, fun j => ?_⟩
  by_cases hj : j = k
  · subst hj; exact hk
  · exact cinv_of_eq (hoth j hj) htc (hi.2.2 j)

theorem ginv_updC {c : Config} {k : Nat} {f : Closer → Closer} (g : GInv c) (tc : Bool)
    (hwon : (f (c.cl k)).won = (c.cl k).won) (hx : (f (c.cl k)).x = (c.cl k).x)
    (hmode : (f (c.cl k)).mode = .notify ↔ (c.cl k).mode = .notify) :
    GInv (({ c with transportClosed := tc } : Config).updC k f) := by
  have e : ∀ j, ((({ c with transportClosed := tc } : Config).updC k f).cl j).won = (c.cl j).won ∧
      ((({ c with transportClosed := tc } : Config).updC k f).cl j).x = (c.cl j).x ∧
      (((({ c with transportClosed := tc } : Config).updC k f).cl j).mode = .notify ↔ (c.cl j).mode = .notify) := by
    intro j
    by_cases hj : j = k
    · subst hj; rw [updC_same]; exact ⟨hwon, hx, hmode⟩
    · rw [updC_other _ _ hj]; exact ⟨rfl, rfl, Iff.rfl⟩
  refine ⟨fun j h => ?_, fun j => ?_, fun j h1 h2 => ?_, fun i j h1 h2 => ?_⟩
  · rw [(e j).1] at h; exact g.bit j h
  · rw [(e j).2.2]; exact g.own j
  · rw [(e j).1] at h1; rw [(e j).2.1] at h2; exact g.idle j h1 h2
  · rw [(e i).1] at h1; rw [(e j).1] at h2; exact g.uniq i j h1 h2

theorem step_c {wp : List WStmt} {cp : List CStmt} {c c' : Config} {k : Nat} (hi : Inv wp cp c)
    (hs : stepC cp c k = some c') : Inv wp cp c' := by
  have g := hi.1
  have hC := hi.2.2 k
  unfold CInv at hC
  simp only [stepC] at hs
  cases hm : (c.cl k).mode with
  | done => rw [hm] at hs; simp at hs
  | notify =>
    rw [hm] at hs hC; simp only at hs hC
    obtain ⟨hwon, hx, a, hck, hM, hget⟩ := hC
    have hown := (g.own k).2 hm
    rw [if_pos hown] at hs
    simp only [Option.some.injEq] at hs; subst hs
    cases hdrop : cp.drop (c.cl k).pc with
    | nil => rw [hdrop] at hck; simp [checkC] at hck
    | cons s rest =>
      rw [hdrop] at hck
      obtain ⟨hget', hdrop1⟩ := drop_cons' _ _ _ _ hdrop
      rw [hget] at hget'
      cases Option.some.inj hget'
      simp only [checkC, Bool.and_eq_true, Bool.or_eq_true, show (CStmt.closeNotify == CStmt.ret) = false by decide,
        Bool.false_eq_true, false_or] at hck
      refine inv_after_c hi (fun j hj => updC_other _ _ hj) id rfl rfl (by simp [hown]) ?_ ?_
      · refine ⟨fun j h => ?_, fun j => ?_, fun j h1 h2 => ?_, fun i j h1 h2 => ?_⟩
        · by_cases hj : j = k
          · subst hj; exact g.bit j hwon
          · rw [updC_other _ _ hj] at h; exact g.bit j h
        · by_cases hj : j = k
          · subst hj; simp
          · rw [updC_other _ _ hj]
            have := g.own j
            constructor
            · intro x; cases x
            · intro x; have := this.2 x; rw [hown] at this; exact absurd (Owner.closer.inj (Option.some.inj this)) (Ne.symm hj)
        · by_cases hj : j = k
          · subst hj; exact g.idle j hwon hx
          · rw [updC_other _ _ hj] at h1 h2; exact g.idle j h1 h2
        · have e : ∀ j, ((({ c with outOwner := none } : Config).updC k fun cl => { cl with mode := .run, pc := cl.pc + 1 }).cl j).won = (c.cl j).won := by
            intro j
            by_cases hj : j = k
            · subst hj; simp
            · rw [updC_other _ _ hj]
          rw [e] at h1 h2; exact g.uniq i j h1 h2
      · unfold CInv
        rw [updC_same]
        dsimp only
        rw [hdrop1]
        exact ⟨a, hck.2, ⟨by rw [updC_same]; exact hM.cas, by rw [updC_same]; exact hM.chk, hM.tc⟩⟩
  | run =>
    rw [hm] at hs hC; simp only at hs hC
    obtain ⟨a, hck, hM⟩ := hC
    cases hdrop : cp.drop (c.cl k).pc with
    | nil => rw [hdrop] at hck; simp [checkC] at hck
    | cons s rest =>
      rw [hdrop] at hck
      obtain ⟨hget, hdrop1⟩ := drop_cons' _ _ _ _ hdrop
      simp only [checkC, Bool.and_eq_true, Bool.or_eq_true] at hck
      obtain ⟨hok, hrest⟩ := hck
      rw [hget] at hs
      have hnn : (c.cl k).mode ≠ .notify := by rw [hm]; simp
      -- local step: only k's record (not won/x) and possibly the transport flag change
      have loc : ∀ (f : Closer → Closer) (tc : Bool), (c.transportClosed = true → tc = true) →
          (f (c.cl k)).won = (c.cl k).won → (f (c.cl k)).x = (c.cl k).x → (f (c.cl k)).mode ≠ .notify →
          CInv cp (({ c with transportClosed := tc } : Config).updC k f) k →
          Inv wp cp (({ c with transportClosed := tc } : Config).updC k f) := by
        intro f tc h1 h2 h3 h4 h5
        exact inv_after_c hi (fun j hj => updC_other _ _ hj) h1 rfl rfl Iff.rfl
          (ginv_updC g tc h2 h3 ⟨fun x => absurd x h4, fun x => absurd x hnn⟩) h5
      have same : ({ c with transportClosed := c.transportClosed } : Config) = c := rfl
      cases s with
      | ret =>
        simp only [Option.some.injEq] at hs; subst hs
        simp only [cOk] at hok
        have := loc (fun cl => { cl with mode := .done }) c.transportClosed id rfl rfl (by simp) (by
          unfold CInv; rw [updC_same]; dsimp only
          intro _; exact hM.tc hok)
        exact this
      | rawClose =>
        simp only [Option.some.injEq] at hs; subst hs
        simp only [show (CStmt.rawClose == CStmt.ret) = false by decide, Bool.false_eq_true, false_or] at hrest
        refine loc (fun cl => { cl with pc := cl.pc + 1 }) true (fun _ => rfl) rfl rfl (by simpa using hnn) ?_
        unfold CInv; rw [updC_same]; dsimp only
        rw [hm]; dsimp only
        rw [hdrop1]
        exact ⟨_, hrest, ⟨by rw [updC_same]; exact hM.cas, by rw [updC_same]; exact hM.chk, fun _ => rfl⟩⟩
      | inflightRawClose =>
        simp only at hs
        simp only [show (CStmt.inflightRawClose == CStmt.ret) = false by decide, Bool.false_eq_true, false_or] at hrest
        by_cases hx : (c.cl k).x = 0
        · simp only [hx, ne_eq, not_true_eq_false, if_false, Option.some.injEq] at hs; subst hs
          have := loc (fun cl => { cl with pc := cl.pc + 1 }) c.transportClosed id rfl rfl (by simpa using hnn) (by
            unfold CInv; rw [updC_same]; dsimp only
            rw [hm]; dsimp only
            rw [hdrop1]
            exact ⟨_, hrest, ⟨by rw [updC_same]; exact hM.cas, fun _ => by rw [updC_same]; exact hx, hM.tc⟩⟩)
          exact this
        · rw [if_pos hx] at hs
          simp only [Option.some.injEq] at hs; subst hs
          refine loc (fun cl => { cl with mode := .done }) true (fun _ => rfl) rfl rfl (by simp) ?_
          unfold CInv; rw [updC_same]; dsimp only
          intro _; rfl
      | closeNotify =>
        simp only at hs
        simp only [cOk, Bool.and_eq_true] at hok
        have hwon := hM.cas.2 hok.1
        have hx := hM.chk hok.2
        by_cases hfree : c.outOwner = none
        · rw [if_pos hfree] at hs
          simp only [Option.some.injEq] at hs; subst hs
          refine inv_after_c hi (fun j hj => updC_other _ _ hj) id rfl rfl (by simp [hfree]) ?_ ?_
          · have e : ∀ j, ((({ c with outOwner := some (.closer k) } : Config).updC k fun cl => { cl with mode := .notify }).cl j).won = (c.cl j).won ∧
                ((({ c with outOwner := some (.closer k) } : Config).updC k fun cl => { cl with mode := .notify }).cl j).x = (c.cl j).x := by
              intro j
              by_cases hj : j = k
              · subst hj; rw [updC_same]; exact ⟨rfl, rfl⟩
              · rw [updC_other _ _ hj]; exact ⟨rfl, rfl⟩
            refine ⟨fun j h => ?_, fun j => ?_, fun j h1 h2 => ?_, fun i j h1 h2 => ?_⟩
            · rw [(e j).1] at h; exact g.bit j h
            · by_cases hj : j = k
              · subst hj; simp
              · rw [updC_other _ _ hj]
                constructor
                · intro x; exact absurd (Owner.closer.inj (Option.some.inj x)).symm hj
                · intro x; have := (g.own j).2 x; rw [hfree] at this; cases this
            · rw [(e j).1] at h1; rw [(e j).2] at h2; exact g.idle j h1 h2
            · rw [(e i).1] at h1; rw [(e j).1] at h2; exact g.uniq i j h1 h2
          · unfold CInv; rw [updC_same]; dsimp only
            refine ⟨hwon, hx, a, ?_, ⟨by rw [updC_same]; exact hM.cas, by rw [updC_same]; exact hM.chk, hM.tc⟩, hget⟩
            rw [hdrop]
            simp only [show (CStmt.closeNotify == CStmt.ret) = false by decide, Bool.false_eq_true, false_or] at hrest
            simp [checkC, cOk, hok.1, hok.2, hrest]
        · rw [if_neg hfree] at hs; cases hs
      | cas =>
        simp only at hs
        simp only [cOk, Bool.and_eq_true, Bool.not_eq_true'] at hok
        have hnw : (c.cl k).won = false := by
          cases h : (c.cl k).won with
          | false => rfl
          | true => have := hM.cas.1 h; rw [hok.1] at this; cases this
        by_cases hb : c.ac % 2 = 1
        · rw [if_pos hb] at hs
          simp only [Option.some.injEq] at hs; subst hs
          have := loc (fun cl => { cl with mode := .done }) c.transportClosed id rfl rfl (by simp) (by
            unfold CInv; rw [updC_same]; dsimp only
            intro h; rw [hnw] at h; cases h)
          exact this
        · rw [if_neg hb] at hs
          simp only [Option.some.injEq] at hs; subst hs
          simp only [show (CStmt.cas == CStmt.ret) = false by decide, Bool.false_eq_true, false_or] at hrest
          have nowin : ∀ j, (c.cl j).won = true → False := fun j h => hb (g.bit j h)
          refine inv_after_c hi (fun j hj => updC_other _ _ hj) id rfl (by show (c.ac + 1) / 2 = c.ac / 2; omega) Iff.rfl ?_ ?_
          · refine ⟨fun j _ => by show (c.ac + 1) % 2 = 1; omega, fun j => ?_, fun j h1 h2 => ?_, fun i j h1 h2 => ?_⟩
            · by_cases hj : j = k
              · subst hj; rw [updC_same]; dsimp only
                have := g.own j
                rw [hm] at this ⊢
                exact this
              · rw [updC_other _ _ hj]; exact g.own j
            · by_cases hj : j = k
              · subst hj; rw [updC_same] at h2; dsimp only at h2
                show (c.ac + 1) / 2 = 0; omega
              · rw [updC_other _ _ hj] at h1; exact (nowin j h1).elim
            · by_cases hi' : i = k
              · by_cases hj : j = k
                · rw [hi', hj]
                · rw [updC_other _ _ hj] at h2; exact (nowin j h2).elim
              · rw [updC_other _ _ hi'] at h1; exact (nowin i h1).elim
          · unfold CInv; rw [updC_same]; dsimp only
            rw [hm]; dsimp only
            rw [hdrop1]
            refine ⟨_, hrest, ⟨by rw [updC_same]; simp [cEff], fun h => ?_, hM.tc⟩⟩
            simp [cEff, hok.2] at h



theorem inv_step {wp : List WStmt} {cp : List CStmt} {c c' : Config} {l : Label} (hw : WDisc wp)
    (hi : Inv wp cp c) (hs : step wp cp c l = some c') : Inv wp cp c' := by
  cases l with
  | w drain alt => exact step_w hi hs
  | c k => exact step_c hi hs
  | again =>
    simp only [step] at hs
    split at hs
    · rename_i hdone
      simp only [Option.some.injEq] at hs; subst hs
      have hW := hi.2.1
      unfold WInv at hW; rw [hdone] at hW; simp only at hW
      refine inv_after_w hi rfl rfl rfl (fun _ => Iff.rfl) (fun ⟨k, h1, h2⟩ => hi.1.idle k h1 h2) ?_
      show ∃ a, checkW (wp.drop 0) a = true ∧ WMatch { c with w := {} } a
      refine ⟨{}, by simpa [WDisc, wdisc] using hw, ⟨rfl, ?_, ?_, by simp⟩⟩
      · constructor
        · intro x; exact absurd x hW.2
        · intro x; cases x
      · show c.ac / 2 = _
        simp [hW.1]
    · cases hs

theorem inv_reach {wp : List WStmt} {cp : List CStmt} {c : Config} (hw : WDisc wp) (hc : CDisc cp)
    (hr : Reach wp cp c) : Inv wp cp c := by
  induction hr with
  | init => exact inv_init hw hc
  | step l _ hs ih => exact inv_step hw ih hs

/-- a closer that is in `closeNotify`'s position can take `c.out` -/
theorem closer_can_step {wp : List WStmt} {cp : List CStmt} {c : Config} {k : Nat} (hi : Inv wp cp c)
    (hnd : (c.cl k).mode ≠ .done) : canStepC cp c k = true := by
  have g := hi.1
  have hC := hi.2.2 k
  unfold CInv at hC
  unfold canStepC
  simp only [stepC]
  cases hm : (c.cl k).mode with
  | done => exact absurd hm hnd
  | notify => simp [(g.own k).2 hm]
  | run =>
    rw [hm] at hC; simp only at hC
    obtain ⟨a, hck, hM⟩ := hC
    cases hdrop : cp.drop (c.cl k).pc with
    | nil => rw [hdrop] at hck; simp [checkC] at hck
    | cons s rest =>
      rw [hdrop] at hck
      obtain ⟨hget, _⟩ := drop_cons' _ _ _ _ hdrop
      simp only [checkC, Bool.and_eq_true] at hck
      have hok := hck.1
      simp only [hget]
      cases s with
      | cas => by_cases hb : c.ac % 2 = 1 <;> simp [hb]
      | inflightRawClose => by_cases hx : (c.cl k).x = 0 <;> simp [hx]
      | rawClose => simp
      | ret => simp
      | closeNotify =>
        simp only [cOk, Bool.and_eq_true] at hok
        have hwon := hM.cas.2 hok.1
        have hx := hM.chk hok.2
        have hidle := g.idle k hwon hx
        have hfree : c.outOwner = none := by
          cases ho : c.outOwner with
          | none => rfl
          | some o =>
            cases o with
            | writer =>
              -- the writer holds c.out, so it is inside the window: activeCall/2 = 1
              have hW := hi.2.1
              unfold WInv at hW
              cases hwm : c.w.mode <;> rw [hwm] at hW <;> simp only at hW
              · obtain ⟨aw, _, mw⟩ := hW
                have := mw.hr (mw.held.1 ho)
                have := mw.reg
                simp_all
              · have := hW.2.1 ho; omega
              · exact absurd ho hW.2
            | closer j =>
              have hj := (g.own j).1 ho
              have hjw : (c.cl j).won = true := by
                have := hi.2.2 j
                unfold CInv at this; rw [hj] at this; exact this.1
              have := g.uniq k j hwon hjw
              subst this
              rw [hm] at hj; cases hj
        simp [hfree]


end WrClose
