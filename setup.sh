#!/bin/sh
# build the framework from files on disk only (offline): harness, regenerated tables, Lean project
set -e
cd "$(dirname "$0")"
export GOFLAGS=-mod=mod GOPROXY=off
unset GOTOOLCHAIN GOSUMDB
REPO="${VERIF_REPO:-/repo}"
mkdir -p harness/bin evidence replays
cp "$REPO/go.sum" harness/go.sum
MODFLAG=""
if [ "$(realpath "$REPO")" != "/repo" ]; then
  sed "s#=> /repo#=> $(realpath "$REPO")#" harness/go.mod > harness/go.scratch.mod
  cp "$REPO/go.sum" harness/go.scratch.sum
  MODFLAG="-modfile=go.scratch.mod"
fi
(cd harness && go build -tags verif $MODFLAG -o bin/ ./cmd/...)
rm -rf lean/UtlsVerif/Gen && mkdir -p lean/UtlsVerif/Gen
harness/bin/gen lean/UtlsVerif/Gen
python3 tools/gendrv.py
(cd lean && lake build)
echo setup-ok
