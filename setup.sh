#!/bin/sh
# build the framework from files on disk only (offline): harness, regenerated tables, Lean project
set -e
cd "$(dirname "$0")"
export GOFLAGS=-mod=mod GOPROXY=off
unset GOTOOLCHAIN GOSUMDB
mkdir -p harness/bin evidence replays
cp /repo/go.sum harness/go.sum
(cd harness && go build -tags verif -o bin/ ./cmd/...)
rm -rf lean/UtlsVerif/Gen && mkdir -p lean/UtlsVerif/Gen
harness/bin/gen lean/UtlsVerif/Gen
(cd lean && lake build)
echo setup-ok
