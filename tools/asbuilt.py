#!/usr/bin/env python3
"""regenerate the '| id | status | theorems | seeded |' table of DESIGN.md §13 from the tree."""
import os, re, json, glob, sys
ROOT = os.path.dirname(os.path.dirname(os.path.abspath(__file__)))
sys.path.insert(0, os.path.join(ROOT, 'tools'))
import props as P
kf = json.load(open(os.path.join(ROOT, 'known_findings.json')))
ids = [json.loads(l)['id'] for l in open(os.path.join(ROOT, 'properties.jsonl'))]
rows = ['| id | status | theorems (Props/Cxx.lean) | seeded changes (detected / missed) | as-built notes |', '|---|---|---|---|---|']
for pid in ids:
    if pid not in P.PROPS:
        rows.append(f'| {pid} | not claimed yet | | | |'); continue
    src = open(os.path.join(ROOT, 'lean', 'UtlsVerif', 'Props', pid + '.lean')).read()
    th = re.findall(r'^theorem\s+(\S+)', src, re.M)
    f_open = [k['key'] for k in kf if k['property'] == pid and k['status'] == 'open']
    f_fixed = [f"{k['key']} ({k.get('commit','')})" for k in kf if k['property'] == pid and k['status'] == 'fixed']
    st = 'claimed'
    if f_open: st += '; open findings: ' + ', '.join(f_open)
    if f_fixed: st += '; fixed: ' + ', '.join(f_fixed)
    det, mis = [], []
    for d in sorted(glob.glob(os.path.join(ROOT, 'seeded', pid + '-*'))):
        try:
            m = json.load(open(os.path.join(d, 'meta.json')))
        except Exception:
            continue
        (det if m.get('detected') else mis).append(os.path.basename(d))
    seeded = ', '.join(det) + ((' / missed: ' + ', '.join(mis)) if mis else '')
    note = f'notes/{pid}-report.md' if os.path.exists(os.path.join(ROOT, 'notes', pid + '-report.md')) else ''
    rows.append(f"| {pid} | {st} | {', '.join(th)} | {seeded} | {note} |")
p = os.path.join(ROOT, 'DESIGN.md')
s = open(p).read()
a = s.index('| id | status | theorems')
b = s.find('\n\n', a)
if b < 0: b = len(s)
s = s[:a] + '\n'.join(rows) + s[b:]
open(p, 'w').write(s)
print('table rows:', len(rows) - 2)

# ---- §14: seeded changes (from seeded/*/meta.json) ----
rows2 = ['| seeded change | what it changes (from the independent session) | needs, to manifest | result of ./check |', '|---|---|---|---|']
for d in sorted(glob.glob(os.path.join(ROOT, 'seeded', '*'))):
    try:
        m = json.load(open(os.path.join(d, 'meta.json')))
    except Exception:
        continue
    def cut(x, n):
        x = re.sub(r'\s+', ' ', str(x or '')).replace('|', '/')
        return x if len(x) <= n else x[:n] + '…'
    pid = m.get('property', '')
    lines = (m.get('checks_run', {}).get(pid, {}) or {}).get('lines', [])
    res = 'detected' if m.get('detected') else 'MISSED at first — see §12/§15'
    kinds = [('concrete failing input' if 'no-failing-input-found' not in l else 'tie/proof broke, no failing input found') for l in lines if l.startswith('VIOLATION')]
    if kinds:
        res += ' (' + kinds[0] + ')'
    rows2.append(f"| {os.path.basename(d)} | {cut(m.get('summary'), 260)} | {cut(m.get('needs'), 220)} | {res} |")
s2 = open(p2 := os.path.join(ROOT, 'DESIGN.md')).read()
hdr = '## 14. Seeded changes and what caught them (generated)'
body = hdr + '\n\nEach change was written by an independent session that saw only the property text, compiles, passes the pinned suite, and comes with a demonstration test (seeded/<id>/). `tools/seedcheck.py` confirms all of that in a scratch worktree, applies the patch to /repo, runs `./check`, and reverts.\n\n' + '\n'.join(rows2) + '\n'
if hdr in s2:
    a = s2.index(hdr)
    b = s2.find('\n## ', a + 5)
    s2 = s2[:a] + body + (s2[b:] if b > 0 else '')
else:
    s2 = s2.rstrip('\n') + '\n\n' + body
open(p2, 'w').write(s2)
print('seeded rows:', len(rows2) - 2)
