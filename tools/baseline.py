#!/usr/bin/env python3
"""run /repo's pinned suite (guard off) and compare with /root/.vp/BASELINE.json's stable_pass list."""
import json, subprocess, sys, os
repo = sys.argv[1] if len(sys.argv) > 1 else '/repo'
base = json.load(open('/root/.vp/BASELINE.json'))
want = set(base['stable_pass'])
env = dict(os.environ, GOFLAGS='-mod=mod', GOPROXY='off')
p = subprocess.run(['go', 'test', '-mod=mod', '-json', '-vet=off', '-count=1', '-timeout', '25m', './...'], cwd=repo, env=env, capture_output=True, text=True)
passed, failed = set(), set()
for l in p.stdout.split('\n'):
    try:
        e = json.loads(l)
    except Exception:
        continue
    if e.get('Test') and e.get('Action') in ('pass', 'fail'):
        (passed if e['Action'] == 'pass' else failed).add(f"{e['Package']}::{e['Test']}")
missing = sorted(want - passed)
print(f'stable_pass={len(want)} passed_now={len(passed)} failed_now={sorted(failed)} missing_from_pass={missing}')
sys.exit(1 if missing else 0)
