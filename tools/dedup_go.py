#!/usr/bin/env python3
"""resolve top-level name clashes between family files of one Go package (merged builder branches):
later files get the clashing identifier suffixed with their file id. usage: dedup_go.py <dir>"""
import re, sys, os, collections
d = sys.argv[1]
shared = ['main.go', 'util.go', 'hs.go', 'extdesc.go', 'ids.go']
files = sorted(f for f in os.listdir(d) if f.endswith('.go'))
order = [f for f in shared if f in files] + [f for f in files if f not in shared]
decl = collections.OrderedDict()
src = {f: open(os.path.join(d, f)).read() for f in files}
def toplevel(s):
    names = set()
    for m in re.finditer(r'^func (\w+)\(', s, re.M): names.add(m.group(1))
    for m in re.finditer(r'^(?:type|var|const) (\w+)\b', s, re.M): names.add(m.group(1))
    for blk in re.finditer(r'^(?:var|const) \(\n(.*?)^\)', s, re.M | re.S):
        for m in re.finditer(r'^\t(\w+)(?:,\s*\w+)*\s', blk.group(1), re.M): names.add(m.group(1))
    names.discard('init'); names.discard('_')
    return names
owner = {}
changed = False
for f in order:
    for n in sorted(toplevel(src[f])):
        if n in owner and owner[n] != f:
            suffix = re.sub(r'\W', '', f[:-3])
            new = f'{n}_{suffix}'
            src[f] = re.sub(r'(?<![\w.])' + re.escape(n) + r'\b', new, src[f])
            print(f'{f}: {n} -> {new} (owned by {owner[n]})')
            changed = True
        else:
            owner.setdefault(n, f)
for f in files:
    open(os.path.join(d, f), 'w').write(src[f])
