#!/usr/bin/env python3
"""Writes corpus/C08/carry.case: every variable-size extension kind at the sizes where a length prefix
carries into its high byte (around 256 and 512 bytes of body), deterministic, run first on every check.
Reason: seeded change C08-1 (ALPN outer length loses the carry when the list length is 254/255 mod 256)
was only met by chance by the random generator."""
import sys
def hx(n, seed=0x61):
    return '-' if n == 0 else ''.join('%02x' % ((seed + i * 7) % 256) for i in range(n))
sizes = list(range(246, 262)) + list(range(502, 518))
out = ['# carry boundaries of every variable-size extension body (see tools/gen_c08_carry.py)']
def add(desc, buf='+0'):
    out.append(f'ext e={desc} buf={buf}')
for s in sizes:
    # ALPN / ALPS: list length = sum(1+len); two or three protocols
    parts = []
    rest = s
    while rest > 0:
        l = min(rest - 1, 200)
        if l <= 0: break
        parts.append(l); rest -= 1 + l
    if rest == 0 and parts:
        protos = ','.join(hx(l, 0x61 + i) for i, l in enumerate(parts))
        add(f'alpn|{protos}'); add(f'alps|0|{protos}'); add(f'alps|1|{protos}', '+1')
    for kind in ('generic|4660', 'grease|2570', 'cookie', 'session_ticket'):
        add(f'{kind}|{hx(s)}'); add(f'{kind}|{hx(s - 2)}', '+2000')
    if s <= 255 + 6:
        add(f'reneg|{hx(min(s, 255))}')
        add(f'sni|{hx(s - 8, 0x61)[:0]}' + ''.join('%02x' % (0x61 + (i % 26)) for i in range(max(1, s - 9))))
    add(f'padding|{s}|0'); add(f'padding|{s - 4}|0')
    if s % 2 == 0:
        n = s // 2
        lst = ','.join(str(1000 + i) for i in range(n))
        for kind in ('curves', 'sigalgs', 'sigalgs_cert', 'delegated'):
            add(f'{kind}|{lst}')
        lst1 = ','.join(str(1000 + i) for i in range(n - 1))
        add(f'curves|{lst1}'); add(f'sigalgs|{lst1}')
    if s <= 261:
        add('points|' + ','.join(str(i % 256) for i in range(s)))
        add('psk_modes|' + ','.join(str(i % 256) for i in range(s)))
        if s % 2 == 0:
            add('versions|' + ','.join(str(768 + i) for i in range(s // 2)))
            add('compress_cert|' + ','.join(str(1 + i) for i in range(s // 2)))
    # key_share: one entry 4+len, list prefix 2
    add(f'key_share|29:{hx(s - 4)}'); add(f'key_share|23:{hx(s - 6)},29:{hx(32)}' if s > 50 else 'key_share|-')
    add(f'quic_tp|5:{hx(63)},9:{hx(64)},17:{hx(max(1, s - 140))}')
open('/verif/corpus/C08/carry.case', 'w').write('\n'.join(out) + '\n')
print(len(out) - 1, 'cases')
