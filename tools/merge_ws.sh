#!/bin/sh
# merge_ws.sh <name>: bring a builder workspace's commits into /verif and /repo
set -e
N="$1"; W=/tmp/w/$N
echo "== repo commits to pick"
git -C /repo fetch -q "$W/repo" HEAD
# only commits whose patch is not in /repo yet (git cherry marks equivalents with '-')
for c in $(git -C /repo cherry HEAD FETCH_HEAD | grep '^+' | cut -d' ' -f2); do
  # already picked earlier (possibly with a conflict resolution that changed the patch id)?
  if git -C /repo log --format=%B | grep -q "cherry picked from commit $c"; then continue; fi
  git -C /repo log -1 --format='%h %s' "$c"
  git -C /repo cherry-pick -x "$c" >/dev/null || { echo "CONFLICT on $c"; exit 1; }
done
echo "== verif merge"
git -C /verif fetch -q "$W/verif" "$N"
git -C /verif merge --no-edit -X ours FETCH_HEAD 2>&1 | tail -3
