#!/bin/sh
# merge_ws.sh <name>: bring a builder workspace's commits into /verif and /repo
set -e
N="$1"; W=/tmp/w/$N
echo "== repo commits to pick"
git -C /repo fetch -q "$W/repo" HEAD
git -C /repo log --reverse --format='%h %s' HEAD..FETCH_HEAD
for c in $(git -C /repo log --reverse --format='%H' HEAD..FETCH_HEAD); do
  git -C /repo cherry-pick -x "$c" >/dev/null || { echo "CONFLICT on $c"; exit 1; }
done
echo "== verif merge"
git -C /verif fetch -q "$W/verif" "$N"
git -C /verif merge --no-edit FETCH_HEAD 2>&1 | tail -3
