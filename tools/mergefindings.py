#!/usr/bin/env python3
"""merge notes/*-findings.json fragments into known_findings.json (dedupe by property+key); rewrite
commit ids of cherry-picked fixes to the ids they have in /repo."""
import json, glob, os, re, subprocess
ROOT = os.path.dirname(os.path.dirname(os.path.abspath(__file__)))
kf = json.load(open(os.path.join(ROOT, 'known_findings.json')))
have = {(k['property'], k['key']) for k in kf}
log = subprocess.run(['git', '-C', '/repo', 'log', '--format=%h%x00%B%x01'], capture_output=True, text=True).stdout
picked = {}
for ent in log.split('\x01'):
    if '\x00' not in ent:
        continue
    h, body = ent.strip().split('\x00', 1)
    for m in re.finditer(r'cherry picked from commit ([0-9a-f]+)', body):
        picked[m.group(1)] = h
def remap(c):
    for full, h in picked.items():
        if c and full.startswith(c):
            return h
    return c
for f in sorted(glob.glob(os.path.join(ROOT, 'notes', '*-findings.json'))):
    try:
        ents = json.load(open(f))
    except Exception as e:
        print('skip', f, e); continue
    if isinstance(ents, dict):
        ents = [ents]
    for e in ents:
        if (e['property'], e['key']) in have:
            continue
        if e.get('commit'):
            old = e['commit']; new = remap(old)
            if new != old:
                e['commit'] = new
                e['what'] = e.get('what', '').replace(old, new)
        kf.append(e); have.add((e['property'], e['key']))
        print('added', e['property'], e['key'], e.get('status'), e.get('commit', ''))
open(os.path.join(ROOT, 'known_findings.json'), 'w').write('[\n' + ',\n'.join(' ' + json.dumps(x) for x in kf) + '\n]\n')
