#!/usr/bin/env python3
"""regenerate MANIFEST.json from tools/props.py (claimed checks) + properties.jsonl (everything else -> not_applicable)."""
import json, os, sys, subprocess
ROOT = os.path.dirname(os.path.dirname(os.path.abspath(__file__)))
sys.path.insert(0, os.path.join(ROOT, 'tools'))
import props as P

ids = [json.loads(l)['id'] for l in open(os.path.join(ROOT, 'properties.jsonl'))]
hooks = subprocess.run(['git', '-C', '/repo', 'log', '--format=%H %s'], capture_output=True, text=True).stdout.strip().split('\n')
hook_commits = [l.split(' ')[0] for l in hooks if ' verif' in l and 'hook' in l]
checks = []
for pid in ids:
    if pid not in P.PROPS:
        continue
    c = P.PROPS[pid]
    checks.append({
        'property_id': pid,
        'quick_cmd': f'./check {pid} --tier quick',
        'thorough_cmd': f'./check {pid} --tier thorough',
        'evidence_file': f'/verif/evidence/{pid}.json',
        'replay_cmd_template': f'./check {pid} --replay {{path}}',
        'engine': 'lean4-proof+correspondence',
        'level_claimed': {'category': 'proof', 'text': c['level_text'], 'design_ref': f'DESIGN.md §8 {pid}'},
        'level_note': c['level_note'],
        'technique': c['technique'],
    })
na = [{'property_id': pid, 'reason': P.NOT_CLAIMED.get(pid, 'no check built yet in this session (planned, see DESIGN.md §8)')} for pid in ids if pid not in P.PROPS]
m = {
    'version': 1,
    'setup_cmd': './setup.sh',
    'hooks': {
        'guard': 'verif',
        'enable': 'go build -tags verif (harness module /verif/harness, replace github.com/refraction-networking/utls => /repo)',
        'baseline_off_cmd': 'cd /repo && go test -mod=mod -json -vet=off -count=1 -timeout 25m ./...',
        'source_commits': hook_commits,
        'add_only': True,
    },
    'engines': [{'name': 'lean4-proof+correspondence', 'path': '/verif/check',
                 'serves_properties': [c['property_id'] for c in checks],
                 'kind_free_text': 'Lean 4 theorems over a hand-written executable model + regenerated tables (lake build, #print axioms audit); Go harness runs the real code from /repo (-tags verif) and the compiled Lean driver checks correspondence and property monitors line by line'}],
    'checks': checks,
    'notes': 'see DESIGN.md; known findings in known_findings.json; seeded changes in seeded/',
    'not_applicable': na,
}
json.dump(m, open(os.path.join(ROOT, 'MANIFEST.json'), 'w'), indent=1)
print(f'{len(checks)} checks, {len(na)} not claimed')

import subprocess, sys, os
subprocess.run([sys.executable, os.path.join(ROOT, 'tools', 'asbuilt.py')])
