#!/bin/sh
# mkmut.sh <Cxx>: scratch worktree for a mutation sub-agent + print the property text
set -e
P="$1"
git -C /repo worktree remove --force /tmp/wt/$P 2>/dev/null || true
rm -rf /tmp/wt/$P /tmp/wt/$P-out; mkdir -p /tmp/wt/$P-out
git -C /repo worktree add -q --detach /tmp/wt/$P HEAD
python3 - "$P" <<'PY'
import json,sys
for l in open('/verif/properties.jsonl'):
    p=json.loads(l)
    if p['id']==sys.argv[1]:
        print(json.dumps({k:p[k] for k in ('id','title','statement','quantifier','anchors') if k in p},indent=1))
PY
