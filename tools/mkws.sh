#!/bin/sh
# mkws.sh <name>: prepare a private workspace /tmp/w/<name>/{verif,repo} from the committed HEADs
set -e
N="$1"; W=/tmp/w/$N
rm -rf "$W"; mkdir -p "$W"
git clone -q /verif "$W/verif"
git clone -q /repo "$W/repo"
git -C "$W/verif" checkout -q -b "$N"
git -C "$W/verif" config user.email builder@local; git -C "$W/verif" config user.name "builder-$N"
git -C "$W/repo" config user.email builder@local; git -C "$W/repo" config user.name "builder-$N"
echo "$W"
