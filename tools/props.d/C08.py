PROP = {
    'technique': 'Lean 4 theorems over a transcription of all 29 built-in TLSExtension encoders/decoders (Len = bytes written, short-buffer behaviour, framing, decode-of-encode = documented normalisation, idempotent normalisation) + differential correspondence against Len/Read/ExtensionFromID/Write of the working tree',
    'level_text': 'Kernel-checked for every extension value of every built-in type (no bound on list lengths or byte strings): a successful Read writes exactly Len() bytes; any buffer shorter than Len() yields io.ErrShortBuffer; the bytes are type || uint16 length || body with the length field equal to the body length; for every type with a Write, Write(body(Read(e))) = norm(e) within wire limits, and norm is idempotent. Tie: per-type generated values (list lengths 0,1,2,127/128 and beyond-limit sizes) x buffer sizes {0,len-1,len,len+1,len+2000,len/2}; model must reproduce Len, n, bytes, error class, the decoded extension and its re-encoding.',
        'level_note': 'Theorems are about the Lean transcription (Ext.lean); tie = differential correspondence. GREASE ECH regenerates its random parts on Write, so only sizes and the deterministic prefix are compared there. cryptobyte is modelled by the Wire readers.',
    'families': {'ext': (4500, 150000)},
    'rule': 'every extension kind in rotation x generated field values (boundary-biased list lengths, random bytes; ~10% beyond wire limits) x 6 buffer-size policies. non-trivial = any case other than a zero-length buffer on a well-formed extension',
    'trivial_tag': r'^$',
    'required_tags': [r'ext:sni,wf,ok', r'ext:psk,wf,(ok|err)', r'ext:ech,wf,ok', r'ext:key_share,wf,ok', r'ext:padding,wf,eof0', r'ext:.*,short', r'ext:.*beyond-limits'],
    'assumptions': ['ExtensionFromID(id) is the dispatch ReadTLSExtensions uses (checked by the same call)', 'extension values are described by their exported fields (describeExt in the harness)'],
    'trusted': ['modelled: Len/Read/Write of the 29 built-in extension types and ExtensionFromID dispatch; cryptobyte trusted'],
}
