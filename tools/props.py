"""per-property configuration of the check driver: families = {name: (N_quick, N_thorough)}."""

NOT_CLAIMED = {}

PROPS = {
    'C24': {
        'technique': 'Lean 4 theorems (varint round-trip/minimality/width, TP marshal->parse induction) + differential correspondence of the executable model against quicvarint and TransportParameters.Marshal',
        'level_text': 'Kernel-checked theorems for all naturals (no bound): Append/Read round-trip with arbitrary continuation, Len minimality, AppendWithLen width+round-trip, panic exactly at >= 2^62, Marshal parses back to the parameter list by induction over the list. The model is tied to the code by running both on boundary-biased generated inputs on every run.',
        'level_note': 'Theorems are about the Lean transcription; tie = correspondence harness (differential, not exhaustive). Go runtime, bytes.Reader, crypto/rand trusted.',
        'families': {'varint': (3000, 400000), 'varint_read': (1000, 100000), 'tps': (1500, 100000)},
        'rule': 'varint: boundary values (all 2^k-1,2^k,2^k+1; every width limit ±1) then random values of random bit length x requested width; '
                'tps: generated parameter lists over all 17 parameter types incl. GREASE (random and overridden) and fake ids. '
                'distinct = distinct input lines; non-trivial = value needing >1 byte, a panic outcome, or a non-empty parameter list',
        'trivial_tag': r'^(len=1,w=legal,wl=ok|n=0,ok|empty)$',
        'required_tags': [r'varint:len=1', r'varint:len=2', r'varint:len=4', r'varint:len=8', r'varint:len=panic', r'wl=ok', r'tps:n=4,ok', r'tps:.*panic', r'varint_read:.*eof'],
        'assumptions': ['Go uint64/byte arithmetic and append/slices behave as modelled (validated by correspondence)',
                        'crypto/rand draws of GREASE parameters are inputs to the model (only their shape is checked)'],
        'trusted': ['modelled: quicvarint.Read/Append/AppendWithLen/Len, TransportParameters.Marshal, typed parameters ID()/Value(); bytes.Reader is trusted'],
    },
    'C36': {
        'technique': 'Lean 4 refinement proof (code transcription = bounded LRU map for every history, invariant by induction) + atomic-step linearizability theorem; differential histories and Wing-Gong check of real concurrent histories',
        'level_text': 'Kernel-checked: for every Put/Get history from the empty cache the transcription of lruSessionCache returns what the abstract LRU map returns (refinement under the invariant |entries|<=cap, keys distinct, itself proved for every reachable state); with each method atomic, every concurrent execution is linearized by lock order. Tied to the code by sequential differential histories and by real concurrent histories checked for linearizability by the Lean driver.',
        'level_note': 'container/list+map are represented by one MRU-first list (validated by correspondence); atomicity of Put/Get under the mutex is a shape assumption exercised by concurrent runs; data-race freedom is not decided by the theorem (Go memory model).',
        'families': {'lru': (3000, 300000), 'lru_conc': (1500, 60000)},
        'rule': 'random Put/Put-nil/Get histories over 2-5 keys x capacities 1-5, default-capacity cases (cap<1) and 150-op histories around capacity 64; concurrent: 2-3 goroutines x 3-6 ops on one cache with invoke/response stamps. non-trivial = history with >= 8 ops or a concurrent history with overlapping calls',
        'trivial_tag': r'len=0|len=short|sequential',
        'required_tags': [r'lru:cap=1,.*full', r'lru:.*nilput', r'lru_conc:.*overlap', r'lru:cap=6'],
        'assumptions': ['each lruSessionCache method runs atomically under its mutex (sync.Mutex semantics)', 'pointer identity of *ClientSessionState values is what Get returns (numbered by the harness)'],
        'trusted': ['modelled: lruSessionCache.Put/Get/NewLRUClientSessionCache; container/list and Go maps trusted'],
    },
}
