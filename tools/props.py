"""per-property configuration of the check driver: families = {name: (N_quick, N_thorough)}."""

NOT_CLAIMED = {}

PROPS = {
    'C24': {
        'technique': 'Lean 4 theorems (varint round-trip/minimality/width, TP marshal->parse induction, slice-level transcription of append: result independent of spare capacity and of later calls) + differential correspondence of the executable model against quicvarint and TransportParameters.Marshal, incl. dirty destination buffers and sequences of Marshal calls whose results are held',
        'level_text': 'Kernel-checked theorems for all naturals (no bound): Append/Read round-trip with arbitrary continuation, Len minimality, AppendWithLen width+round-trip, panic exactly at >= 2^62, Marshal parses back to the parameter list by induction over the list; Append/AppendWithLen/Marshal transcribed over Go slices (visible bytes + spare capacity + growth policy) give b ++ enc for every content of the spare capacity; every result of a sequence of Marshal calls parses back to its own list, also with memory modelled (heap of arrays: Marshal writes only arrays it allocated, so every returned slice read after all later calls still shows its own list). The model is tied to the code by running both on boundary-biased generated inputs on every run.',
        'level_note': 'Theorems are about the Lean transcription; tie = correspondence harness (differential, not exhaustive). Go runtime, bytes.Reader, crypto/rand trusted.',
        'families': {'varint': (3000, 400000), 'varint_read': (1000, 100000), 'tps': (1500, 100000), 'tps_seq': (600, 40000)},
        'rule': 'varint: boundary values (all 2^k-1,2^k,2^k+1; every width limit ±1) then random values of random bit length x requested width '
                'x destination slice (nil, len==cap, zeroed spare capacity, spare capacity filled with 0xff / given bytes incl. too small for the width, '
                'scratch buffer reset after a longer encoding) with 0-9 visible bytes in front; '
                'tps: generated parameter lists over all 17 parameter types incl. GREASE (random and overridden) and fake ids; '
                'tps_seq: 2-4 different lists marshalled in sequence (directly, through the extension Len()/Read(), or mixed; produce/inspect orders permuted), '
                'every held result inspected only after all were produced. '
                'distinct = distinct input lines; non-trivial = value needing >1 byte, a panic outcome, or a non-empty parameter list',
        'trivial_tag': r'^(len=1,w=legal,wl=ok,dst=(nil|exact)|n=0,ok|empty)$',
        'required_tags': [r'varint:len=1', r'varint:len=2', r'varint:len=4', r'varint:len=8', r'varint:len=panic', r'wl=ok', r'tps:n=4,ok', r'tps:.*panic', r'varint_read:.*eof',
                          r'varint:len=1,.*dst=scr,stale-padding', r'varint:len=2,.*stale-padding', r'varint:len=4,.*stale-padding', r'varint:.*dst=ff,stale-padding', r'varint:.*dst=rnd',
                          r'varint:.*dst=nil', r'varint:.*dst=exact', r'tps_seq:marshal', r'tps_seq:ext', r'tps_seq:mixed'],
        'assumptions': ['Go uint64/byte arithmetic and append/slices behave as modelled (validated by correspondence)',
                        'memory model for result independence: heap = list of arrays, append writes in place when the array has room and allocates otherwise (tied by the tps_seq correspondence); sync.Pool, GC and escape analysis are not modelled',
                        'crypto/rand draws of GREASE parameters are inputs to the model (only their shape is checked)'],
        'trusted': ['modelled: quicvarint.Read/Append/AppendWithLen/Len, TransportParameters.Marshal, typed parameters ID()/Value(); bytes.Reader is trusted'],
    },
    'C36': {
        'technique': 'Lean 4 refinement proof (code transcription = bounded LRU map for every history, invariant by induction) + atomic-step linearizability theorem; differential histories and Wing-Gong check of real concurrent histories',
        'level_text': 'Kernel-checked: for every Put/Get history from the empty cache the transcription of lruSessionCache returns what the abstract LRU map returns (refinement under the invariant |entries|<=cap, keys distinct, itself proved for every reachable state); with each method atomic, every concurrent execution is linearized by lock order. Tied to the code by sequential differential histories and by real concurrent histories checked for linearizability by the Lean driver.',
        'level_note': 'container/list+map are represented by one MRU-first list (validated by correspondence); atomicity of Put/Get under the mutex is a shape assumption exercised by concurrent runs; data-race freedom is not decided by the theorem (Go memory model).',
        'families': {'lru': (3000, 300000), 'lru_conc': (1500, 60000)},
        'rule': 'random Put/Put-nil/Get histories over 2-5 keys x capacities 1-5, default-capacity cases (cap<1) and 150-op histories around capacity 64; concurrent: 2-3 goroutines x 3-6 ops on one cache with invoke/response stamps. non-trivial = history with >= 8 ops or a concurrent history with overlapping calls',
        'trivial_tag': r'len=0|len=short|sequential',
        'required_tags': [r'lru:cap=1,.*full', r'lru:.*nilput', r'lru_conc:.*overlap', r'lru:cap=6'],
        'assumptions': ['each lruSessionCache method runs atomically under its mutex (sync.Mutex semantics)', 'pointer identity of *ClientSessionState values is what Get returns (numbered by the harness)'],
        'trusted': ['modelled: lruSessionCache.Put/Get/NewLRUClientSessionCache; container/list and Go maps trusted'],
    },
    'C04': {
        'technique': 'Lean 4 theorems over the GREASE arithmetic (all seeds via low-byte reduction + kernel decide over the byte table; QUIC ids/versions by omega) + exhaustive/differential correspondence with GetBoringGREASEValue, ApplyPreset and the QUIC generators',
        'level_text': 'Kernel-checked for every uint16 seed word and every drawn value: GetBoringGREASEValue is always 0x?A?A and depends exactly on one nibble of this connection\'s seed (functional freshness); after de-duplication the two GREASE extensions always differ; the GREASE group substituted into key_share equals the one in supported_groups, also for every sequence of re-applications of one in-place rewritten spec object (each hello is a function of its own seed and the original spec: resubst_consistent, reapply_function_of_own_seed) and for literal GREASE values in a spec; 31N+27 ids below 2^62; versions 0x?a?a?a?a. Tie: exhaustive 65536 seeds (thorough), all parrots x random Config.Rand streams, sequences of 2-3 applications of one spec object (two-step build, shared spec, literal GREASE), QUIC generators under a logged crypto/rand.Reader with a Lean replica of rand.Int.',
        'level_note': 'variation across connections is a statement about the entropy source and is only measured; theorem = functional dependence on the connection\'s 10 GREASE bytes. crypto/rand.Int replicated in the model and validated by correspondence.',
        'families': {'grease_val': (3000, 65536), 'grease_hello': (760, 38000), 'grease_reapply': (800, 40000), 'grease_quic': (600, 60000)},
        'rule': 'grease_val: seed words (thorough: all 65536) x 5 indices; grease_hello: every parrot id x fresh deterministic Config.Rand, values read back from the built handshake state; grease_reapply: one spec OBJECT applied 2-3 times (ApplyPreset rewrites it in place): (k-1) x BuildHandshakeStateWithoutSession + BuildHandshakeState on one connection, or one ClientHelloSpec shared by 2-3 HelloCustom connections with independent Config.Rand, optionally with literal non-placeholder GREASE values written into the spec; per step the per-hello clauses on state and parsed wire hello + no value kept from the previous application when the seeds differ; grease_quic: GetGREASEID/GetGREASEVersion/ID()/VersionInformation.Value under logged crypto/rand. non-trivial = spec containing GREASE placeholders, or a QUIC draw',
        'trivial_tag': r'^(nospec|gext=0,|(two|shared),n=\d,gext=0,,groupseeds=\w+)$',
        'required_tags': [r'grease_hello:gext=2', r'grease_hello:.*dedup', r'grease_reapply:two,n=2,gext=2,cgkv,groupseeds=differ', r'grease_reapply:two,n=3,gext=2,cgkv,groupseeds=differ', r'grease_reapply:shared,n=[23],gext=2,cgkv,groupseeds=differ', r'grease_reapply:shared,n=[23],gext=2,cgkv,lit,groupseeds=differ', r'grease_reapply:.*,cg,', r'grease_quic:over=valid', r'grease_quic:.*retry=y', r'grease_val:nibble=0'],
        'assumptions': ['the 10-byte read from Config.Rand is the GREASE seed read (exactly one read of that length is observed and checked)', 'crypto/rand.Reader can be replaced for the duration of a case'],
        'trusted': ['modelled: GetBoringGREASEValue, the de-duplication and substitutions of ApplyPreset, GetGREASEID, GetGREASEVersion, IsGREASEID; math/big rand.Int replicated'],
    },
    'C30': {
        'technique': 'Lean 4 theorems over a replica of math/rand Int63n/Int31n/int31n/Intn/Perm/Shuffle and prng.Intn/Int63n/Range/FlipWeightedCoin for every stream + differential correspondence on the tapped SHAKE stream',
        'level_text': 'Kernel-checked for every stream and every argument: Intn/Int63n in [0,n) and exactly 0 without consuming for n<=0; Range in [max(min,0),max] incl. the overflowing span; Perm/Shuffle are permutations; coin corners over an abstract float layer. Determinism = functionality of the model, tied by running the same seed twice and by predicting every result from the tapped stream.',
        'level_note': 'SHAKE256/HKDF are not modelled (the stream is an input; the salt enters through the HMAC key block only, modelled up to an uninterpreted rest F); "differs across salts" is cryptographic: proved from injectivity of F for salts that differ beyond trailing NULs, refuted with a witness for salts that differ by trailing NULs only (known finding), sampled on the code for salt pairs of 0..200 bytes incl. pairs sharing 32/64-byte prefixes, and the stream is compared with an independent SHAKE256(HKDF-SHA3-256) from the Go standard library; concurrency: proved for atomic calls (lock order = stream order), exercised on 16-32 goroutines x thousands of draws per case (partition-of-stream check), data-race freedom itself is not decided (thorough tier: the same concurrent draws under the Go race detector, family prng_race).',
        'families': {'prng': (3000, 300000), 'prng_conc': (40, 2000), 'prng_race': (0, 2)},
        'rule': 'salts of 0,1,4,31,32,33,40,64,65,100,136,137,200 bytes x second salt (same, extended, first/last byte changed, changed only beyond the first 32 / 64 bytes); prng_conc: 16-32 goroutines x 2000-4000 draws through Uint64/Int63/Int63n/Intn/Read on one prng (plus light 2-6 x 50-250 cases); random seeds x salted/unsalted x op sequences of Intn/Int63n/Range/FlipWeightedCoin/Perm/Uint64 with boundary arguments (<=0, 1, powers of two +-1, 2^31, 2^63-1, MinInt64; weights 0,1,>1,<0,NaN,inf,tiny); non-trivial = sequence with >= 2 different helper kinds',
        'trivial_tag': r'^(plain|salted[a-z0-9,-]*),.?$',
        'required_tags': [r'prng:salted', r'prng:plain', r'prng:.*C', r'prng:.*R', r'prng:.*P', r'prng_conc:threads',
                          r'prng:salted-long,shared-prefix32', r'prng:salted,same-salt', r'prng:salted-long,other-salt', r'prng:salted,other-salt',
                          r'prng_conc:threads=many,kinds=U$', r'prng_conc:threads=many,kinds=U[A-Z]*[KJN]'],
        'assumptions': ['a second prng built from the same seed yields the stream the first one consumes (that is the determinism clause itself and is also checked)'],
        'trusted': ['modelled: prng helpers and math/rand algorithms (Go 1.24); sha3/hkdf trusted; float64 semantics of the coin validated by correspondence only'],
    },
}


# per-property fragments: tools/props.d/Cxx.py defines PROP = {...} (same keys as above)
import os as _os, importlib.util as _ilu
_d = _os.path.join(_os.path.dirname(_os.path.abspath(__file__)), 'props.d')
if _os.path.isdir(_d):
    for _f in sorted(_os.listdir(_d)):
        if _f.endswith('.py'):
            _spec = _ilu.spec_from_file_location('props_' + _f[:-3], _os.path.join(_d, _f))
            _m = _ilu.module_from_spec(_spec)
            _spec.loader.exec_module(_m)
            PROPS[_f[:-3]] = _m.PROP
            if hasattr(_m, 'NOT_CLAIMED_REASON'):
                NOT_CLAIMED[_f[:-3]] = _m.NOT_CLAIMED_REASON
