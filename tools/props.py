"""per-property configuration of the check driver: families = {name: (N_quick, N_thorough)}."""

NOT_CLAIMED = {}

PROPS = {
    'C24': {
        'technique': 'Lean 4 theorems (varint round-trip/minimality/width, TP marshal->parse induction) + differential correspondence of the executable model against quicvarint and TransportParameters.Marshal',
        'level_text': 'Kernel-checked theorems for all naturals (no bound): Append/Read round-trip with arbitrary continuation, Len minimality, AppendWithLen width+round-trip, panic exactly at >= 2^62, Marshal parses back to the parameter list by induction over the list. The model is tied to the code by running both on boundary-biased generated inputs on every run.',
        'level_note': 'Theorems are about the Lean transcription; tie = correspondence harness (differential, not exhaustive). Go runtime, bytes.Reader, crypto/rand trusted.',
        'families': {'varint': (3000, 400000), 'varint_read': (1000, 100000), 'tps': (1500, 100000)},
        'rule': 'varint: boundary values (all 2^k-1,2^k,2^k+1; every width limit ±1) then random values of random bit length x requested width; '
                'tps: generated parameter lists over all 17 parameter types incl. GREASE (random and overridden) and fake ids. '
                'distinct = distinct input lines; non-trivial = value needing >1 byte, a panic outcome, or a non-empty parameter list',
        'trivial_tag': r'^(len=1,w=legal,wl=ok|n=0,ok|empty)$',
        'required_tags': [r'varint:len=1', r'varint:len=2', r'varint:len=4', r'varint:len=8', r'varint:len=panic', r'wl=ok', r'tps:n=4,ok', r'tps:.*panic', r'varint_read:.*eof'],
        'assumptions': ['Go uint64/byte arithmetic and append/slices behave as modelled (validated by correspondence)',
                        'crypto/rand draws of GREASE parameters are inputs to the model (only their shape is checked)'],
        'trusted': ['modelled: quicvarint.Read/Append/AppendWithLen/Len, TransportParameters.Marshal, typed parameters ID()/Value(); bytes.Reader is trusted'],
    },
}
