#!/bin/sh
cd /verif
set -- $(ls seeded | grep -E -- '-(1|2)$' | sed 's/-/ /')
while [ $# -ge 2 ]; do
  batch=""
  i=0
  while [ $# -ge 2 ] && [ $i -lt 8 ]; do batch="$batch $1 $2"; shift 2; i=$((i+1)); done
  /verif/tools/sc2.sh $batch 2>&1 | cut -c1-110
done
echo R1-DONE
