#!/bin/sh
# sc2.sh Cxx n [Cxx n ...]: run seedcheck2 for the pairs in parallel, print one line each
cd /verif
while [ $# -ge 2 ]; do
  ( python3 tools/seedcheck2.py $1 $2 2>&1 | tail -1 | cut -c1-330 | sed "s/^/$1-$2 /" ) &
  shift 2
done
wait
