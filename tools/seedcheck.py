#!/usr/bin/env python3
"""seedcheck.py <Cxx> <n> [--props C01,C02]: confirm a sub-agent's seeded change and run our checks against it.
 1. scratch worktree of /repo HEAD: demo passes clean; with the patch: demo fails, pinned suite unchanged
 2. apply to /repo, run ./check for the property (and any extra), undo
 3. store under /verif/seeded/<Cxx>-<n>/ with meta.json"""
import sys, os, subprocess, json, shutil
pid, n = sys.argv[1], sys.argv[2]
extra = []
if '--props' in sys.argv:
    extra = sys.argv[sys.argv.index('--props') + 1].split(',')
tier = 'thorough' if '--thorough' in sys.argv else 'quick'
src = f'/tmp/wt/{pid}-out'
patch, demo, meta = f'{src}/patch{n}.diff', f'{src}/demo{n}_test.go', f'{src}/meta{n}.json'
env = dict(os.environ, GOFLAGS='-mod=mod', GOPROXY='off')
def sh(cmd, cwd=None):
    p = subprocess.run(cmd, shell=True, cwd=cwd, env=env, stdout=subprocess.PIPE, stderr=subprocess.STDOUT, text=True)
    return p.returncode, p.stdout
wt = f'/tmp/sc/{pid}-{n}'
sh(f'git -C /repo worktree remove --force {wt}'); shutil.rmtree(wt, ignore_errors=True)
os.makedirs('/tmp/sc', exist_ok=True)
rc, out = sh(f'git -C /repo worktree add --detach {wt} HEAD')
assert rc == 0, out
res = {}
try:
    shutil.copy(demo, f'{wt}/zz_seeded_demo_test.go')
    test = f'TestSeeded{pid}{n}'
    rc, out = sh(f'go test -mod=mod -vet=off -count=1 -run {test} .', cwd=wt)
    res['demo_clean_pass'] = (rc == 0); res['demo_clean_tail'] = out[-300:]
    rc, out = sh(f'git apply {patch}', cwd=wt)
    res['patch_applies'] = (rc == 0)
    if rc != 0:
        res['apply_err'] = out[-500:]
    else:
        rc, out = sh(f'go test -mod=mod -vet=off -count=1 -run {test} .', cwd=wt)
        res['demo_mutated_fails'] = (rc != 0); res['demo_mutated_tail'] = out[-400:]
        os.remove(f'{wt}/zz_seeded_demo_test.go')
        rc, out = sh(f'python3 /verif/tools/baseline.py {wt}')
        res['suite_unchanged'] = (rc == 0); res['suite'] = out.strip()[-300:]
finally:
    sh(f'git -C /repo worktree remove --force {wt}'); shutil.rmtree(wt, ignore_errors=True)
confirmed = res.get('demo_clean_pass') and res.get('patch_applies') and res.get('demo_mutated_fails') and res.get('suite_unchanged')
res['confirmed'] = bool(confirmed)
checks = {}
if confirmed:
    rc, out = sh('git -C /repo status --short')
    assert out.strip() == '', 'repo not clean: ' + out
    rc, out = sh(f'git -C /repo apply {patch}')
    try:
        for p in [pid] + extra:
            rc, out = sh(f'./check {p} --tier {tier}', cwd='/verif')
            lines = [l for l in out.split('\n') if l.startswith('VIOLATION') or l.startswith('OK') or l.startswith('INFRA') or l.startswith('KNOWN')]
            checks[p] = {'rc': rc, 'lines': lines}
            rp = [l.split('replay=')[1].split(' ')[0] for l in lines if 'replay=' in l]
            if rp and os.path.exists(rp[0]):
                checks[p]['replay_head'] = open(rp[0]).read()[:1500]
    finally:
        sh('git -C /repo checkout -- .')
        sh('git -C /repo clean -fd -e zz_verif_on.go -e zz_verif_off.go')
    # restore evidence of the unchanged tree later (caller re-runs checks)
res['checks'] = checks
res['detected'] = any(c['rc'] == 1 for c in checks.values())
print(json.dumps(res, indent=1))
if confirmed:
    d = f'/verif/seeded/{pid}-{n}'
    os.makedirs(d, exist_ok=True)
    shutil.copy(patch, f'{d}/patch.diff'); shutil.copy(demo, f'{d}/demo_test.go')
    m = json.load(open(meta)) if os.path.exists(meta) else {}
    m.update({'property': pid, 'confirmed_by': 'tools/seedcheck.py: demo passes on clean worktree, fails with patch, pinned suite unchanged',
              'checks_run': {p: {'exit': c['rc'], 'lines': c['lines']} for p, c in checks.items()}, 'detected': res['detected'], 'tier': tier})
    json.dump(m, open(f'{d}/meta.json', 'w'), indent=1)
