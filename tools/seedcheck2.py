#!/usr/bin/env python3
"""seedcheck2.py <Cxx> <n> [--round R]: like seedcheck.py but fully in scratch copies, so several can run
in parallel and /repo is never touched:
  /tmp/sc2/<Cxx>-<n>/repo  = clone of /repo HEAD (+ patch)   /tmp/sc2/<Cxx>-<n>/verif = copy of /verif (with build output)
 1. demo passes on the clean clone, fails with the patch; pinned suite unchanged with the patch
 2. VERIF_REPO=<scratch repo> ./check Cxx in the scratch verif copy
 3. store under /verif/seeded/<Cxx>-<n>/ (patch.diff, demo_test.go, meta.json)"""
import sys, os, subprocess, json, shutil
pid, n = sys.argv[1], sys.argv[2]
src = f'/tmp/wt/{pid}-out'
patch, demo, meta = f'{src}/patch{n}.diff', f'{src}/demo{n}_test.go', f'{src}/meta{n}.json'
stored = f'/verif/seeded/{pid}-{n}'
if not os.path.exists(patch) and os.path.exists(f'{stored}/patch.diff'):
    # re-verification of a stored change: everything comes from /verif/seeded
    patch, demo, meta = f'{stored}/patch.diff', f'{stored}/demo_test.go', f'{stored}/meta.json'
env = dict(os.environ, GOFLAGS='-mod=mod', GOPROXY='off')
def sh(cmd, cwd=None, extra=None):
    e = dict(env); e.update(extra or {})
    p = subprocess.run(cmd, shell=True, cwd=cwd, env=e, stdout=subprocess.PIPE, stderr=subprocess.STDOUT, text=True)
    return p.returncode, p.stdout
W = f'/tmp/sc2/{pid}-{n}'
shutil.rmtree(W, ignore_errors=True); os.makedirs(W)
rc, out = sh(f'git clone -q /repo {W}/repo'); assert rc == 0, out
res = {}
test = f'TestSeeded{pid}{n}'
shutil.copy(demo, f'{W}/repo/zz_seeded_demo_test.go')
rc, out = sh(f'go test -mod=mod -vet=off -count=1 -run {test} .', cwd=f'{W}/repo')
res['demo_clean_pass'] = (rc == 0); res['demo_clean_tail'] = out[-300:]
rc, out = sh(f'git apply {patch}', cwd=f'{W}/repo')
res['patch_applies'] = (rc == 0)
checks = {}
if rc == 0:
    rc, out = sh(f'go test -mod=mod -vet=off -count=1 -run {test} .', cwd=f'{W}/repo')
    res['demo_mutated_fails'] = (rc != 0); res['demo_mutated_tail'] = out[-400:]
    os.remove(f'{W}/repo/zz_seeded_demo_test.go')
    rc, out = sh(f'python3 /verif/tools/baseline.py {W}/repo')
    res['suite_unchanged'] = (rc == 0); res['suite'] = out.strip()[-300:]
else:
    res['apply_err'] = out[-500:]
confirmed = bool(res.get('demo_clean_pass') and res.get('patch_applies') and res.get('demo_mutated_fails') and res.get('suite_unchanged'))
res['confirmed'] = confirmed
if confirmed:
    sh(f'cp -a /verif {W}/verif')
    rc, out = sh(f'./check {pid} --tier quick', cwd=f'{W}/verif', extra={'VERIF_REPO': f'{W}/repo'})
    lines = [l for l in out.split('\n') if l.startswith(('VIOLATION', 'OK', 'INFRA', 'KNOWN'))]
    checks[pid] = {'rc': rc, 'lines': [l.replace(f'{W}/verif', '/verif') for l in lines]}
    rp = [l.split('replay=')[1].split(' ')[0] for l in lines if 'replay=' in l]
    if rp and os.path.exists(rp[0]):
        checks[pid]['replay_head'] = open(rp[0]).read()[:1500]
res['checks'] = checks
res['detected'] = any(c['rc'] == 1 for c in checks.values())
print(json.dumps({k: res[k] for k in ('confirmed', 'detected', 'patch_applies', 'demo_clean_pass', 'demo_mutated_fails', 'suite_unchanged') if k in res} | {'lines': checks.get(pid, {}).get('lines')}))
if confirmed:
    d = f'/verif/seeded/{pid}-{n}'
    os.makedirs(d, exist_ok=True)
    if os.path.abspath(patch) != os.path.abspath(f'{d}/patch.diff'):
        shutil.copy(patch, f'{d}/patch.diff'); shutil.copy(demo, f'{d}/demo_test.go')
    m = json.load(open(meta)) if os.path.exists(meta) else {}
    m.update({'property': pid, 'confirmed_by': 'tools/seedcheck2.py: demo passes on a clean clone, fails with the patch, pinned suite unchanged (scratch copies; /repo untouched)',
              'checks_run': {p: {'exit': c['rc'], 'lines': c['lines'], 'clause': next((l for l in c.get('replay_head', '').split('\n') if l.startswith('# clause:')), None)} for p, c in checks.items()}, 'detected': res['detected'], 'tier': 'quick'})
    json.dump(m, open(f'{d}/meta.json', 'w'), indent=1)
shutil.rmtree(W, ignore_errors=True)
