#!/bin/sh
# run every claimed check once (seed given) and print one line each
cd /verif
S=${1:-1}
for p in $(python3 -c "
import json;print(' '.join(c['property_id'] for c in json.load(open('/verif/MANIFEST.json'))['checks']))"); do
  VERIF_SEED=$S ./check $p --tier quick 2>&1 | grep -E '^(OK|VIOLATION|INFRA)' | sed "s/^/seed=$S /"
done
