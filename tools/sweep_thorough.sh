#!/bin/sh
# run every claimed check's thorough tier once, two at a time; one line each (last line when no verdict line)
cd /verif
S=${1:-1}
python3 -c "
import json;print('\n'.join(c['property_id'] for c in json.load(open('/verif/MANIFEST.json'))['checks']))" | \
 xargs -P 2 -I{} sh -c "VERIF_SEED=$S ./check {} --tier thorough > /tmp/thor-{}.out 2>&1; echo rc=\$? \$(grep -E '^(OK|VIOLATION|INFRA)' /tmp/thor-{}.out || tail -1 /tmp/thor-{}.out) | cut -c1-250"
echo THOROUGH-DONE
