#!/usr/bin/env python3
"""check driver: ./check <Cxx> [--tier quick|thorough] [--replay file]

Rebuilds the harness from /repo's working tree (-tags verif), regenerates the Gen
tables, re-checks the Lean theorems (lake build + axiom audit), runs the
correspondence + monitors, classifies against known_findings.json, writes
evidence/<id>.json.  Exit 0 = held on everything explored; exit 1 + VIOLATION line.
"""
import sys, os, re, json, subprocess, time, fcntl, hashlib, shutil, argparse

ROOT = os.path.dirname(os.path.dirname(os.path.abspath(__file__)))
sys.path.insert(0, os.path.join(ROOT, 'tools'))
import props as P

LEAN = os.path.join(ROOT, 'lean')
HARN = os.path.join(ROOT, 'harness')
BIN = os.path.join(HARN, 'bin')
MODEL = os.path.join(LEAN, '.lake', 'build', 'bin', 'utlsmodel')
REPO = os.environ.get('VERIF_REPO', '/repo')
GOENV = dict(os.environ, GOFLAGS='-mod=mod', GOPROXY='off')
for k in ('GOTOOLCHAIN', 'GOSUMDB'):
    GOENV.pop(k, None)   # either setting breaks the auto-selected go1.24.0 toolchain
ALLOWED_AXIOMS = {'propext', 'Classical.choice', 'Quot.sound'}
BANNED = re.compile(r'\bsorry\b|\badmit\b|^\s*axiom\s|native_decide|bv_decide|implemented_by|\bunsafe\s|maxHeartbeats\s+0\b')

TRUSTED_COMMON = [
    "Lean 4.33.0 kernel (thorough tier: leanchecker re-checks the .olean files)",
    "axioms: propext, Classical.choice, Quot.sound only (audited by #print axioms on every registered theorem; no sorry/admit/native_decide/bv_decide/implemented_by/unsafe)",
    "Lean compiler+runtime for executing the model in the utlsmodel driver (same definitions the theorems are about)",
    "the Go correspondence harness (/verif/harness) and its canonicalisation; the Go toolchain",
]


def log(*a):
    print(*a, file=sys.stderr, flush=True)


def run(cmd, cwd=None, env=None, inp=None, timeout=None):
    p = subprocess.run(cmd, cwd=cwd, env=env, input=inp, stdout=subprocess.PIPE, stderr=subprocess.STDOUT,
                       text=True, timeout=timeout)
    return p.returncode, p.stdout


class Lock:
    def __enter__(self):
        self.f = open(os.path.join(ROOT, '.buildlock'), 'w')
        fcntl.flock(self.f, fcntl.LOCK_EX)

    def __exit__(self, *a):
        fcntl.flock(self.f, fcntl.LOCK_UN)
        self.f.close()


def strip_comments(src):
    # remove /- ... -/ (nested) and -- ... comments
    out, i, depth = [], 0, 0
    while i < len(src):
        if src.startswith('/-', i):
            depth += 1; i += 2; continue
        if depth and src.startswith('-/', i):
            depth -= 1; i += 2; continue
        if depth:
            if src[i] == '\n':
                out.append('\n')
            i += 1; continue
        if src.startswith('--', i):
            while i < len(src) and src[i] != '\n':
                i += 1
            continue
        out.append(src[i]); i += 1
    return ''.join(out)


def grep_audit():
    hits = []
    for dp, _, fs in os.walk(os.path.join(LEAN, 'UtlsVerif')):
        for f in fs:
            if f.endswith('.lean'):
                p = os.path.join(dp, f)
                for n, line in enumerate(strip_comments(open(p).read()).split('\n'), 1):
                    if BANNED.search(line):
                        hits.append(f'{os.path.relpath(p, LEAN)}:{n}: {line.strip()}')
    p = os.path.join(LEAN, 'Driver.lean')
    for n, line in enumerate(strip_comments(open(p).read()).split('\n'), 1):
        if re.search(r'\bsorry\b|native_decide|implemented_by|\bunsafe\s', line):
            hits.append(f'Driver.lean:{n}: {line.strip()}')
    return hits


def registry(pid):
    """theorem names registered for the property = public theorems of Props/<pid>.lean."""
    src = strip_comments(open(os.path.join(LEAN, 'UtlsVerif', 'Props', pid + '.lean')).read())
    names = []
    for m in re.finditer(r'^(private\s+)?theorem\s+(\S+)', src, re.M):
        if not m.group(1):
            names.append(f'{pid}.{m.group(2)}')
    return names


def statement_hashes(pid):
    src = strip_comments(open(os.path.join(LEAN, 'UtlsVerif', 'Props', pid + '.lean')).read())
    hs = {}
    for m in re.finditer(r'^theorem\s+(\S+)(.*?):=', src, re.M | re.S):
        hs[f'{pid}.{m.group(1)}'] = hashlib.sha256(re.sub(r'\s+', ' ', m.group(2)).encode()).hexdigest()[:12]
    return hs


def build_harness():
    """build cmd/corr and cmd/gen from the working tree into a fresh directory and move them into
    place atomically: a check running concurrently in this directory keeps executing the binary it
    started with instead of finding it removed; a failed build installs nothing and ends the check
    (a stale binary is never run: the binaries of the previous build are replaced or the check stops)."""
    os.makedirs(BIN, exist_ok=True)
    stage = os.path.join(BIN, f'.stage-{os.getpid()}')
    shutil.rmtree(stage, ignore_errors=True)
    os.makedirs(stage)
    shutil.copy(os.path.join(REPO, 'go.sum'), os.path.join(HARN, 'go.sum'))
    cmd = ['go', 'build', '-tags', 'verif', '-o', stage + '/']
    if os.path.realpath(REPO) != '/repo':
        # scratch copies: same module file with the replace directive pointed at VERIF_REPO
        mod = open(os.path.join(HARN, 'go.mod')).read().replace('=> /repo', '=> ' + os.path.realpath(REPO))
        open(os.path.join(HARN, 'go.scratch.mod'), 'w').write(mod)
        shutil.copy(os.path.join(REPO, 'go.sum'), os.path.join(HARN, 'go.scratch.sum'))
        cmd.append('-modfile=go.scratch.mod')
    rc, out = run(cmd + ['./cmd/...'], cwd=HARN, env=GOENV)
    if rc == 0:
        for b in ('corr', 'gen'):
            if not os.path.exists(os.path.join(stage, b)):
                rc, out = 1, out + f'\nbuild produced no {b}'
                break
            os.replace(os.path.join(stage, b), os.path.join(BIN, b))
    else:
        for b in ('corr', 'gen'):
            try:
                os.remove(os.path.join(BIN, b))
            except FileNotFoundError:
                pass
    shutil.rmtree(stage, ignore_errors=True)
    return rc, out


def regen():
    """regenerate lean/UtlsVerif/Gen/*.lean from the working tree by running its own code."""
    gdir = os.path.join(LEAN, 'UtlsVerif', 'Gen')
    tmp = gdir + '.tmp'
    shutil.rmtree(tmp, ignore_errors=True)
    os.makedirs(tmp)
    rc, out = run([os.path.join(BIN, 'gen'), tmp], env=GOENV, timeout=600)
    if rc != 0:
        return rc, out
    os.makedirs(gdir, exist_ok=True)
    new = set(os.listdir(tmp))
    for f in os.listdir(gdir):
        if f not in new:
            os.remove(os.path.join(gdir, f))
    for f in new:
        a, b = os.path.join(tmp, f), os.path.join(gdir, f)
        if not os.path.exists(b) or open(a, 'rb').read() != open(b, 'rb').read():
            shutil.move(a, b)
    shutil.rmtree(tmp, ignore_errors=True)
    return 0, out


def lake_build(targets):
    run([sys.executable, os.path.join(ROOT, 'tools', 'gendrv.py')])
    return run(['lake', 'build'] + targets, cwd=LEAN)


def axiom_audit(pid, names):
    f = os.path.join(LEAN, f'AuditTmp_{pid}.lean')
    with open(f, 'w') as fh:
        fh.write(f'import UtlsVerif.Props.{pid}\n')
        for n in names:
            fh.write(f'#print axioms {n}\n')
    rc, out = run(['lake', 'env', 'lean', f], cwd=LEAN)
    os.remove(f)
    res = {}
    flat = re.sub(r'\n\s+', ' ', out)
    for m in re.finditer(r"'([^']+)' depends on axioms: \[([^\]]*)\]", flat):
        res[m.group(1)] = [a.strip() for a in m.group(2).split(',') if a.strip()]
    for m in re.finditer(r"'([^']+)' does not depend on any axioms", flat):
        res[m.group(1)] = []
    return rc, out, res


def known_findings(pid):
    p = os.path.join(ROOT, 'known_findings.json')
    if not os.path.exists(p):
        return []
    return [k for k in json.load(open(p)) if k.get('property') == pid and k.get('status') == 'open']


def matches_finding(kf, fam, line, verdict):
    m = kf.get('match', {})
    if m.get('family') and m['family'] != fam:
        return False
    if m.get('line_re') and not re.search(m['line_re'], line):
        return False
    if m.get('verdict_re') and not re.search(m['verdict_re'], verdict):
        return False
    return True


def exec_lines(lines):
    """re-run input lines against the implementation and the model; returns [(line, verdict)]."""
    rc, out = run([os.path.join(BIN, 'corr'), 'exec'], inp='\n'.join(lines) + '\n', env=GOENV, timeout=600)
    cases = [l for l in out.split('\n') if l.strip()]
    rc2, vout = run([MODEL], inp='\n'.join(cases) + '\n', timeout=600)
    verd = [l for l in vout.split('\n') if l.strip()]
    return list(zip(cases, verd))


def run_model(lines, jobs=None):
    """run the Lean driver over the lines, split over the cores (one verdict per line, order kept)."""
    jobs = jobs or min(16, os.cpu_count() or 4)
    if len(lines) < 64:
        jobs = 1
    # balance by bytes: deal lines round-robin after sorting by size
    order = sorted(range(len(lines)), key=lambda i: -len(lines[i]))
    buckets = [[] for _ in range(jobs)]
    for n, i in enumerate(order):
        buckets[n % jobs].append(i)
    procs = []
    for b in buckets:
        p = subprocess.Popen([MODEL], stdin=subprocess.PIPE, stdout=subprocess.PIPE, text=True)
        procs.append((b, p))
    import threading
    outs = [None] * len(procs)
    def feed(k, b, p):
        outs[k] = p.communicate('\n'.join(lines[i] for i in b) + '\n')[0]
    ths = [threading.Thread(target=feed, args=(k, b, p)) for k, (b, p) in enumerate(procs)]
    for t in ths: t.start()
    for t in ths: t.join()
    verd = ['BAD missing-verdict'] * len(lines)
    for k, (b, p) in enumerate(procs):
        vs = [l for l in (outs[k] or '').split('\n') if l.strip()]
        for j, i in enumerate(b):
            if j < len(vs):
                verd[i] = vs[j]
    return verd


def shrink(line, verdict, budget=120):
    """delta-debug the comma/semicolon separated list fields of a failing input line."""
    kind = verdict.split(' ')[0]
    clause = verdict.split('clause: ')[-1].split(' ')[0] if 'clause: ' in verdict else ''
    inp = line.split(' => ')[0]
    best = inp
    used = 0
    progress = True
    while progress and used < budget:
        progress = False
        toks = best.split(' ')
        for ti in range(1, len(toks)):
            if '=' not in toks[ti]:
                continue
            k, v = toks[ti].split('=', 1)
            if ',' not in v:
                continue
            items = v.split(',')
            i = 0
            while i < len(items) and used < budget:
                cand_items = items[:i] + items[i + 1:]
                cand = ' '.join(toks[:ti] + [k + '=' + (','.join(cand_items) if cand_items else '-')] + toks[ti + 1:])
                used += 1
                try:
                    r = exec_lines([cand])
                except Exception:
                    break
                if r and r[0][1].split(' ')[0] == kind and (not clause or clause in r[0][1]):
                    items = cand_items
                    best = cand
                    toks = best.split(' ')
                    progress = True
                else:
                    i += 1
    return best


def main():
    ap = argparse.ArgumentParser()
    ap.add_argument('pid')
    ap.add_argument('--tier', default=os.environ.get('VERIF_TIER', 'quick'))
    ap.add_argument('--replay')
    ap.add_argument('--no-build', action='store_true', help='debug: skip the harness/lean rebuild')
    a = ap.parse_args()
    pid, tier = a.pid, a.tier
    if tier not in ('quick', 'thorough'):
        tier = 'quick'
    seed = int(os.environ.get('VERIF_SEED', '1') or '1')
    cfg = P.PROPS[pid]
    t0 = time.monotonic()
    os.makedirs(os.path.join(ROOT, 'evidence'), exist_ok=True)
    os.makedirs(os.path.join(ROOT, 'replays'), exist_ok=True)
    violations = []      # (replay_path, no_input_flag)
    notes = []

    def write_replay(name, content):
        p = os.path.join(ROOT, 'replays', name)
        with open(p, 'w') as fh:
            fh.write(content)
        return p

    # ---- 1..3 build, regenerate, prove
    names = registry(pid)
    proof_ok = True
    proof_fail_msg = ''
    with Lock():
        if not a.no_build:
            rc, out = build_harness()
            if rc != 0:
                p = write_replay(f'{pid}-harness-build.txt',
                                 f'harness no longer builds against {REPO} with -tags verif; the correspondence for {pid} cannot be checked\n\n{out}')
                print(out[-3000:])
                print(f'VIOLATION property={pid} replay={p} no-failing-input-found')
                write_evidence(pid, tier, seed, cfg, names, 0, {}, [], [], time.monotonic() - t0, 1, notes + ['harness build failed'])
                return 1
            rc, out = regen()
            if rc != 0:
                p = write_replay(f'{pid}-gen.txt', f'table generator failed on {REPO}\n\n{out}')
                print(out[-3000:])
                print(f'VIOLATION property={pid} replay={p} no-failing-input-found')
                write_evidence(pid, tier, seed, cfg, names, 0, {}, [], [], time.monotonic() - t0, 1, notes + ['gen failed'])
                return 1
            # model + driver first (needed for the search even when a theorem breaks)
            rc, out = lake_build(['utlsmodel'])
            if rc != 0:
                print(out[-4000:])
                p = write_replay(f'{pid}-model-build.txt', 'the Lean model/driver no longer builds\n\n' + out)
                print(f'VIOLATION property={pid} replay={p} no-failing-input-found')
                write_evidence(pid, tier, seed, cfg, names, 0, {}, [], [], time.monotonic() - t0, 1, notes + ['model build failed'])
                return 1
            rc, out = lake_build([f'UtlsVerif.Props.{pid}'])
            if rc != 0:
                proof_ok = False
                proof_fail_msg = out
        hits = grep_audit()
        axioms = {}
        if proof_ok:
            rc, aout, axioms = axiom_audit(pid, names)
            bad = {n: ax for n, ax in axioms.items() if set(ax) - ALLOWED_AXIOMS}
            missing = [n for n in names if n not in axioms]
            if rc != 0 or bad or missing:
                proof_ok = False
                proof_fail_msg = f'axiom audit failed: rc={rc} bad={bad} missing={missing}\n{aout}'
        if hits:
            proof_ok = False
            proof_fail_msg += '\nbanned tokens:\n' + '\n'.join(hits)
        if proof_ok and tier == 'thorough' and not a.no_build:
            rc, out = run(['lake', 'env', 'leanchecker', f'UtlsVerif.Props.{pid}'], cwd=LEAN, timeout=3600)
            notes.append(f'leanchecker rc={rc}')
            if rc != 0:
                proof_ok = False
                proof_fail_msg = 'leanchecker rejected the module\n' + out

    # ---- 4 correspond and monitor
    all_cases = []     # (family, line, verdict)
    if a.replay:
        lines = [l.strip() for l in open(a.replay) if l.strip() and not l.startswith('#')]
        lines = [l for l in lines if l.split(' ')[0] in cfg['families']]
        for line, v in exec_lines(lines):
            print(line); print('  ->', v)
            all_cases.append((line.split(' ')[0], line, v))
    else:
        corpus_dir = os.path.join(ROOT, 'corpus', pid)
        corpus = []
        if os.path.isdir(corpus_dir):
            for f in sorted(os.listdir(corpus_dir)):
                corpus += [l.strip() for l in open(os.path.join(corpus_dir, f)) if l.strip() and not l.startswith('#')]
        if corpus:
            for line, v in exec_lines(corpus):
                all_cases.append((line.split(' ')[0], line, v))
        for fam, (nq, nt) in cfg['families'].items():
            n = nq if tier == 'quick' else nt
            cmd = [os.path.join(BIN, 'corr'), 'run', fam, '--seed', str(seed), '--n', str(n), '--tier', tier]
            p1 = subprocess.Popen(cmd, stdout=subprocess.PIPE, env=GOENV, text=True)
            out1, _ = p1.communicate(timeout=cfg.get('timeout', 7200))
            lines = [l for l in out1.split('\n') if l.strip()]
            if p1.returncode != 0:
                notes.append(f'corr run {fam} exited {p1.returncode}')
                lines.append(f'{fam} crashed=1 => out=harness-crash')
            verd = run_model(lines)
            nmiss = sum(1 for v in verd if v == 'BAD missing-verdict')
            if nmiss:
                notes.append(f'driver produced no verdict for {nmiss} of {len(lines)} lines in {fam}')
            all_cases += [(fam, l, v) for l, v in zip(lines, verd)]

    # ---- 5 classify
    kfs = known_findings(pid)
    kf_hit = {}
    fails, diffs, bads = [], [], []
    tags = {}
    for fam, line, v in all_cases:
        kind = v.split(' ')[0]
        tag = v.split(' ')[1] if len(v.split(' ')) > 1 else ''
        tags[f'{fam}:{tag}'] = tags.get(f'{fam}:{tag}', 0) + 1
        if kind == 'ok':
            continue
        k = next((k for k in kfs if matches_finding(k, fam, line, v)), None)
        if k is not None:
            kf_hit.setdefault(k['key'], (k, line))
            continue
        (fails if kind == 'PROPFAIL' else diffs if kind == 'DIFF' else bads).append((fam, line, v))
    for key, (k, line) in kf_hit.items():
        print(f"KNOWN-FINDING: property={pid} {k['what']}")
    for k in kfs:
        if k['key'] not in kf_hit and not a.replay:
            notes.append(f"open finding {k['key']} did not reproduce in this run")

    # hunt mode (DESIGN §4.3): the tie or a proof broke but no monitor fired — widen the search for a
    # concrete failing input (other seeds, 4x the cases, the differing families first) before giving up
    if not fails and (diffs or bads or not proof_ok) and not a.replay and os.path.exists(MODEL):
        hunt_fams = [f for f in cfg['families'] if any(d[0] == f for d in diffs + bads)] or list(cfg['families'])
        budget_t = time.monotonic() + (120 if tier == 'quick' else 900)
        for hs in range(1, 4):
            if fails or time.monotonic() > budget_t:
                break
            for fam in hunt_fams:
                nq, nt = cfg['families'][fam]
                n = min(4 * nq, nt) if tier == 'quick' else nt
                cmd = [os.path.join(BIN, 'corr'), 'run', fam, '--seed', str(seed * 1000003 + hs), '--n', str(n), '--tier', tier]
                try:
                    p1 = subprocess.run(cmd, stdout=subprocess.PIPE, env=GOENV, text=True, timeout=max(30, budget_t - time.monotonic()))
                except subprocess.TimeoutExpired:
                    continue
                hl = [l for l in p1.stdout.split('\n') if l.strip()]
                for l, v in zip(hl, run_model(hl)):
                    if v.startswith('PROPFAIL') and not any(matches_finding(k, fam, l, v) for k in kfs):
                        fails.append((fam, l, v))
                        all_cases.append((fam, l, v))
                if fails:
                    notes.append(f'hunt mode found a failing input in family {fam} (derived seed {hs})')
                    break
        if not fails:
            notes.append('hunt mode: no failing input found in the widened search')

    nviol = 0
    if fails:
        fam, line, v = fails[0]
        small = shrink(line, v) if cfg.get('shrink', True) else line.split(' => ')[0]
        rs = exec_lines([small])
        body = (f'# property {pid}: implementation output violates the property predicate\n# clause: {v}\n'
                f'# original case:\n# {line}\n# shrunk input, implementation output and verdict:\n{rs[0][0] if rs else small}\n# {rs[0][1] if rs else ""}\n'
                f'# replay: ./check {pid} --replay <this file>\n# total failing cases this run: {len(fails)}\n')
        p = write_replay(f'{pid}-{seed}-propfail.case', body)
        print(f'VIOLATION property={pid} replay={p}')
        nviol += len(fails)
    elif diffs or bads or not proof_ok:
        # a tie or a proof obligation broke; no monitor hit found in this run's search
        if not proof_ok:
            m = re.search(r'error: ([^\n]*)', proof_fail_msg)
            print(proof_fail_msg[-3000:])
            body = f'# property {pid}: proof obligation no longer checks\n# theorems: {", ".join(names)}\n# first error: {m.group(1) if m else "?"}\n\n' + proof_fail_msg[-6000:]
            p = write_replay(f'{pid}-{seed}-proof.txt', body)
        else:
            fam, line, v = (diffs + bads)[0]
            body = (f'# property {pid}: correspondence between the Lean model and the implementation differs ({len(diffs)} DIFF, {len(bads)} BAD)\n'
                    f'# no implementation output violating the property predicate was found in this run\n# first differing case:\n{line}\n# {v}\n')
            p = write_replay(f'{pid}-{seed}-diff.case', body)
        print(f'VIOLATION property={pid} replay={p} no-failing-input-found')
        nviol += max(1, len(diffs) + len(bads))

    # required classes never hit => the generator collapsed: infrastructure error, not success
    infra = []
    if not a.replay:
        for rt in cfg.get('required_tags', []):
            if not any(re.search(rt, t) for t in tags):
                infra.append(rt)
    write_evidence(pid, tier, seed, cfg, names, len(names) if proof_ok else 0, axioms, all_cases, tags,
                   time.monotonic() - t0, nviol, notes + ([f'required classes never hit: {infra}'] if infra else []),
                   kf=[k['key'] for k, _ in kf_hit.values()])
    if nviol:
        return 1
    if infra:
        print(f'INFRA-ERROR property={pid}: generator never produced classes {infra}')
        return 3
    print(f'OK property={pid} tier={tier} theorems={len(names)} cases={len(all_cases)} wall={time.monotonic() - t0:.1f}s')
    return 0


def write_evidence(pid, tier, seed, cfg, names, discharged, axioms, cases, tags, wall, nviol, notes, kf=()):
    tags = tags if isinstance(tags, dict) else {}
    triv = re.compile(cfg.get('trivial_tag', r'^$'))
    distinct = set()
    for fam, line, v in cases:
        tag = v.split(' ')[1] if len(v.split(' ')) > 1 else ''
        if not triv.search(tag):
            distinct.add(line.split(' => ')[0])
    samples = []
    seen_f = {}
    for fam, line, v in cases:
        if seen_f.get(fam, 0) < 2:
            seen_f[fam] = seen_f.get(fam, 0) + 1
            samples.append((line if len(line) < 600 else line[:600] + '…') + '  ## ' + v)
    ev = {
        'property_id': pid, 'tier': tier, 'seed': seed, 'level': 'proof',
        'coverage': {
            'obligations': len(names), 'discharged': discharged,
            'checker_cmd': f'cd lean && lake build UtlsVerif.Props.{pid} && lake env lean <#print axioms for each registered theorem>' + (' && lake env leanchecker UtlsVerif.Props.' + pid if tier == 'thorough' else ''),
            'trusted_base': TRUSTED_COMMON + cfg.get('trusted', []),
            'theorems': names, 'statement_hashes': statement_hashes(pid), 'axioms': axioms,
            'evaluations': len(cases), 'distinct_nontrivial': len(distinct),
            'rule': cfg.get('rule', ''), 'samples': samples,
            'traces_validated_against_impl': sum(1 for c in cases if c[2].startswith('ok')),
            'distribution': dict(sorted(tags.items())),
            'known_findings_reproduced': list(kf),
            'exhaustive': bool(cfg.get('exhaustive', False)),
            'notes': notes,
        },
        'assumptions': cfg.get('assumptions', []),
        'wall_s': round(wall, 2), 'violations': nviol,
    }
    with open(os.path.join(ROOT, 'evidence', pid + '.json'), 'w') as fh:
        json.dump(ev, fh, indent=1)


if __name__ == '__main__':
    sys.exit(main())
